(* C08 (transformer half), universal: with include_position=True every position
   the loaded dictionary RECORDS is the position of a token of the parse tree,
   and of the RIGHT token.

   Proofs/ParseFacts.v shows that every token of the returned parse tree lies
   in the text where its line/column say (tree_tokens_positions).  This file
   adds the transformer: a logical predicate over all 48 callbacks of
   Model/Transformer.v (organised like Proofs/C13U.v), for EVERY tree, then
   lifted to transform (both comment modes), tv_to_value and Api.loads.

   Specification (Section Spec, over a relation SN, SN L C k = "(L, C) is the line/column
   of a source token named k"):
     is_rec k v      v is a per-keyword record {line, column[, values]} made from a token named k,
                     every [line, column] pair in values being a source position
     pentry L C k v  what a block's __position__ dict may hold under key k
     bpos k p        p is the __position__ dict of a block opened by a token named k
     positions_ok v  every dict with a __type__ entry, at every depth (through lists and dict
                     values, except below the keys __position__, __comments__, config), has a
                     __position__ entry which is such a dict
   Main statements (all closed under the global context):
     tr_main_PR / ctr_GR / comments_callback_GR / transform_PR
         the logical predicate PR is kept by every callback, for EVERY gtree whose leaves satisfy it
         (Section Prov: generic in the source predicate SN, the token predicate TP, the naming NM)
     PR_positions_ok                   PR x -> positions_ok (tvv x)
     loads_positions_gen               the generic statement for Api.loads
     recorded_positions_are_token_positions      goal 1: positions_from (leaves tree) v, every text, both comment modes
     recorded_positions_are_token_positions_map  the same without the (None, None) alternative when the root is not SYMBOLSET
     recorded_positions_are_text_positions       with ParseFacts.tree_tokens_positions: token_at text t0
   Proofs/C08U_Named.v: goal 2 (positions_named: the RIGHT token), the guard TKb discharged for parser trees,
   reading lemmas, refuted variants with witnesses.  Proofs/C08U_Local.v: goal 3 (partial). *)
From MF Require Import Lib.Base Lib.PyDict Lib.PyNum Lib.Regex Model.GrammarTypes Model.Lexer Model.LR
  Model.Case Model.Transformer Model.Api Gen.Tokens Gen.Grammar
  Proofs.CaseFacts Proofs.LexFacts Proofs.ParseFacts Proofs.GrammarFacts Proofs.C11 Proofs.C13U.
Open Scope N_scope.

(* ================================================================ specification *)

(* keys below which the predicate does not look: the record itself, the
   comments dict (keyed by user strings) and the CONFIG dict (user strings) *)
Definition skip (k : str) : bool :=
  str_eqb k s_position || str_eqb k s_comments || str_eqb k s_config.

Section Spec.
  Variable SN : value -> value -> str -> Prop.

  Definition SP (L C : value) : Prop := exists k, SN L C k.

  Definition pairP (p : value) : Prop := exists L C, p = VList [L; C] /\ SP L C.

  Definition is_rec (k : str) (v : value) : Prop :=
    exists L C, SN L C k /\
      (v = VDict DPlain [(s_line, L); (s_column, C)] \/
       exists ps, v = VDict DPlain [(s_line, L); (s_column, C); (s_values, VList ps)] /\ Forall pairP ps).

  Definition pentry (L C : value) (k : str) (v : value) : Prop :=
       (k = s_line /\ v = L)
    \/ (k = s_column /\ v = C)
    \/ (k = s_values /\ exists ps, v = VList ps /\ Forall pairP ps)
    \/ (k <> s_config /\ (is_rec k v \/ exists l, v = VList l /\ Forall (is_rec k) l))
    \/ (k = s_config /\ exists c x, v = VDict c x /\ Forall (fun kv => is_rec k (snd kv)) x).

  Definition pentries (L C : value) (p : list (str * value)) : Prop :=
    Forall (fun kv => pentry L C (fst kv) (snd kv)) p /\ od_mem s_line p = true /\ od_mem s_column p = true.

  Definition bpos (kown : str) (p : list (str * value)) : Prop :=
    exists L C, SN L C kown /\ pentries L C p.

  (* a dict that has a __type__ entry has a __position__ entry which is the
     position dict of a block opened by a token named like the __type__ value,
     or by a token spelled __type__ (an attribute of that name is stored by
     mappyfile as if it were a block) *)
  Definition vdict_pos (items : list (str * value)) : Prop :=
    assoc s_type items <> None ->
    exists p kown, assoc s_position items = Some (VDict DPlain p) /\ bpos kown p /\
                   (kown = s_type \/ assoc s_type items = Some (VStr kown)).

  Fixpoint positions_ok (v : value) : Prop :=
    match v with
    | VList l => (fix go (l : list value) : Prop :=
                    match l with [] => True | y :: l' => positions_ok y /\ go l' end) l
    | VDict c items =>
        (fix go (l : list (str * value)) : Prop :=
           match l with
           | [] => True
           | (k, y) :: l' => (skip k = true \/ positions_ok y) /\ go l'
           end) items
        /\ vdict_pos items
    | _ => True
    end.

  Lemma positions_ok_list l : positions_ok (VList l) <-> Forall positions_ok l.
  Proof.
    cbn [positions_ok]. induction l as [|y l IH]; [split; [constructor|exact (fun _ => I)]|].
    rewrite IH. split; [intros [H1 H2]; constructor; assumption|intros H; inversion H; subst; tauto].
  Qed.

  Lemma positions_ok_dict c items :
    positions_ok (VDict c items) <->
    Forall (fun kv => skip (fst kv) = true \/ positions_ok (snd kv)) items /\ vdict_pos items.
  Proof.
    cbn [positions_ok].
    assert (H : (fix go (l : list (str * value)) : Prop :=
                   match l with
                   | [] => True
                   | (k, y) :: l' => (skip k = true \/ positions_ok y) /\ go l'
                   end) items <-> Forall (fun kv => skip (fst kv) = true \/ positions_ok (snd kv)) items).
    { induction items as [|[k y] l IH]; [split; [constructor|exact (fun _ => I)]|].
      rewrite IH. split; [intros [H1 H2]; constructor; assumption|intros H; inversion H; subst; tauto]. }
    rewrite H. tauto.
  Qed.
End Spec.

(* monotonicity in the source predicate *)
Section Mono.
  Variables SN SN' : value -> value -> str -> Prop.
  Hypothesis Himp : forall L C k, SN L C k -> SN' L C k.

  Lemma SP_mono L C : SP SN L C -> SP SN' L C.
  Proof. intros [k H]. exists k. auto. Qed.

  Lemma pairP_mono p : pairP SN p -> pairP SN' p.
  Proof. intros (L & C & -> & H). exists L, C. split; [reflexivity|apply SP_mono; exact H]. Qed.

  Lemma is_rec_mono k v : is_rec SN k v -> is_rec SN' k v.
  Proof.
    intros (L & C & H & [->|(ps & -> & Hp)]); exists L, C; (split; [auto|]); [left; reflexivity|].
    right. exists ps. split; [reflexivity|]. eapply Forall_impl; [|exact Hp]. exact pairP_mono.
  Qed.

  Lemma pentry_mono L C k v : pentry SN L C k v -> pentry SN' L C k v.
  Proof.
    unfold pentry. intros [H|[H|[H|[H|H]]]]; [tauto|tauto| | |].
    - right; right; left. destruct H as (-> & ps & -> & Hp). split; [reflexivity|]. exists ps. split; [reflexivity|].
      eapply Forall_impl; [|exact Hp]. exact pairP_mono.
    - right; right; right; left. destruct H as (Hk & [H|(l & -> & Hl)]); (split; [exact Hk|]).
      + left. apply is_rec_mono. exact H.
      + right. exists l. split; [reflexivity|]. eapply Forall_impl; [|exact Hl]. apply is_rec_mono.
    - right; right; right; right. destruct H as (-> & c & x & -> & Hx). split; [reflexivity|].
      exists c, x. split; [reflexivity|]. eapply Forall_impl; [|exact Hx]. intros kv. apply is_rec_mono.
  Qed.

  Lemma bpos_mono k p : bpos SN k p -> bpos SN' k p.
  Proof.
    intros (L & C & H & Hf & H1 & H2). exists L, C. split; [auto|]. split; [|tauto].
    eapply Forall_impl; [|exact Hf]. intros kv. apply pentry_mono.
  Qed.

  Lemma vdict_pos_mono items : vdict_pos SN items -> vdict_pos SN' items.
  Proof.
    unfold vdict_pos. intros H Ht. destruct (H Ht) as (p & kown & H1 & H2 & H3).
    exists p, kown. split; [exact H1|]. split; [apply bpos_mono; exact H2|exact H3].
  Qed.

  Lemma positions_ok_mono : forall v, positions_ok SN v -> positions_ok SN' v.
  Proof.
    induction v as [| | | | |l IH|c items IH] using value_ind'; try (intros; exact I).
    - rewrite !positions_ok_list. intros H. rewrite Forall_forall in *. intros y Hy. apply IH; auto.
    - rewrite !positions_ok_dict. intros [H1 H2]. split; [|apply vdict_pos_mono; exact H2].
      rewrite Forall_forall in *. intros kv Hkv. destruct (H1 kv Hkv) as [Hs|Hp]; [left; exact Hs|right].
      apply IH; assumption.
  Qed.
End Mono.

(* ================================================================ generic lemmas *)
Lemma Forall_od_replace {A} (P : str * A -> Prop) k v (l : list (str * A)) :
  P (k, v) -> Forall P l -> Forall P (od_replace k v l).
Proof.
  intros Hv. induction 1 as [|[k' v'] l Hx Hl IH]; cbn [od_replace]; [constructor|].
  destruct (str_eqb_spec k k') as [<-|Hne]; constructor; assumption.
Qed.

Lemma Forall_od_set {A} (P : str * A -> Prop) k v (l : list (str * A)) :
  P (k, v) -> Forall P l -> Forall P (od_set k v l).
Proof.
  intros Hv Hl. unfold od_set. destruct (od_mem k l).
  - apply Forall_od_replace; assumption.
  - apply Forall_app. split; [exact Hl|constructor; [exact Hv|constructor]].
Qed.

Lemma In_od_del {A} k (l : list (str * A)) x : In x (od_del k l) -> In x l.
Proof.
  induction l as [|[k' v'] l IH]; cbn [od_del]; [tauto|].
  destruct (str_eqb k k'); cbn [In]; [tauto|]. intros [H|H]; [left; exact H|right; apply IH; exact H].
Qed.

Lemma In_keys {A} k (v : A) l : In (k, v) l -> In k (keys l).
Proof. intros H. unfold keys. change k with (fst (k, v)). apply in_map. exact H. Qed.

Lemma In_assoc_not_None {A} k (v : A) l : In (k, v) l -> assoc k l <> None.
Proof. intros H. rewrite assoc_None_notin. intros Hn. apply Hn. eapply In_keys. exact H. Qed.

Lemma assoc_map_snd {A B} (f : A -> B) k (l : list (str * A)) :
  assoc k (map (fun kv => (fst kv, f (snd kv))) l) = option_map f (assoc k l).
Proof.
  induction l as [|[k' v] l IH]; cbn [map assoc fst snd]; [reflexivity|].
  destruct (str_eqb k k'); [reflexivity|exact IH].
Qed.

Lemma od_mem_set_keep {A} k k2 (v : A) l : od_mem k2 l = true -> od_mem k2 (od_set k v l) = true.
Proof. intros H. rewrite od_mem_set, H. apply orb_true_r. Qed.

Lemma assoc_Forall {A} (P : str * A -> Prop) k v (l : list (str * A)) :
  Forall P l -> assoc k l = Some v -> exists k', P (k', v) /\ k = k'.
Proof.
  induction 1 as [|[k' v'] l Hx _ IH]; cbn [assoc]; [discriminate|].
  destruct (str_eqb_spec k k') as [->|Hne]; [intros [= ->]; exists k'; auto|exact IH].
Qed.

Lemma assoc_Forall' {A} (P : str -> A -> Prop) k v (l : list (str * A)) :
  Forall (fun kv => P (fst kv) (snd kv)) l -> assoc k l = Some v -> P k v.
Proof.
  intros HF Ha. destruct (assoc_Forall _ k v l HF Ha) as (k' & Hp & ->). exact Hp.
Qed.

(* ---------------------------------------------------------------- nodict *)
Fixpoint nodict (v : value) : bool :=
  match v with
  | VList l => forallb nodict l
  | VDict _ _ => false
  | _ => true
  end.

Lemma nodict_clean_top v : nodict (clean_top v) = nodict v.
Proof. destruct v; reflexivity. Qed.

Lemma nodict_clean_string : forall v, nodict (clean_string v) = nodict v.
Proof.
  induction v as [| | | | |l IH|c items IH] using value_ind'; try reflexivity.
  cbn [clean_string nodict]. induction IH as [|y l Hy _ IHl]; [reflexivity|].
  cbn [map forallb]. rewrite Hy, IHl. reflexivity.
Qed.

Lemma forallb_app_true {A} (f : A -> bool) l1 l2 :
  forallb f l1 = true -> forallb f l2 = true -> forallb f (l1 ++ l2) = true.
Proof. intros H1 H2. rewrite forallb_app, H1, H2. reflexivity. Qed.

(* small string facts, by computation on the constants of Model/Transformer.v *)
Lemma lower_line : lower s_line = s_line. Proof. vm_compute. reflexivity. Qed.
Lemma lower_symbolset : lower s_symbolset = s_symbolset. Proof. vm_compute. reflexivity. Qed.

Lemma skip_position : skip s_position = true. Proof. reflexivity. Qed.
Lemma skip_comments : skip s_comments = true. Proof. reflexivity. Qed.
Lemma skip_config : skip s_config = true. Proof. reflexivity. Qed.
Lemma skip_tokens : skip s_tokens = false. Proof. reflexivity. Qed.
Lemma skip_type : skip s_type = false. Proof. reflexivity. Qed.

Lemma skip_lower k : skip k = true -> lower k = k.
Proof.
  unfold skip. intros H. apply orb_true_iff in H. destruct H as [H|H].
  - apply orb_true_iff in H. destruct H as [H|H]; apply str_eqb_eq in H; subst k.
    + apply lower_position.
    + apply lower_comments.
  - apply str_eqb_eq in H. subst k. apply lower_config.
Qed.

(* ================================================================ the logical predicate *)
Section Prov.
  Variable SN : value -> value -> str -> Prop.
  Variable TP : ptok -> Prop.            (* the token stems from a source token (type, text, line, column) *)
  Variable NM : ptok -> str -> Prop.      (* the source token is named k *)
  Hypothesis TP_set : forall t v, TP t -> TP (set_val t v).
  Hypothesis TP_SP : forall t, TP t -> SP SN (pk_line t) (pk_col t).
  Hypothesis TPN_SN : forall t k, TP t -> NM t k -> SN (pk_line t) (pk_col t) k.

  (* the name under which a key token is filed is a name of its source token *)
  Definition KN (t : ptok) : Prop := forall kn, key_name t = Ok kn -> NM t kn.
  Definition keyarg (x : tv) : Prop :=
    match x with TTok t => KN t | TSeq (TTok t :: _) => KN t | _ => True end.

  Definition dict_pos (items : titems) : Prop :=
    assoc s_type items <> None ->
    exists p kown, assoc s_position items = Some (TVal (VDict DPlain p)) /\ bpos SN kown p /\
                   (kown = s_type \/ assoc s_type items = Some (TVal (VStr kown))).

  Definition reserved (k : str) : Prop := k = s_position \/ k = s_tokens \/ k = s_comments.

  (* what composite() relies on when it is handed an attr() result *)
  Definition attr_ok (items : titems) : Prop :=
    assoc s_type items = None ->
    NoDup (keys items) /\
    exists kn0, lower kn0 = kn0 /\
      (forall k, In k (keys items) -> k = kn0 \/ reserved k) /\
      (forall p, assoc s_position items = Some p ->
                 kn0 = s_position \/ exists pd, p = TVal pd /\ is_rec SN kn0 pd).

  Fixpoint PR (x : tv) : Prop :=
    match x with
    | TVal v => nodict v = true
    | TTok t => TP t /\ nodict (pk_val t) = true
    | TSeq l => (fix go (l : list tv) : Prop :=
                   match l with [] => True | y :: l' => PR y /\ go l' end) l
    | TDict c items =>
        (fix go (l : list (str * tv)) : Prop :=
           match l with
           | [] => True
           | (k, y) :: l' => (skip k = true \/ PR y) /\ go l'
           end) items
        /\ dict_pos items /\ attr_ok items
    end.

  Definition kidsF (items : titems) : Prop :=
    Forall (fun kv => skip (fst kv) = true \/ PR (snd kv)) items.

  Lemma PR_seq l : PR (TSeq l) <-> Forall PR l.
  Proof.
    cbn [PR]. induction l as [|y l IH]; [split; [constructor|exact (fun _ => I)]|].
    rewrite IH. split; [intros [H1 H2]; constructor; assumption|intros H; inversion H; subst; tauto].
  Qed.

  Lemma PR_dict c items : PR (TDict c items) <-> kidsF items /\ dict_pos items /\ attr_ok items.
  Proof.
    cbn [PR]. unfold kidsF.
    assert (H : (fix go (l : list (str * tv)) : Prop :=
                   match l with
                   | [] => True
                   | (k, y) :: l' => (skip k = true \/ PR y) /\ go l'
                   end) items <-> Forall (fun kv => skip (fst kv) = true \/ PR (snd kv)) items).
    { induction items as [|[k y] l IH]; [split; [constructor|exact (fun _ => I)]|].
      rewrite IH. split; [intros [H1 H2]; constructor; assumption|intros H; inversion H; subst; tauto]. }
    rewrite H. tauto.
  Qed.

  Lemma PR_set a v : PR (TTok a) -> nodict v = true -> PR (TTok (set_val a v)).
  Proof. intros [H1 _] Hv. split; [apply TP_set; exact H1|exact Hv]. Qed.

  Lemma PR_tok_val a : PR (TTok a) -> nodict (pk_val a) = true.
  Proof. intros [_ H]. exact H. Qed.

  Lemma kidsF_get k v items : kidsF items -> assoc k items = Some v -> skip k = true \/ PR v.
  Proof. intros HF Ha. exact (assoc_Forall' (fun k v => skip k = true \/ PR v) k v items HF Ha). Qed.

  Lemma kidsF_In k v items : kidsF items -> In (k, v) items -> skip k = true \/ PR v.
  Proof. intros HF Hin. unfold kidsF in HF. rewrite Forall_forall in HF. exact (HF (k, v) Hin). Qed.

  Lemma kidsF_set k v items : skip k = true \/ PR v -> kidsF items -> kidsF (od_set k v items).
  Proof. intros Hv HF. apply Forall_od_set; assumption. Qed.

  Lemma kidsF_ci_set k v items : skip (lower k) = true \/ PR v -> kidsF items -> kidsF (ci_set k v items).
  Proof. intros Hv HF. unfold ci_set. apply kidsF_set; assumption. Qed.

  (* ---------------------------------------------------------------- token callbacks *)
  Lemma tok_of_PR x t : PR x -> tok_of x = Ok t -> PR (TTok t).
  Proof. destruct x; try discriminate. intros H [= <-]. exact H. Qed.

  Lemma tv_dot_value_PR x v : PR x -> tv_dot_value x = Ok v -> nodict v = true.
  Proof. destruct x; try discriminate. intros H [= <-]. apply PR_tok_val. exact H. Qed.

  Lemma first_tok_PR t a : Forall PR t -> first_tok t = Ok a -> PR (TTok a).
  Proof.
    intros HF H. destruct t as [|[| | |] ?]; try discriminate. injection H as <-. exact (Forall_inv HF).
  Qed.

  Lemma set_first_PR t s x : Forall PR t -> set_first t s = Ok x -> PR x.
  Proof.
    intros HF H. destruct t as [|[| | |] ?]; try discriminate. injection H as <-.
    apply PR_set; [exact (Forall_inv HF)|reflexivity].
  Qed.

  Lemma cb_binary_PR t a b c x : Forall PR t -> cb_binary t a b c = Ok x -> PR x.
  Proof. unfold cb_binary. intros HF H. wcrush H. eapply set_first_PR; eassumption. Qed.

  Lemma cb_comparison_PR t x : Forall PR t -> cb_comparison t = Ok x -> PR x.
  Proof. unfold cb_comparison. intros HF H. wcrush H. eapply set_first_PR; eassumption. Qed.

  Lemma cb_prefix_PR t p b x : Forall PR t -> cb_prefix t p b = Ok x -> PR x.
  Proof. unfold cb_prefix. intros HF H. wcrush H; eapply set_first_PR; eassumption. Qed.

  Lemma cb_expression_PR t x : Forall PR t -> cb_expression t = Ok x -> PR x.
  Proof.
    unfold cb_expression. intros HF H. wcrush H.
    - exact (Forall_inv HF).
    - apply PR_set; [exact (Forall_inv HF)|reflexivity].
  Qed.

  Lemma cb_func_call_PR t x : Forall PR t -> cb_func_call t = Ok x -> PR x.
  Proof. unfold cb_func_call. intros HF H. wcrush H. apply PR_set; [exact (Forall_inv HF)|reflexivity]. Qed.

  Lemma cb_func_params_PR t x : cb_func_params t = Ok x -> PR x.
  Proof. unfold cb_func_params. intros H. wcrush H. reflexivity. Qed.

  Lemma cb_attr_bind_PR t x : Forall PR t -> cb_attr_bind t = Ok x -> PR x.
  Proof. unfold cb_attr_bind. intros HF H. wcrush H. apply PR_set; [exact (Forall_inv HF)|reflexivity]. Qed.

  Lemma cb_list_PR t x : Forall PR t -> cb_list t = Ok x -> PR x.
  Proof. unfold cb_list. intros HF H. wcrush H. apply PR_set; [exact (Forall_inv HF)|reflexivity]. Qed.

  Lemma cb_first_PR t x : Forall PR t -> cb_first t = Ok x -> PR x.
  Proof. unfold cb_first. intros HF H. wcrush H. exact (Forall_inv HF). Qed.

  Lemma cb_int_PR t x : Forall PR t -> cb_int t = Ok x -> PR x.
  Proof.
    unfold cb_int. intros HF H. destruct (first_tok t) as [a|e] eqn:Ea; cbn [bind] in H; [|discriminate].
    pose proof (first_tok_PR _ _ HF Ea) as Ha. wcrush H. apply PR_set; [exact Ha|reflexivity].
  Qed.

  Lemma cb_float_PR t x : Forall PR t -> cb_float t = Ok x -> PR x.
  Proof.
    unfold cb_float. intros HF H. destruct (first_tok t) as [a|e] eqn:Ea; cbn [bind] in H; [|discriminate].
    pose proof (first_tok_PR _ _ HF Ea) as Ha. wcrush H. apply PR_set; [exact Ha|reflexivity].
  Qed.

  Lemma cb_bool_PR b t x : Forall PR t -> cb_bool b t = Ok x -> PR x.
  Proof.
    unfold cb_bool. intros HF H. destruct (first_tok t) as [a|e] eqn:Ea; cbn [bind] in H; [|discriminate].
    pose proof (first_tok_PR _ _ HF Ea) as Ha. wcrush H. apply PR_set; [exact Ha|reflexivity].
  Qed.

  Lemma cb_hexcolor_PR t x : Forall PR t -> cb_hexcolor t = Ok x -> PR x.
  Proof.
    unfold cb_hexcolor. intros HF H. destruct (first_tok t) as [a|e] eqn:Ea; cbn [bind] in H; [|discriminate].
    pose proof (first_tok_PR _ _ HF Ea) as Ha. wcrush H. apply PR_set; [exact Ha|reflexivity].
  Qed.

  Lemma cb_len_PR n t x : Forall PR t -> cb_len n t = Ok x -> PR x.
  Proof. unfold cb_len. intros HF H. wcrush H. apply PR_seq. exact HF. Qed.

  Lemma cb_start_PR t x : Forall PR t -> cb_start t = Ok x -> PR x.
  Proof.
    unfold cb_start. intros HF H. destruct t as [|a [|b r]]; injection H as <-; try (apply PR_seq; exact HF).
    exact (Forall_inv HF).
  Qed.

  (* ---------------------------------------------------------------- create_position_dict *)
  Lemma flatten_PR vs : forall flat, Forall PR vs -> flatten vs = Ok flat -> Forall PR flat.
  Proof.
    induction vs as [|v vs IH]; intros flat HF H; cbn [flatten] in H.
    - injection H as <-. constructor.
    - destruct (flatten vs) as [rest|e]; cbn [bind] in H; [|discriminate].
      pose proof (Forall_inv HF) as Hv. pose proof (IH rest (Forall_inv_tail HF) eq_refl) as Hr.
      destruct v as [w|t|l|c items]; try discriminate.
      + injection H as <-. constructor; assumption.
      + injection H as <-. apply Forall_app. split; [apply PR_seq; exact Hv|exact Hr].
      + destruct (assoc s_tokens items) as [[| |l|]|] eqn:Ea; try discriminate. injection H as <-.
        apply Forall_app. split; [|exact Hr]. apply PR_seq.
        apply PR_dict in Hv. destruct Hv as [Hk _].
        destruct (kidsF_get _ _ _ Hk Ea) as [Hs|Hp]; [discriminate Hs|exact Hp].
  Qed.

  Lemma mapM_pos_pair_PR flat : forall ps, Forall PR flat -> mapM pos_pair flat = Ok ps -> Forall (pairP SN) ps.
  Proof.
    induction flat as [|x flat IH]; intros ps HF H; cbn [mapM] in H.
    - injection H as <-. constructor.
    - destruct (pos_pair x) as [p|e] eqn:Ep; cbn [bind] in H; [|discriminate].
      destruct (mapM pos_pair flat) as [ps'|e]; cbn [bind] in H; [|discriminate].
      injection H as <-. constructor; [|apply IH; [exact (Forall_inv_tail HF)|reflexivity]].
      destruct x as [|t| |]; try discriminate. injection Ep as <-.
      exists (pk_line t), (pk_col t). split; [reflexivity|]. apply TP_SP. exact (proj1 (Forall_inv HF)).
  Qed.

  Lemma create_position_dict_rec key kn vs pd :
    TP key -> NM key kn -> Forall PR vs ->
    create_position_dict key (Some vs) = Ok pd -> is_rec SN kn pd.
  Proof.
    intros Hk Hn HF H. exists (pk_line key), (pk_col key). split; [apply TPN_SN; assumption|].
    unfold create_position_dict in H. destruct vs as [|v vs]; [left; injection H as <-; reflexivity|].
    destruct (flatten (v :: vs)) as [flat|e] eqn:Ef; cbn [bind] in H; [|discriminate].
    destruct (mapM pos_pair flat) as [ps|e] eqn:Em; cbn [bind] in H; [|discriminate].
    injection H as <-. right. exists ps. split; [reflexivity|].
    eapply mapM_pos_pair_PR; [|exact Em]. eapply flatten_PR; [exact HF|exact Ef].
  Qed.

  Lemma create_position_dict_none key pd :
    create_position_dict key None = Ok pd ->
    pd = VDict DPlain [(s_line, pk_line key); (s_column, pk_col key)].
  Proof. intros H. injection H as <-. reflexivity. Qed.

  Lemma pentries_base L C : pentries SN L C [(s_line, L); (s_column, C)].
  Proof.
    split; [|split; reflexivity].
    constructor; [left; split; reflexivity|]. constructor; [right; left; split; reflexivity|constructor].
  Qed.

  Lemma is_rec_bpos k v : is_rec SN k v -> exists p, v = VDict DPlain p /\ bpos SN k p.
  Proof.
    intros (L & C & Hs & [->|(ps & -> & Hp)]).
    - eexists. split; [reflexivity|]. exists L, C. split; [exact Hs|apply pentries_base].
    - eexists. split; [reflexivity|]. exists L, C. split; [exact Hs|].
      split; [|split; reflexivity].
      constructor; [left; split; reflexivity|]. constructor; [right; left; split; reflexivity|].
      constructor; [|constructor]. right; right; left. split; [reflexivity|]. exists ps. split; [reflexivity|exact Hp].
  Qed.

  Lemma is_rec_dict k v : is_rec SN k v -> exists items, v = VDict DPlain items.
  Proof. intros (L & C & _ & [->|(ps & -> & _)]); eexists; reflexivity. Qed.

  (* ---------------------------------------------------------------- attr *)
  Lemma key_name_lower t kn : key_name t = Ok kn -> lower kn = kn.
  Proof.
    unfold key_name. destruct (tok_str t) as [s|e]; cbn [bind]; [|discriminate].
    intros [= <-]. apply lower_idem.
  Qed.

  Lemma attr_key_PR k0 key : PR k0 -> keyarg k0 -> attr_key k0 = Ok key -> PR (TTok key) /\ KN key.
  Proof.
    intros Hp Hk H. destruct k0 as [v|t|l|c items]; try discriminate.
    - injection H as <-. split; assumption.
    - destruct l as [|[|t| |] l]; try discriminate. cbn [attr_key] in H.
      destruct (key_name t) as [kn|e]; cbn [bind] in H; [|discriminate].
      destruct (_ || _); [|discriminate]. injection H as <-.
      apply PR_seq in Hp. split; [exact (Forall_inv Hp)|exact Hk].
  Qed.

  Lemma attr_vtoks_PR vt0 vts : Forall PR vt0 -> attr_vtoks vt0 = Ok vts -> Forall PR vts.
  Proof.
    unfold attr_vtoks. intros HF H. destruct vt0 as [|a r]; [discriminate|].
    destruct a as [v|t|l|c items]; try (injection H as <-; exact HF).
    destruct r; [|discriminate]. injection H as <-. apply PR_seq. exact (Forall_inv HF).
  Qed.

  Lemma NoDup_base_keys (a b : tv) : NoDup (keys [(s_position, a); (s_tokens, b)]).
  Proof.
    cbn [keys map fst]. constructor; [|constructor; [intros []|constructor]].
    intros [H|[]]. discriminate H.
  Qed.

  (* the dict attr() returns: base entries (__position__, maybe __tokens__) then the value under kn *)
  Lemma attr_dict_PR kn V pd (base : titems) :
    is_rec SN kn pd -> lower kn = kn -> (skip kn = true \/ nodict V = true) ->
    kidsF base -> NoDup (keys base) -> (forall k, In k (keys base) -> reserved k) ->
    assoc s_position base = Some (TVal pd) -> assoc s_type base = None ->
    PR (TDict DPlain (od_set kn (TVal V) base)).
  Proof.
    intros Hrec Hlow HV Hk Hnd Hres Hpos Hty. apply PR_dict. split; [|split].
    - apply kidsF_set; [|exact Hk]. destruct HV as [HV|HV]; [left; exact HV|right; exact HV].
    - intros Ht. destruct (str_dec s_type kn) as [<-|Hne].
      + destruct (is_rec_bpos _ _ Hrec) as (p & -> & Hb). exists p, s_type.
        split; [|split; [exact Hb|left; reflexivity]].
        rewrite get_set_other by discriminate. exact Hpos.
      + exfalso. apply Ht. rewrite get_set_other by exact Hne. exact Hty.
    - intros _. split; [apply NoDup_set; exact Hnd|]. exists kn. split; [exact Hlow|]. split.
      + intros k Hin. rewrite keys_set in Hin. destruct (od_mem kn base).
        * right. apply Hres. exact Hin.
        * apply in_app_or in Hin. destruct Hin as [Hin|[<-|[]]]; [right; apply Hres; exact Hin|left; reflexivity].
      + intros p Hp. destruct (str_dec s_position kn) as [<-|Hne]; [left; reflexivity|right].
        rewrite get_set_other in Hp by exact Hne. rewrite Hpos in Hp. injection Hp as <-.
        exists pd. split; [reflexivity|exact Hrec].
  Qed.

  Lemma mapM_dot_value_nodict l : forall vals, Forall PR l -> mapM tv_dot_value l = Ok vals -> forallb nodict vals = true.
  Proof.
    induction l as [|x l IH]; intros vals HF H; cbn [mapM] in H.
    - injection H as <-. reflexivity.
    - destruct (tv_dot_value x) as [v|e] eqn:Ev; cbn [bind] in H; [|discriminate].
      destruct (mapM tv_dot_value l) as [vs|e]; cbn [bind] in H; [|discriminate].
      injection H as <-. cbn [forallb]. rewrite (tv_dot_value_PR _ _ (Forall_inv HF) Ev).
      apply IH; [exact (Forall_inv_tail HF)|reflexivity].
  Qed.

  Lemma attr_body_PR key kn vts x :
    PR (TTok key) -> NM key kn -> lower kn = kn -> Forall PR vts ->
    attr_body key kn vts = Ok x -> PR x.
  Proof.
    intros Hkey Hn Hlow HF H. unfold attr_body in H.
    destruct (create_position_dict key (Some vts)) as [pd|e] eqn:Ec; cbn [bind] in H; [|discriminate].
    pose proof (create_position_dict_rec key kn vts pd (proj1 Hkey) Hn HF Ec) as Hrec.
    assert (Hbase2 : forall X, PR X ->
              kidsF [(s_position, TVal pd); (s_tokens, X)] /\
              (forall k, In k (keys [(s_position, TVal pd); (s_tokens, X)]) -> reserved k)).
    { intros X HX. split.
      - constructor; [left; reflexivity|]. constructor; [right; exact HX|constructor].
      - cbn [keys map fst In]. unfold reserved. intros k [<-|[<-|[]]]; tauto. }
    destruct vts as [|a [|b rest]]; [discriminate| |].
    - destruct (tok_of a) as [t|e] eqn:Et; cbn [bind] in H; [|discriminate]. injection H as <-.
      pose proof (tok_of_PR _ _ (Forall_inv HF) Et) as Ht.
      assert (HX : PR (TSeq [TTok key; a])).
      { apply PR_seq. constructor; [exact Hkey|exact HF]. }
      destruct (Hbase2 _ HX) as [B1 B2].
      apply (attr_dict_PR kn _ pd [(s_position, TVal pd); (s_tokens, TSeq [TTok key; a])]);
        try assumption; try reflexivity.
      + right. rewrite nodict_clean_top. apply PR_tok_val. exact Ht.
      + apply NoDup_base_keys.
    - destruct (str_eqb_spec kn s_config) as [->|Hnc].
      + destruct rest; [|discriminate].
        destruct (tok_of a) as [ta|e]; cbn [bind] in H; [|discriminate].
        destruct (tok_of b) as [tb|e]; cbn [bind] in H; [|discriminate].
        destruct (pk_val ta) as [| | | |ka| |]; try discriminate. cbn [bind] in H. injection H as <-.
        apply (attr_dict_PR s_config _ pd [(s_position, TVal pd)]); try assumption; try reflexivity.
        * left. reflexivity.
        * constructor; [left; reflexivity|constructor].
        * cbn [keys map fst]. constructor; [intros []|constructor].
        * cbn [keys map fst In]. unfold reserved. intros k [<-|[]]. tauto.
      + destruct (mapM tv_dot_value (a :: b :: rest)) as [vals|e] eqn:Em; cbn [bind] in H; [|discriminate].
        injection H as <-.
        assert (HX : PR (TSeq (TTok key :: a :: b :: rest))).
        { apply PR_seq. constructor; [exact Hkey|exact HF]. }
        destruct (Hbase2 _ HX) as [B1 B2].
        apply (attr_dict_PR kn _ pd [(s_position, TVal pd); (s_tokens, TSeq (TTok key :: a :: b :: rest))]);
          try assumption; try reflexivity.
        * right. cbn [nodict]. eapply mapM_dot_value_nodict; [exact HF|exact Em].
        * apply NoDup_base_keys.
  Qed.

  Definition hd_ok (xs : list tv) : Prop := match xs with x :: _ => keyarg x | [] => True end.

  Lemma cb_attr_single k0 x : cb_attr [k0] = Ok x -> False.
  Proof.
    rewrite cb_attr_stages. destruct (attr_key k0) as [key|e]; cbn [bind]; [|discriminate].
    destruct (key_name key) as [kn|e]; cbn [bind attr_vtoks]; discriminate.
  Qed.

  Lemma cb_attr_PR tokens x : Forall PR tokens -> hd_ok tokens -> cb_attr tokens = Ok x -> PR x.
  Proof.
    rewrite cb_attr_stages. intros HF Hk H. destruct tokens as [|k0 vt0]; [discriminate|].
    destruct (attr_key k0) as [key|e] eqn:Ek; cbn [bind] in H; [|discriminate].
    destruct (attr_key_PR _ _ (Forall_inv HF) Hk Ek) as [Hkey HKN].
    destruct (key_name key) as [kn|e] eqn:En; cbn [bind] in H; [|discriminate].
    destruct (attr_vtoks vt0) as [vts|e] eqn:Ev; cbn [bind] in H; [|discriminate].
    eapply attr_body_PR; [exact Hkey|apply HKN; exact En|eapply key_name_lower; exact En| |exact H].
    eapply attr_vtoks_PR; [exact (Forall_inv_tail HF)|exact Ev].
  Qed.

  Lemma cb_config_PR t x : Forall PR t -> hd_ok t -> cb_config t = Ok x -> PR x.
  Proof.
    unfold cb_config. intros HF Hk H. destruct t as [|k [|a [|b [|c r]]]]; try discriminate.
    destruct (tok_of a) as [ta|e] eqn:Ea; cbn [bind] in H; [|discriminate].
    destruct (tok_of b) as [tb|e] eqn:Eb; cbn [bind] in H; [|discriminate].
    destruct (tok_str ta) as [ks|e]; cbn [bind] in H; [|discriminate].
    inversion HF as [|? ? Pk HF1]; subst. inversion HF1 as [|? ? Pa HF2]; subst. inversion HF2 as [|? ? Pb _]; subst.
    cbn [hd_ok] in Hk. refine (cb_attr_PR _ x _ _ H); [|exact Hk].
    pose proof (tok_of_PR _ _ Pa Ea) as Ha. pose proof (tok_of_PR _ _ Pb Eb) as Hb.
    repeat apply Forall_cons; try apply Forall_nil.
    - exact Pk.
    - apply PR_set; [exact Ha|reflexivity].
    - apply PR_set; [exact Hb|]. rewrite nodict_clean_top. apply PR_tok_val. exact Hb.
  Qed.

  (* ---------------------------------------------------------------- check_composite_tokens and its users *)
  Lemma Forall_removelast {A} (P : A -> Prop) l : Forall P l -> Forall P (removelast l).
  Proof.
    induction 1 as [|x l Hx Hl IH]; [constructor|]. cbn [removelast].
    destruct l; [constructor|]. constructor; assumption.
  Qed.

  Lemma cct_body_PR l : forall l', Forall PR l ->
    mapM (fun t => match t with
                   | TDict _ items => match assoc s_tokens items with Some x => Ok x | None => vfail end
                   | _ => Ok t
                   end) l = Ok l' -> Forall PR l'.
  Proof.
    induction l as [|t l IH]; intros l' HF H; cbn [mapM] in H.
    - injection H as <-. constructor.
    - match type of H with bind ?r _ = _ => destruct r as [y|e] eqn:Ey end; cbn [bind] in H; [|discriminate].
      match type of H with bind ?r _ = _ => destruct r as [ys|e] eqn:Eys end; cbn [bind] in H; [|discriminate].
      injection H as <-. constructor; [|apply IH; [exact (Forall_inv_tail HF)|reflexivity]].
      pose proof (Forall_inv HF) as Ht.
      destruct t as [v|tk|s|c items]; try (injection Ey as <-; exact Ht).
      destruct (assoc s_tokens items) as [z|] eqn:Ea; [|discriminate]. injection Ey as <-.
      apply PR_dict in Ht. destruct Ht as [Hk _].
      destruct (kidsF_get _ _ _ Hk Ea) as [Hs|Hp]; [discriminate Hs|exact Hp].
  Qed.

  Lemma cct_PR name tokens key body :
    Forall PR tokens -> check_composite_tokens name tokens = Ok (key, body) ->
    PR (TTok key) /\ Forall PR body /\ exists rest, tokens = TTok key :: rest.
  Proof.
    unfold check_composite_tokens. intros HF H.
    destruct tokens as [|k [|r rest]]; try discriminate.
    destruct (tok_of k) as [key0|e] eqn:Ek; cbn [bind] in H; [|discriminate].
    destruct (tok_str key0) as [ks|e]; cbn [bind] in H; [|discriminate].
    destruct (last_opt (r :: rest)) as [la|]; cbn [bind] in H; [|discriminate].
    destruct (tok_of la) as [lastt|e]; cbn [bind] in H; [|discriminate].
    destruct (tok_str lastt) as [ls|e]; cbn [bind] in H; [|discriminate].
    destruct (_ && _); [|discriminate].
    match type of H with bind ?r _ = _ => destruct r as [bt|e] eqn:Eb end; cbn [bind] in H; [|discriminate].
    injection H as <- <-.
    pose proof (tok_of_PR _ _ (Forall_inv HF) Ek) as Hkey.
    split; [exact Hkey|]. split.
    - eapply cct_body_PR; [|exact Eb]. apply Forall_removelast. exact (Forall_inv_tail HF).
    - destruct k; try discriminate. injection Ek as ->. eexists. reflexivity.
  Qed.

  Lemma cb_projection_PR t x : Forall PR t -> hd_ok t -> cb_projection t = Ok x -> PR x.
  Proof.
    unfold cb_projection. intros HF Hk H.
    destruct (check_composite_tokens _ t) as [[k0 body]|e] eqn:Ec; cbn [bind] in H; [|discriminate].
    destruct (cct_PR _ _ _ _ HF Ec) as (_ & Hb & _).
    match type of H with bind ?r _ = _ => destruct r as [strs|e] eqn:Es end; cbn [bind] in H; [|discriminate].
    assert (Hs : forallb nodict strs = true).
    { clear H Ec. revert strs Es. induction body as [|b body IH]; intros strs Es; cbn [mapM] in Es.
      - injection Es as <-. reflexivity.
      - destruct (tv_dot_value b) as [v|e] eqn:Ev; cbn [bind] in Es; [|discriminate].
        match type of Es with bind ?r _ = _ => destruct r as [ss|e] eqn:Ess end; cbn [bind] in Es; [|discriminate].
        injection Es as <-. cbn [forallb]. rewrite nodict_clean_string.
        rewrite (tv_dot_value_PR _ _ (Forall_inv Hb) Ev). apply IH; [exact (Forall_inv_tail Hb)|reflexivity]. }
    destruct t as [|k [|v1 r]]; try discriminate.
    destruct (tok_of v1) as [vt|e] eqn:Ev; cbn [bind] in H; [|discriminate].
    cbn [hd_ok] in Hk. refine (cb_attr_PR _ x _ _ H); [|exact Hk].
    constructor; [exact (Forall_inv HF)|]. constructor; [|constructor].
    apply PR_set; [|exact Hs]. eapply tok_of_PR; [|exact Ev]. exact (Forall_inv (Forall_inv_tail HF)).
  Qed.

  Lemma seq_item_value_nodict x i v : PR x -> seq_item_value x i = Ok v -> nodict v = true.
  Proof.
    intros Hp H. destruct x as [|t|l|]; try discriminate. cbn [seq_item_value] in H.
    unfold nth_tv in H. destruct (nth_error l i) as [e|] eqn:En; cbn [bind] in H; [|discriminate].
    apply PR_seq in Hp. rewrite Forall_forall in Hp.
    eapply tv_dot_value_PR; [|exact H]. apply Hp. eapply nth_error_In. exact En.
  Qed.

  Lemma process_pair_lists_PR name t x : Forall PR t -> hd_ok t -> process_pair_lists name t = Ok x -> PR x.
  Proof.
    unfold process_pair_lists. intros HF Hk H.
    destruct (check_composite_tokens _ t) as [[k0 body]|e] eqn:Ec; cbn [bind] in H; [|discriminate].
    destruct (cct_PR _ _ _ _ HF Ec) as (_ & Hb & _).
    match type of H with bind ?r _ = _ => destruct r as [pairs|e] eqn:Es end; cbn [bind] in H; [|discriminate].
    assert (Hs : forallb nodict pairs = true).
    { clear H Ec. revert pairs Es. induction body as [|b body IH]; intros pairs Es; cbn [mapM] in Es.
      - injection Es as <-. reflexivity.
      - destruct (seq_item_value b 0) as [va|e] eqn:Ea; cbn [bind] in Es; [|discriminate].
        destruct (seq_item_value b 1) as [vb|e] eqn:Eb; cbn [bind] in Es; [|discriminate].
        match type of Es with bind ?r _ = _ => destruct r as [ss|e] eqn:Ess end; cbn [bind] in Es; [|discriminate].
        injection Es as <-. cbn [forallb nodict].
        rewrite (seq_item_value_nodict _ _ _ (Forall_inv Hb) Ea), (seq_item_value_nodict _ _ _ (Forall_inv Hb) Eb).
        cbn [andb]. apply IH; [exact (Forall_inv_tail Hb)|reflexivity]. }
    destruct t as [|k [|v1 r]]; try discriminate.
    destruct v1 as [v|tk|[|[v|vt|l2|c2 i2] l]|c items]; try discriminate.
    cbn [hd_ok] in Hk. refine (cb_attr_PR _ x _ _ H); [|exact Hk].
    constructor; [exact (Forall_inv HF)|]. constructor; [|constructor].
    apply PR_set; [|exact Hs].
    pose proof (Forall_inv (Forall_inv_tail HF)) as Hv1. apply PR_seq in Hv1. exact (Forall_inv Hv1).
  Qed.

  (* ---------------------------------------------------------------- key-value blocks *)
  Lemma pvp_fold_PR body : forall acc d, Forall PR body -> kidsF acc ->
    fold_left pvp_step body (Ok acc) = Ok d -> kidsF d.
  Proof.
    induction body as [|t body IH]; intros acc d HF Hacc H; cbn [fold_left] in H.
    - injection H as <-. exact Hacc.
    - destruct (pvp_step (Ok acc) t) as [acc'|e] eqn:Es; [|rewrite pvp_fold_err in H; discriminate].
      eapply IH; [exact (Forall_inv_tail HF)| |exact H].
      unfold pvp_step in Es. cbn [bind] in Es.
      destruct (seq_item_value t 0) as [kv|e]; cbn [bind] in Es; [|discriminate].
      destruct (seq_item_value t 1) as [vv|e] eqn:Ev; cbn [bind] in Es; [|discriminate].
      destruct (value_as_str _) as [ks|e]; cbn [bind] in Es; [|discriminate].
      injection Es as <-. apply kidsF_ci_set; [|exact Hacc].
      right. cbn [PR]. rewrite nodict_clean_top. eapply seq_item_value_nodict; [exact (Forall_inv HF)|exact Ev].
  Qed.

  Lemma process_value_pairs_PR t ty x :
    Forall PR t -> hd_ok t -> process_value_pairs true t ty = Ok x -> PR x.
  Proof.
    rewrite process_value_pairs_stages. intros HF Hk H.
    destruct (check_composite_tokens ty t) as [[key body]|e] eqn:Ec; cbn [bind fst snd] in H; [|discriminate].
    destruct (cct_PR _ _ _ _ HF Ec) as (Hkey & Hb & (rest & ->)). cbn [hd_ok keyarg] in Hk.
    destruct (key_name key) as [kn|e] eqn:En; cbn [bind] in H; [|discriminate].
    destruct (fold_left pvp_step body (Ok [])) as [d|e] eqn:Ef; cbn [bind] in H; [|discriminate].
    pose proof (pvp_fold_PR body [] d Hb (Forall_nil _) Ef) as Hd.
    unfold pvp_pos in H.
    destruct (create_position_dict key (Some body)) as [pd|e] eqn:Ep; cbn [bind] in H; [|discriminate].
    injection H as <-.
    pose proof (create_position_dict_rec key kn body pd (proj1 Hkey) (Hk kn En) Hb Ep) as Hrec.
    destruct (is_rec_bpos _ _ Hrec) as (p & -> & Hbp).
    unfold ci_set. rewrite lower_type, lower_position.
    apply PR_dict. split; [|split].
    - apply kidsF_set; [right; reflexivity|]. apply kidsF_set; [left; reflexivity|exact Hd].
    - intros _. exists p, kn. split; [|split; [exact Hbp|right; apply get_set_same]].
      rewrite get_set_other by discriminate. apply get_set_same.
    - intros Hn. rewrite get_set_same in Hn. discriminate Hn.
  Qed.

  (* ---------------------------------------------------------------- composite: the fold over attribute dicts *)
  Lemma tv_list_append_PR cur e r : PR cur -> PR e -> tv_list_append cur e = Ok r -> PR r.
  Proof.
    intros Hc He H. destruct cur as [v|t|l|c items]; try discriminate.
    - destruct v as [| | | | |l|]; try discriminate. cbn [PR nodict] in Hc.
      destruct e as [w|t|l2|c2 i2]; injection H as <-.
      + cbn [PR nodict]. apply forallb_app_true; [exact Hc|]. cbn [forallb]. cbn [PR] in He. rewrite He. reflexivity.
      + apply PR_seq. apply Forall_app. split; [|constructor; [exact He|constructor]].
        apply Forall_forall. intros y Hy. apply in_map_iff in Hy. destruct Hy as (w & <- & Hw).
        cbn [PR]. rewrite forallb_forall in Hc. apply Hc. exact Hw.
      + apply PR_seq. apply Forall_app. split; [|constructor; [exact He|constructor]].
        apply Forall_forall. intros y Hy. apply in_map_iff in Hy. destruct Hy as (w & <- & Hw).
        cbn [PR]. rewrite forallb_forall in Hc. apply Hc. exact Hw.
      + apply PR_seq. apply Forall_app. split; [|constructor; [exact He|constructor]].
        apply Forall_forall. intros y Hy. apply in_map_iff in Hy. destruct Hy as (w & <- & Hw).
        cbn [PR]. rewrite forallb_forall in Hc. apply Hc. exact Hw.
    - injection H as <-. apply PR_seq. apply Forall_app. split; [apply PR_seq; exact Hc|constructor; [exact He|constructor]].
  Qed.

  Definition stI (L C : value) (kn0 : str) (st : cstate) : Prop :=
    kidsF (cs_dict st) /\ assoc s_type (cs_dict st) = Some (TVal (VStr kn0)) /\
    exists p, cs_pos st = Some p /\ pentries SN L C p.

  Lemma pentries_set L C k v p : pentry SN L C k v -> pentries SN L C p -> pentries SN L C (od_set k v p).
  Proof.
    intros Hv (Hf & H1 & H2). split; [|split; apply od_mem_set_keep; assumption].
    apply Forall_od_set; [exact Hv|exact Hf].
  Qed.

  Lemma pentries_get L C k v p : pentries SN L C p -> assoc k p = Some v -> pentry SN L C k v.
  Proof. intros (Hf & _) Ha. exact (assoc_Forall' (pentry SN L C) k v p Hf Ha). Qed.

  (* what a block position dict holds under an ordinary keyword *)
  Definition plain_key (k : str) : Prop := k <> s_line /\ k <> s_column /\ k <> s_values /\ k <> s_config.

  Lemma pentry_plain_list L C k l : plain_key k -> pentry SN L C k (VList l) -> Forall (is_rec SN k) l.
  Proof.
    intros (K1 & K2 & K3 & K4) [H|[H|[H|[H|H]]]]; try (destruct H as [H _]; contradiction).
    destruct H as (_ & [H|(l' & [= <-] & Hl)]); [|exact Hl].
    destruct (is_rec_dict _ _ H) as (items & Hd). discriminate Hd.
  Qed.

  Lemma pentry_plain_dict L C k c x : plain_key k -> pentry SN L C k (VDict c x) -> is_rec SN k (VDict c x).
  Proof.
    intros (K1 & K2 & K3 & K4) [H|[H|[H|[H|H]]]]; try (destruct H as [H _]; contradiction).
    destruct H as (_ & [H|(l' & Hd & _)]); [exact H|discriminate Hd].
  Qed.

  Lemma pentry_config_dict L C c x :
    pentry SN L C s_config (VDict c x) -> Forall (fun kv => is_rec SN s_config (snd kv)) x.
  Proof.
    intros [H|[H|[H|[H|H]]]]; try (destruct H as [H _]; first [discriminate H|contradiction H; reflexivity]).
    destruct H as (_ & c' & x' & [= <- <-] & Hx). exact Hx.
  Qed.

  Lemma plain_points : plain_key s_points.
  Proof. repeat split; discriminate. Qed.

  Lemma singleton_not_type k : mem_str k SINGLETON_COMPOSITE_NAMES = true -> s_type <> lower k.
  Proof.
    intros H. apply mem_str_In in H. unfold SINGLETON_COMPOSITE_NAMES in H. cbn [In] in H.
    repeat (destruct H as [<-|H]; [vm_compute; discriminate|]). contradiction.
  Qed.

  Lemma ends_s_not_type (X : str) : s_type <> X ++ [115].
  Proof.
    intros Heq. apply (f_equal (@rev N)) in Heq. rewrite rev_app_distr in Heq. cbn [rev app] in Heq.
    vm_compute in Heq. discriminate Heq.
  Qed.

  Lemma plural_not_type k : s_type <> lower (plural k).
  Proof.
    assert (H : plural k = k ++ Str "es" \/ plural k = k ++ Str "s").
    { unfold plural. destruct (last_opt k) as [c|]; [|right; reflexivity].
      destruct c as [|p]; [right; reflexivity|].
      repeat (first [left; reflexivity | right; reflexivity | destruct p as [p|p|]]). }
    destruct H as [-> | ->]; rewrite lower_app.
    - change (lower (Str "es")) with ([101] ++ [115]). rewrite app_assoc. apply ends_s_not_type.
    - change (lower (Str "s")) with [115]. apply ends_s_not_type.
  Qed.

  Lemma repeated_facts kn : mem_str kn REPEATED_KEYS = true ->
    s_type <> lower kn /\ kn <> s_line /\ kn <> s_column /\ kn <> s_values.
  Proof.
    intros H. apply mem_str_In in H. unfold REPEATED_KEYS in H. cbn [In] in H.
    repeat (destruct H as [<-|H]; [vm_compute; repeat split; discriminate|]). contradiction.
  Qed.

  Lemma ci_get_PR k d x : kidsF d -> ci_get k d = Some x -> skip (lower k) = true \/ PR x.
  Proof. intros Hd H. unfold ci_get in H. eapply kidsF_get; eassumption. Qed.

  Lemma append_under_stI k (d : titems) v r :
    kidsF d -> PR v ->
    tv_list_append (match ci_get k d with Some x => x | None => TSeq [] end) v = Ok r ->
    kidsF (ci_set k r d).
  Proof.
    intros Hd Hv H. apply kidsF_ci_set; [|exact Hd].
    destruct (ci_get k d) as [x|] eqn:Eg.
    - destruct (ci_get_PR _ _ _ Hd Eg) as [Hs|Hx]; [left; exact Hs|right].
      eapply tv_list_append_PR; [exact Hx|exact Hv|exact H].
    - right. eapply tv_list_append_PR; [|exact Hv|exact H]. apply PR_seq. constructor.
  Qed.

  Lemma ci_set_type_keep k v (d : titems) :
    s_type <> lower k -> assoc s_type (ci_set k v d) = assoc s_type d.
  Proof. intros H. unfold ci_set. apply get_set_other. exact H. Qed.

  Lemma ci_typed_stI L C kn0 st d ty s :
    stI L C kn0 st -> PR d -> ci_typed st d ty = Ok s -> stI L C kn0 s.
  Proof.
    intros (Hd & Hty & Hp) Hpd H. unfold ci_typed in H.
    destruct ty as [[| | | |k| |]| | |]; try discriminate. cbn [bind] in H.
    destruct (mem_str k SINGLETON_COMPOSITE_NAMES) eqn:Es.
    - injection H as <-. split; [|split]; cbn [cs_dict cs_pos].
      + apply kidsF_ci_set; [right; exact Hpd|exact Hd].
      + rewrite ci_set_type_keep; [exact Hty|apply singleton_not_type; exact Es].
      + exact Hp.
    - cbv zeta in H. destruct (tv_list_append _ d) as [c1|e] eqn:A1; cbn [bind] in H; [|discriminate].
      injection H as <-. split; [|split]; cbn [cs_dict cs_pos].
      + eapply append_under_stI; eassumption.
      + rewrite ci_set_type_keep; [exact Hty|apply plural_not_type].
      + exact Hp.
  Qed.

  Lemma process_config_stI L C kn0 st a pos s :
    stI L C kn0 st -> is_rec SN s_config pos ->
    process_config st a pos = Ok s -> stI L C kn0 s.
  Proof.
    intros (Hd & Hty & (p & Ep & Hp)) Hrec H. unfold process_config in H.
    destruct (assoc s_config a) as [[[| | | | | |c cfg]| | |]|]; try discriminate.
    rewrite Ep in H.
    destruct cfg as [|[sub sv] [|? ?]]; try discriminate. cbn [bind] in H. injection H as <-.
    split; [|split]; cbn [cs_dict cs_pos].
    - apply kidsF_ci_set; [left; rewrite lower_config; reflexivity|exact Hd].
    - rewrite ci_set_type_keep; [exact Hty|rewrite lower_config; discriminate].
    - eexists. split; [reflexivity|]. apply pentries_set; [|exact Hp].
      right; right; right; right. split; [reflexivity|]. eexists _, _. split; [reflexivity|].
      apply Forall_od_set; [exact Hrec|].
      destruct (assoc s_config p) as [[| | | | | |c' x]|] eqn:Ea; try constructor.
      apply (pentry_config_dict L C c' x). eapply pentries_get; eassumption.
  Qed.

  Lemma points_new_PR d nv r : kidsF d -> nodict nv = true -> points_new d nv = Ok r ->
    kidsF r /\ assoc s_type r = assoc s_type d.
  Proof.
    unfold points_new. intros Hd Hn H.
    assert (Ht : forall v, assoc s_type (ci_set s_points v d) = assoc s_type d).
    { intros v. apply ci_set_type_keep. rewrite lower_points. discriminate. }
    destruct (ci_get s_points d) as [[ex| | |]|] eqn:Eg; try discriminate.
    - destruct (calculate_depth ex) as [dep|e]; cbn [bind] in H; [|discriminate].
      destruct (ci_get_PR _ _ _ Hd Eg) as [Hs|Hx]; [rewrite lower_points in Hs; discriminate Hs|].
      cbn [PR] in Hx.
      destruct (if (dep =? 2)%Z then VList [ex] else ex) as [| | | | |l|] eqn:Eb; try discriminate.
      injection H as <-. split; [|apply Ht]. apply kidsF_ci_set; [|exact Hd]. right. cbn [PR nodict].
      apply forallb_app_true; [|cbn [forallb]; rewrite Hn; reflexivity].
      destruct (dep =? 2)%Z.
      + injection Eb as <-. cbn [forallb]. rewrite Hx. reflexivity.
      + subst ex. exact Hx.
    - injection H as <-. split; [|apply Ht]. apply kidsF_ci_set; [right; exact Hn|exact Hd].
  Qed.

  Lemma process_points_stI L C kn0 st a pos s :
    stI L C kn0 st -> is_rec SN s_points pos ->
    (forall nv, assoc s_points a = Some (TVal nv) -> nodict nv = true) ->
    process_points st a pos = Ok s -> stI L C kn0 s.
  Proof.
    intros (Hd & Hty & (p & Ep & Hp)) Hrec Hnv H. unfold process_points in H.
    destruct (assoc s_points a) as [[newv| | |]|]; try discriminate.
    fold (points_new (cs_dict st) newv) in H.
    destruct (points_new (cs_dict st) newv) as [d'|e] eqn:En; cbn [bind] in H; [|discriminate].
    injection H as <-. destruct (points_new_PR _ _ _ Hd (Hnv newv eq_refl) En) as [Hd' Ht'].
    split; [exact Hd'|]. split; [cbn [cs_dict]; rewrite Ht'; exact Hty|]. cbn [cs_pos]. rewrite Ep.
    destruct (assoc s_points p) as [ex|] eqn:Ea.
    - pose proof (pentries_get _ _ _ _ _ Hp Ea) as Hex.
      destruct ex as [| | | | |l|c x]; try (eexists; split; [reflexivity|exact Hp]).
      + eexists. split; [reflexivity|]. apply pentries_set; [|exact Hp].
        right; right; right; left. split; [discriminate|]. right. eexists. split; [reflexivity|].
        apply Forall_app. split; [|constructor; [exact Hrec|constructor]].
        apply (pentry_plain_list L C); [exact plain_points|exact Hex].
      + eexists. split; [reflexivity|]. apply pentries_set; [|exact Hp].
        right; right; right; left. split; [discriminate|]. right. eexists. split; [reflexivity|].
        constructor; [|constructor; [exact Hrec|constructor]].
        apply (pentry_plain_dict L C); [exact plain_points|exact Hex].
    - eexists. split; [reflexivity|]. apply pentries_set; [|exact Hp].
      right; right; right; left. split; [discriminate|]. left. exact Hrec.
  Qed.

  Lemma ci_untyped_stI L C kn0 ic st pos cm i2 s :
    stI L C kn0 st ->
    (forall kn v, i2 = [(kn, v)] ->
       is_rec SN kn pos /\ lower kn = kn /\ s_type <> kn /\ (skip kn = true \/ PR v)) ->
    ci_untyped ic st pos cm i2 = Ok s -> stI L C kn0 s.
  Proof.
    intros HI Hi2 H. unfold ci_untyped in H.
    destruct i2 as [|[kn v] [|? ?]]; try discriminate.
    destruct (Hi2 kn v eq_refl) as (Hrec & Hlow & Hnt & Hv).
    destruct (str_eqb_spec kn s_config) as [->|Hnc].
    { eapply process_config_stI; eassumption. }
    destruct (str_eqb_spec kn s_points) as [->|Hnp].
    { eapply process_points_stI; [exact HI|exact Hrec| |exact H].
      intros nv Ha. cbn [assoc] in Ha. rewrite str_eqb_refl in Ha. injection Ha as ->.
      destruct Hv as [Hv|Hv]; [discriminate Hv|exact Hv]. }
    destruct HI as (Hd & Hty & (p & Ep & Hp)).
    destruct (mem_str kn REPEATED_KEYS) eqn:Er.
    - cbv zeta in H. destruct (tv_list_append _ v) as [c1|e] eqn:A1; cbn [bind] in H; [|discriminate].
      injection H as <-. destruct (repeated_facts kn Er) as (R0 & R1 & R2 & R3).
      split; [|split]; cbn [cs_dict cs_pos].
      + destruct Hv as [Hv|Hv].
        * apply kidsF_ci_set; [left; rewrite Hlow; exact Hv|exact Hd].
        * eapply append_under_stI; eassumption.
      + rewrite ci_set_type_keep; [exact Hty|exact R0].
      + rewrite Ep. eexists. split; [reflexivity|]. apply pentries_set; [|exact Hp].
        right; right; right; left. split; [exact Hnc|]. right. eexists. split; [reflexivity|].
        apply Forall_app. split; [|constructor; [exact Hrec|constructor]].
        destruct (assoc kn p) as [[| | | | |l|]|] eqn:Ea; try constructor.
        apply (pentry_plain_list L C); [repeat split; assumption|]. eapply pentries_get; eassumption.
    - cbv zeta in H. injection H as <-. split; [|split]; cbn [cs_dict cs_pos].
      + apply kidsF_ci_set; [|exact Hd]. rewrite Hlow. exact Hv.
      + rewrite ci_set_type_keep; [exact Hty|rewrite Hlow; exact Hnt].
      + rewrite Ep. eexists. split; [reflexivity|]. apply pentries_set; [|exact Hp].
        right; right; right; left. split; [exact Hnc|]. left. exact Hrec.
  Qed.

  Lemma NoDup_items1 (items : titems) : NoDup (keys items) -> NoDup (keys (items1_of items)).
  Proof. intros H. unfold items1_of. apply NoDup_del. apply NoDup_del. exact H. Qed.

  (* the single entry left after popping the bookkeeping keys is the attribute itself *)
  Lemma items2_single (items : titems) kn v :
    NoDup (keys items) -> items2_of items = [(kn, v)] -> In (kn, v) items /\ ~ reserved kn.
  Proof.
    intros Hnd H2.
    assert (Hin2 : In (kn, v) (items2_of items)) by (rewrite H2; left; reflexivity).
    assert (Hin1 : In (kn, v) (items1_of items)) by (eapply In_od_del; exact Hin2).
    assert (Hin0' : In (kn, v) (od_del s_position items)) by (eapply In_od_del; exact Hin1).
    assert (Hin0 : In (kn, v) items) by (eapply In_od_del; exact Hin0').
    split; [exact Hin0|]. intros [ -> | [ -> | -> ] ].
    - apply (In_assoc_not_None _ _ _ Hin0'). apply get_del_same. exact Hnd.
    - apply (In_assoc_not_None _ _ _ Hin1). unfold items1_of. apply get_del_same. apply NoDup_del. exact Hnd.
    - apply (In_assoc_not_None _ _ _ Hin2). unfold items2_of. apply get_del_same. apply NoDup_items1. exact Hnd.
  Qed.

  Lemma composite_item_stI L C kn0 ic st d s :
    stI L C kn0 st -> PR d -> composite_item ic st d = Ok s -> stI L C kn0 s.
  Proof.
    intros HI Hd H. rewrite composite_item_stages in H.
    destruct d as [| | |c items]; try discriminate.
    destruct (assoc s_type items) as [ty|] eqn:Et; [eapply ci_typed_stI; eassumption|].
    destruct (assoc s_position items) as [[p| | |]|] eqn:Ep; try discriminate. cbn [bind] in H.
    apply PR_dict in Hd. destruct Hd as (Hk & _ & Ha).
    destruct (Ha Et) as (Hnd & kn1 & Hlow & Hkeys & Hpos).
    eapply ci_untyped_stI; [exact HI| |exact H].
    intros kn v H2. destruct (items2_single items kn v Hnd H2) as [Hin Hnr].
    assert (Hkn : kn = kn1).
    { destruct (Hkeys kn (In_keys _ _ _ Hin)) as [Hk1|Hr]; [exact Hk1|contradiction]. }
    subst kn1.
    destruct (Hpos _ Ep) as [ -> | (pd & [= <-] & Hrec)]; [exfalso; apply Hnr; left; reflexivity|].
    split; [exact Hrec|]. split; [exact Hlow|]. split.
    - intros <-. apply (In_assoc_not_None _ _ _ Hin). exact Et.
    - eapply kidsF_In; eassumption.
  Qed.

  Lemma comp_fold_stI L C kn0 ic l : forall st s,
    Forall PR l -> stI L C kn0 st -> comp_fold ic l (Ok st) = Ok s -> stI L C kn0 s.
  Proof.
    induction l as [|d l IH]; intros st s HF HI H; cbn [comp_fold fold_left] in H.
    - injection H as <-. exact HI.
    - unfold comp_step at 2 in H. cbn [bind] in H.
      destruct (composite_item ic st d) as [st1|e] eqn:E1.
      + eapply IH; [exact (Forall_inv_tail HF)| |exact H].
        eapply composite_item_stI; [exact HI|exact (Forall_inv HF)|exact E1].
      + fold (comp_fold ic l (Err e)) in H. rewrite comp_fold_err in H. discriminate.
  Qed.

  Lemma comp_finish_PR L C kn0 ic st x :
    SN L C kn0 -> stI L C kn0 st -> hk (cs_dict st) = Some s_type -> comp_finish ic st = Ok x -> PR x.
  Proof.
    unfold comp_finish. cbv zeta. intros Hs (Hd & Hty & (p & Ep & Hp)) Hk H.
    destruct (cs_dict st) as [|[k1 v1] r1]; [discriminate|]. cbn [hk] in Hk. injection Hk as ->.
    injection H as <-. rewrite Ep.
    inversion Hd as [|? ? Hv1 Hr1]; subst.
    cbn [assoc] in Hty. rewrite str_eqb_refl in Hty. injection Hty as ->.
    apply PR_dict. split; [|split].
    - constructor; [exact Hv1|]. cbn [app]. constructor; [left; reflexivity|].
      destruct ic; [constructor; [left; reflexivity|exact Hr1]|exact Hr1].
    - intros _. exists p, kn0. split; [reflexivity|]. split; [exists L, C; split; assumption|].
      right. reflexivity.
    - intros Hn. cbn [assoc] in Hn. rewrite str_eqb_refl in Hn. discriminate Hn.
  Qed.

  Definition comp_key_ok (t : list tv) : Prop :=
    match t with [_] => True | x :: _ => keyarg x | [] => True end.

  Lemma cb_composite_PR ic t x : Forall PR t -> comp_key_ok t -> cb_composite true ic t = Ok x -> PR x.
  Proof.
    rewrite cb_composite_stages. intros HF Hk H.
    destruct t as [|a [|b r]]; [discriminate| |].
    - injection H as <-. exact (Forall_inv HF).
    - destruct a as [| |[|[|key| |] l]|]; try discriminate. cbn [comp_key_ok keyarg] in Hk.
      unfold comp_main in H.
      destruct (key_name key) as [kn|e] eqn:En; cbn [bind] in H; [|discriminate].
      cbn [comp_pd create_position_dict bind] in H.
      destruct (comp_fold ic _ _) as [st|e] eqn:F1; cbn [bind] in H; [|discriminate].
      pose proof (Forall_inv HF) as Ha. apply PR_seq in Ha. pose proof (Forall_inv Ha) as [Hkey _].
      assert (Hs : SN (pk_line key) (pk_col key) kn) by (apply TPN_SN; [exact Hkey|apply Hk; exact En]).
      eapply (comp_finish_PR (pk_line key) (pk_col key) kn); [exact Hs| | |exact H].
      + eapply comp_fold_stI; [| |exact F1].
        * pose proof (Forall_inv (Forall_inv_tail HF)) as Hb. unfold attrs_of.
          destruct b; try (constructor; [exact Hb|constructor]). apply PR_seq. exact Hb.
        * split; [|split]; cbn [comp_init cs_dict cs_pos pos_get].
          -- unfold ci_set. rewrite lower_type. constructor; [right; reflexivity|constructor].
          -- unfold ci_set. rewrite lower_type. reflexivity.
          -- eexists. split; [reflexivity|]. apply pentries_base.
      + eapply comp_fold_hk; [exact F1|apply comp_init_hk].
  Qed.

  (* ---------------------------------------------------------------- every callback *)
  Definition key_bearing (d : N) : bool :=
    (d =? CB_composite) || (d =? CB_attr) || (d =? CB_projection) || (d =? CB_config)
    || (d =? CB_points) || (d =? CB_pattern) || (d =? CB_values) || (d =? CB_metadata)
    || (d =? CB_validation) || (d =? CB_connectionoptions).

  Lemma hd_ok_comp t : hd_ok t -> comp_key_ok t.
  Proof. destruct t as [|a [|b r]]; cbn; auto. Qed.

  Lemma callback_PR ic d t x :
    Forall PR t -> (key_bearing d = true -> length t = 1%nat \/ hd_ok t) ->
    callback true ic d t = Ok x -> PR x.
  Proof.
    intros HF HK H. unfold callback in H.
    repeat match type of H with
           | (if ?c then _ else _) = _ => destruct c eqn:?
           end.
    all: try discriminate.
    all: try (assert (HK' : length t = 1%nat \/ hd_ok t);
              [apply HK; unfold key_bearing;
               repeat match goal with E : (_ =? _) = _ |- _ => rewrite E; clear E end; reflexivity|]).
    all: first
      [ eapply cb_start_PR; eassumption
      | (eapply cb_composite_PR; [exact HF| |exact H];
         destruct HK' as [HK'|HK']; [destruct t as [|? [|? ?]]; try discriminate HK'; exact I|apply hd_ok_comp; exact HK'])
      | (destruct HK' as [HK'|HK'];
         [destruct t as [|? [|? ?]]; try discriminate HK';
          first [discriminate H|exfalso; eapply cb_attr_single; exact H]|];
         first [ eapply cb_attr_PR; eassumption
               | eapply cb_projection_PR; eassumption
               | eapply cb_config_PR; eassumption
               | eapply process_pair_lists_PR; eassumption
               | eapply process_value_pairs_PR; eassumption ])
      | eapply cb_comparison_PR; eassumption
      | eapply cb_binary_PR; eassumption
      | eapply cb_first_PR; eassumption
      | eapply cb_prefix_PR; eassumption
      | eapply cb_expression_PR; eassumption
      | eapply cb_func_call_PR; eassumption
      | eapply cb_func_params_PR; eassumption
      | eapply cb_attr_bind_PR; eassumption
      | eapply cb_len_PR; eassumption
      | eapply cb_bool_PR; eassumption
      | eapply cb_int_PR; eassumption
      | eapply cb_float_PR; eassumption
      | eapply cb_hexcolor_PR; eassumption
      | eapply cb_list_PR; eassumption
      | (injection H as <-; apply PR_seq; exact HF) ].
  Qed.

  (* ================================================================ trees *)
  (* the first child of a key-bearing node yields the key token untouched *)
  Definition keychild (c : gtree) : Prop :=
    match c with
    | GTok t => KN t
    | GVal x => keyarg x
    | GNode d1 cs1 _ =>
        (forall t, KN t) \/ (d1 = CB_composite_type /\ exists t rest, cs1 = GTok t :: rest /\ KN t)
    end.

  Definition hd_child_ok (cs : list gtree) : Prop :=
    match cs with c :: _ => keychild c | [] => True end.

  Fixpoint GR (g : gtree) : Prop :=
    match g with
    | GTok t => PR (TTok t)
    | GVal x => PR x
    | GNode d cs m =>
        (fix go (l : list gtree) : Prop := match l with [] => True | c :: l' => GR c /\ go l' end) cs
        /\ (key_bearing d = true -> length cs = 1%nat \/ hd_child_ok cs)
    end.

  Lemma GR_node d cs m :
    GR (GNode d cs m) <-> Forall GR cs /\ (key_bearing d = true -> length cs = 1%nat \/ hd_child_ok cs).
  Proof.
    cbn [GR].
    assert (H : (fix go (l : list gtree) : Prop := match l with [] => True | c :: l' => GR c /\ go l' end) cs
                <-> Forall GR cs).
    { induction cs as [|c l IH]; [split; [constructor|exact (fun _ => I)]|].
      rewrite IH. split; [intros [H1 H2]; constructor; assumption|intros H; inversion H; subst; tauto]. }
    rewrite H. tauto.
  Qed.

  Lemma keyarg_all x : (forall t, KN t) -> keyarg x.
  Proof. intros H. destruct x as [|t|[|[|t| |] l]|]; cbn [keyarg]; auto. Qed.

  Lemma keychild_all c : (forall t, KN t) -> keychild c.
  Proof. intros H. destruct c as [t|d cs m|x]; cbn [keychild]; [apply H|left; exact H|apply keyarg_all; exact H]. Qed.

  Lemma callback_composite_type ip ic t : callback ip ic CB_composite_type t = Ok (TSeq t).
  Proof. reflexivity. Qed.

  Lemma tr_list_length ip ic cs : forall xs, tr_list ip ic cs = Ok xs -> length xs = length cs.
  Proof.
    induction cs as [|c cs IH]; intros xs H; cbn [tr_list] in H.
    - injection H as <-. reflexivity.
    - destruct (tr_main ip ic c) as [x1|e]; cbn [bind] in H; [|discriminate].
      fold (tr_list ip ic cs) in H.
      destruct (tr_list ip ic cs) as [xs1|e]; cbn [bind] in H; [|discriminate].
      injection H as <-. cbn [length]. f_equal. apply IH. reflexivity.
  Qed.

  Lemma keychild_keyarg ic c x : keychild c -> tr_main true ic c = Ok x -> keyarg x.
  Proof.
    intros Hc H. destruct c as [t|d1 cs1 m1|v].
    - cbn in H. injection H as <-. exact Hc.
    - destruct Hc as [Hall|(-> & t & rest & -> & Ht)]; [apply keyarg_all; exact Hall|].
      rewrite tr_main_node in H. cbn [tr_list] in H. cbn [tr_main bind] in H.
      fold (tr_list true ic rest) in H.
      destruct (tr_list true ic rest) as [xs|e]; cbn [bind] in H; [|discriminate].
      rewrite callback_composite_type in H. injection H as <-. exact Ht.
    - cbn in H. injection H as <-. exact Hc.
  Qed.

  Theorem tr_main_PR ic : forall g x, GR g -> tr_main true ic g = Ok x -> PR x.
  Proof.
    fix IH 1. intros g x HG H. destruct g as [t|d cs m|v].
    - cbn in H. injection H as <-. exact HG.
    - rewrite tr_main_node in H. apply GR_node in HG. destruct HG as [HC HKb].
      destruct (tr_list true ic cs) as [xs|e] eqn:L; cbn [bind] in H; [|discriminate].
      eapply callback_PR; [| |exact H].
      + clear H HKb. revert xs L.
        induction cs as [|c cs IHcs]; intros xs L.
        * cbn in L. injection L as <-. constructor.
        * cbn [tr_list] in L.
          destruct (tr_main true ic c) as [x1|e] eqn:T1; cbn [bind] in L; [|discriminate].
          fold (tr_list true ic cs) in L.
          destruct (tr_list true ic cs) as [xs1|e] eqn:L1; cbn [bind] in L; [|discriminate].
          injection L as <-. constructor.
          -- exact (IH c x1 (Forall_inv HC) T1).
          -- apply IHcs; [exact (Forall_inv_tail HC)|reflexivity].
      + intros Hkb. destruct (HKb Hkb) as [Hlen|Hhd].
        * left. rewrite (tr_list_length _ _ _ _ L). exact Hlen.
        * right. destruct cs as [|c cs]; [cbn in L; injection L as <-; exact I|].
          cbn [tr_list] in L.
          destruct (tr_main true ic c) as [x1|e] eqn:T1; cbn [bind] in L; [|discriminate].
          fold (tr_list true ic cs) in L.
          destruct (tr_list true ic cs) as [xs1|e]; cbn [bind] in L; [|discriminate].
          injection L as <-. cbn [hd_ok]. eapply keychild_keyarg; [exact Hhd|exact T1].
    - cbn in H. injection H as <-. exact HG.
  Qed.

  (* ---------------------------------------------------------------- the comments pass *)
  Lemma PR_set_comments c items v : PR (TDict c items) -> PR (TDict c (od_set s_comments v items)).
  Proof.
    intros H. apply PR_dict in H. destruct H as (Hk & Hd & Ha). apply PR_dict. split; [|split].
    - apply kidsF_set; [left; reflexivity|exact Hk].
    - intros Ht. rewrite get_set_other in Ht by discriminate.
      destruct (Hd Ht) as (p & kown & H1 & H2 & H3). exists p, kown.
      rewrite !get_set_other by discriminate. tauto.
    - intros Ht. rewrite get_set_other in Ht by discriminate.
      destruct (Ha Ht) as (Hnd & kn0 & Hlow & Hkeys & Hpos).
      split; [apply NoDup_set; exact Hnd|]. exists kn0. split; [exact Hlow|]. split.
      + intros k Hin. rewrite keys_set in Hin. destruct (od_mem s_comments items); [apply Hkeys; exact Hin|].
        apply in_app_or in Hin. destruct Hin as [Hin|[<-|[]]]; [apply Hkeys; exact Hin|].
        right. right. right. reflexivity.
      + intros p Hp. rewrite get_set_other in Hp by discriminate. apply Hpos. exact Hp.
  Qed.

  Lemma cc_setk_comments c v items : cc_setk c s_comments v items = od_set s_comments v items.
  Proof. destruct c; cbn [cc_setk]; unfold ci_set; rewrite ?lower_comments; reflexivity. Qed.

  Lemma comments_callback_GR g h : GR g -> comments_callback true g = Ok h -> GR h.
  Proof.
    intros HG H. rewrite comments_callback_stages in H.
    destruct g as [t|d cs m|v]; try (injection H as <-; exact HG).
    destruct (d =? CB_attr).
    { destruct (tr_main true true _) as [r|e] eqn:T1; cbn [bind] in H; [|discriminate].
      pose proof (tr_main_PR true _ _ HG T1) as Hr.
      destruct r as [| | |c items]; try discriminate. injection H as <-. cbn [GR].
      apply PR_set_comments. exact Hr. }
    destruct (d =? CB_projection).
    { destruct (tr_main true true _) as [r|e] eqn:T1; cbn [bind] in H; [|discriminate].
      pose proof (tr_main_PR true _ _ HG T1) as Hr.
      destruct r as [| | |c items]; try discriminate. cbn [cc_projection] in H.
      destruct (has_comments m); injection H as <-; cbn [GR]; [apply PR_set_comments|]; exact Hr. }
    destruct (d =? CB_composite).
    { destruct (tr_main true true _) as [r|e] eqn:T1; cbn [bind] in H; [|discriminate].
      pose proof (tr_main_PR true _ _ HG T1) as Hr.
      destruct r as [| | |c items]; try discriminate. cbn [cc_composite] in H.
      destruct (cc_dictlike _).
      - unfold cc_dict in H. cbv zeta in H.
        destruct (cc_cm2 _ _ _) as [cm2|e]; cbn [bind] in H; [|discriminate].
        injection H as <-. cbn [GR]. rewrite cc_setk_comments. apply PR_set_comments. exact Hr.
      - apply cc_nondict_inv in H. subst h. exact Hr. }
    injection H as <-. exact HG.
  Qed.

  Lemma ctr_list_length ip cs : forall xs, ctr_list ip cs = Ok xs -> length xs = length cs.
  Proof.
    induction cs as [|c cs IH]; intros xs H; cbn [ctr_list] in H.
    - injection H as <-. reflexivity.
    - destruct (ctr ip c) as [c1|e]; cbn [bind] in H; [|discriminate].
      destruct (comments_callback ip c1) as [c2|e]; cbn [bind] in H; [|discriminate].
      fold (ctr_list ip cs) in H.
      destruct (ctr_list ip cs) as [xs1|e]; cbn [bind] in H; [|discriminate].
      injection H as <-. cbn [length]. f_equal. apply IH. reflexivity.
  Qed.

  Lemma keychild_step c c1 c2 :
    keychild c -> ctr true c = Ok c1 -> comments_callback true c1 = Ok c2 -> keychild c2.
  Proof.
    intros Hc H1 H2. destruct c as [t|d1 cs1 m1|v].
    - cbn in H1. injection H1 as <-. cbn in H2. injection H2 as <-. exact Hc.
    - destruct Hc as [Hall|(-> & t & rest & -> & Ht)]; [apply keychild_all; exact Hall|].
      rewrite ctr_node in H1. cbn [ctr_list] in H1. cbn [ctr bind comments_callback] in H1.
      fold (ctr_list true rest) in H1.
      destruct (ctr_list true rest) as [xs|e]; cbn [bind] in H1; [|discriminate].
      injection H1 as <-. rewrite comments_callback_stages in H2.
      change (CB_composite_type =? CB_attr) with false in H2.
      change (CB_composite_type =? CB_projection) with false in H2.
      change (CB_composite_type =? CB_composite) with false in H2. cbv iota in H2.
      injection H2 as <-. right. split; [reflexivity|]. exists t, xs. split; [reflexivity|exact Ht].
    - cbn in H1. injection H1 as <-. cbn in H2. injection H2 as <-. exact Hc.
  Qed.

  Theorem ctr_GR : forall g h, GR g -> ctr true g = Ok h -> GR h.
  Proof.
    fix IH 1. intros g h HG H.
    destruct g as [t|d cs m|v]; try (cbn in H; injection H as <-; exact HG).
    rewrite ctr_node in H. apply GR_node in HG. destruct HG as [HC HKb].
    destruct (ctr_list true cs) as [xs|e] eqn:L; cbn [bind] in H; [|discriminate].
    injection H as <-. apply GR_node. split.
    - clear HKb. revert xs L. induction cs as [|c cs IHcs]; intros xs L.
      + cbn in L. injection L as <-. constructor.
      + cbn [ctr_list] in L.
        destruct (ctr true c) as [c1|e] eqn:T1; cbn [bind] in L; [|discriminate].
        destruct (comments_callback true c1) as [c2|e] eqn:K1; cbn [bind] in L; [|discriminate].
        fold (ctr_list true cs) in L.
        destruct (ctr_list true cs) as [xs1|e] eqn:L1; cbn [bind] in L; [|discriminate].
        injection L as <-. constructor.
        * eapply comments_callback_GR; [|exact K1]. eapply IH; [exact (Forall_inv HC)|exact T1].
        * apply IHcs; [exact (Forall_inv_tail HC)|reflexivity].
    - intros Hkb. destruct (HKb Hkb) as [Hlen|Hhd].
      + left. rewrite (ctr_list_length _ _ _ L). exact Hlen.
      + right. destruct cs as [|c cs]; [cbn in L; injection L as <-; exact I|].
        cbn [ctr_list] in L.
        destruct (ctr true c) as [c1|e] eqn:T1; cbn [bind] in L; [|discriminate].
        destruct (comments_callback true c1) as [c2|e] eqn:K1; cbn [bind] in L; [|discriminate].
        fold (ctr_list true cs) in L.
        destruct (ctr_list true cs) as [xs1|e]; cbn [bind] in L; [|discriminate].
        injection L as <-. cbn [hd_child_ok]. eapply keychild_step; [exact Hhd|exact T1|exact K1].
  Qed.

  Theorem transform_PR ic t x :
    GR (canonize (gtree_of t)) -> transform true ic t = Ok x -> PR x.
  Proof.
    intros HG H. unfold transform in H. destruct ic; [|eapply tr_main_PR; eassumption].
    destruct (ctr true _) as [g1|e] eqn:C1; cbn [bind] in H; [|discriminate].
    destruct (comments_callback true g1) as [g2|e] eqn:K1; cbn [bind] in H; [|discriminate].
    eapply tr_main_PR; [|exact H]. eapply comments_callback_GR; [|exact K1]. eapply ctr_GR; [exact HG|exact C1].
  Qed.

  (* ---------------------------------------------------------------- final Python data *)
  Lemma nodict_positions_ok : forall v, nodict v = true -> positions_ok SN v.
  Proof.
    induction v as [| | | | |l IH|c items IH] using value_ind'; try (intros; exact I); [|discriminate].
    cbn [nodict]. intros H. apply positions_ok_list. rewrite forallb_forall in H. rewrite Forall_forall in *.
    intros y Hy. apply IH; [exact Hy|apply H; exact Hy].
  Qed.

  Theorem PR_positions_ok : forall x, PR x -> positions_ok SN (tvv x).
  Proof.
    induction x as [v|t|l IH|c items IH] using tv_ind'.
    - cbn [PR tvv]. apply nodict_positions_ok.
    - intros _. exact I.
    - intros H. apply PR_seq in H. cbn [tvv]. apply positions_ok_list.
      rewrite Forall_forall in *. intros y Hy. apply in_map_iff in Hy. destruct Hy as (w & <- & Hw).
      apply IH; [exact Hw|apply H; exact Hw].
    - intros H. apply PR_dict in H. destruct H as (Hk & Hd & _). cbn [tvv]. apply positions_ok_dict. split.
      + unfold kidsF in Hk. rewrite Forall_forall in *. intros kv Hkv.
        apply in_map_iff in Hkv. destruct Hkv as (w & <- & Hw). cbn [fst snd].
        destruct (Hk w Hw) as [Hs|Hp]; [left; exact Hs|right; apply IH; assumption].
      + unfold vdict_pos. rewrite !(assoc_map_snd tvv). intros Ht.
        assert (Ht' : assoc s_type items <> None) by (destruct (assoc s_type items); [discriminate|exfalso; apply Ht; reflexivity]).
        destruct (Hd Ht') as (p & kown & H1 & H2 & H3). exists p, kown. rewrite H1. split; [reflexivity|].
        split; [exact H2|]. destruct H3 as [H3|H3]; [left; exact H3|right; rewrite H3; reflexivity].
  Qed.

  (* ---------------------------------------------------------------- trees built by the parser *)
  Definition key_first (cs : list tree) : bool :=
    match cs with
    | Tok _ :: _ => true
    | Node d1 (Tok _ :: _) _ :: _ => d1 =? CB_composite_type
    | _ => false
    end.

  (* every key-bearing node starts with its key token, or with a composite_type
     node that starts with it (or has a single child: composite around a
     key-value block) *)
  Fixpoint TKb (t : tree) : bool :=
    match t with
    | Tok _ => true
    | Node d cs _ =>
        (negb (key_bearing d) || (length cs =? 1)%nat || key_first cs) && forallb TKb cs
    end.

  Lemma GR_gtree_of :
    (forall t, KN t) \/ (forall tk, KN (ptok_of tk)) ->
    forall t, ((forall t, KN t) \/ TKb t = true) ->
    Forall (fun tk => TP (ptok_of tk)) (leaves t) -> GR (gtree_of t).
  Proof.
    intros HKN. fix IH 1. intros t Hg Hl. destruct t as [tk|d cs m].
    - cbn [gtree_of GR PR]. cbn [leaves] in Hl. split; [exact (Forall_inv Hl)|reflexivity].
    - cbn [gtree_of]. apply GR_node. split.
      + assert (Hg' : (forall t, KN t) \/ forallb TKb cs = true).
        { destruct Hg as [Hg|Hg]; [left; exact Hg|right].
          cbn [TKb] in Hg. apply andb_true_iff in Hg. apply Hg. }
        cbn [leaves] in Hl. clear Hg. induction cs as [|c cs IHcs]; [constructor|].
        cbn [flat_map] in Hl. apply Forall_app in Hl. destruct Hl as [Hl1 Hl2].
        cbn [map]. constructor.
        * apply IH; [|exact Hl1]. destruct Hg' as [Hg'|Hg']; [left; exact Hg'|right].
          cbn [forallb] in Hg'. apply andb_true_iff in Hg'. apply Hg'.
        * apply IHcs; [exact Hl2|]. destruct Hg' as [Hg'|Hg']; [left; exact Hg'|right].
          cbn [forallb] in Hg'. apply andb_true_iff in Hg'. apply Hg'.
      + intros Hkb. destruct Hg as [Hall|Hg].
        { right. destruct cs as [|c cs]; [exact I|]. cbn [map hd_child_ok]. apply keychild_all. exact Hall. }
        cbn [TKb] in Hg. apply andb_true_iff in Hg. destruct Hg as [Hg _]. rewrite Hkb in Hg. cbn [negb orb] in Hg.
        apply orb_true_iff in Hg. destruct Hg as [Hg|Hg].
        * left. rewrite map_length. apply Nat.eqb_eq. exact Hg.
        * right. destruct cs as [|c cs]; [exact I|]. cbn [map hd_child_ok].
          destruct HKN as [Hall|Hraw]; [apply keychild_all; exact Hall|].
          destruct c as [tk|d1 cs1 m1]; [apply Hraw|].
          cbn [key_first] in Hg. destruct cs1 as [|[tk|? ? ?] cs1]; try discriminate Hg.
          apply N.eqb_eq in Hg. subst d1. cbn [gtree_of map keychild]. right. split; [reflexivity|].
          eexists _, _. split; [reflexivity|apply Hraw].
  Qed.

  Definition synth_tok : ptok := mk_ptok T_SYNTH s_symbolset (VStr s_symbolset) VNone VNone.

  Lemma GR_canonize g :
    (forall d cs m, g = GNode d cs m -> (d =? CB_symbolset) = true -> TP synth_tok /\ KN synth_tok) ->
    GR g -> GR (canonize g).
  Proof.
    intros Hs HG. destruct g as [t|d cs m|v]; try exact HG. cbn [canonize].
    destruct (d =? CB_symbolset) eqn:Ed; [|exact HG].
    destruct (Hs d cs m eq_refl Ed) as [Hs1 Hs2]. apply GR_node in HG. destruct HG as [HC _].
    apply GR_node. split.
    - constructor; [|exact HC]. apply GR_node. split.
      + constructor; [|constructor]. cbn [GR PR]. split; [exact Hs1|reflexivity].
      + intros Hkb. discriminate Hkb.
    - intros _. right. cbn [hd_child_ok keychild]. right. split; [reflexivity|].
      eexists _, _. split; [reflexivity|exact Hs2].
  Qed.
End Prov.

(* ================================================================ instances *)
(* the comment pass only writes metas: the tokens of the tree are untouched *)
Lemma assign_children_leaves : forall fuel cd cs,
  flat_map leaves (snd (assign_children fuel cd cs)) = flat_map leaves cs.
Proof.
  induction fuel as [|f IH]; intros cd cs; cbn [assign_children]; [reflexivity|].
  destruct cs as [|[t|d kids m] cs']; [reflexivity| |].
  - pose proof (IH cd cs') as H. destruct (assign_children f cd cs') as [cd' r]. cbn [snd] in *.
    cbn [flat_map]. rewrite H. reflexivity.
  - destruct (m_line m) as [line0|].
    + match goal with |- context [let '(cd1, m1) := ?X in _] => destruct X as [cd1 m1] end.
      pose proof (IH cd1 kids) as H1. destruct (assign_children f cd1 kids) as [cd2 kids']. cbn [snd] in H1.
      pose proof (IH cd2 cs') as H2. destruct (assign_children f cd2 cs') as [cd3 r]. cbn [snd] in *.
      cbn [flat_map leaves]. rewrite H1, H2. reflexivity.
    + pose proof (IH cd cs') as H. destruct (assign_children f cd cs') as [cd' r]. cbn [snd] in *.
      cbn [flat_map leaves]. rewrite H. reflexivity.
Qed.

Lemma assign_comments_leaves comments t : leaves (assign_comments comments t) = leaves t.
Proof.
  destruct t as [tk|d cs m]; [reflexivity|]. unfold assign_comments. cbn [leaves].
  apply assign_children_leaves.
Qed.

Definition is_symbolset_root (t : tree) : bool :=
  match t with Node d _ _ => d =? CB_symbolset | Tok _ => false end.

Lemma assign_comments_root comments t : is_symbolset_root (assign_comments comments t) = is_symbolset_root t.
Proof. destruct t; reflexivity. Qed.

(* (L, C) is where a token of [toks] named k starts; when [synth] is set, also
   the position (None, None) of the synthetic token "symbolset" that Canonize
   puts in front of a SYMBOLSET file *)
Definition pos_named (toks : list token) (synth : bool) (L C : value) (k : str) : Prop :=
  (exists t0, In t0 toks /\ L = VInt (Z.of_N (tline t0)) /\ C = VInt (Z.of_N (tcol t0)) /\ lower (tval t0) = k)
  \/ (synth = true /\ L = VNone /\ C = VNone /\ k = s_symbolset).

Definition pos_of (toks : list token) (synth : bool) (L C : value) : Prop :=
  (exists t0, In t0 toks /\ L = VInt (Z.of_N (tline t0)) /\ C = VInt (Z.of_N (tcol t0)))
  \/ (synth = true /\ L = VNone /\ C = VNone).

(* goal 1: provenance *)
Definition positions_from (toks : list token) (synth : bool) : value -> Prop :=
  positions_ok (fun L C _ => pos_of toks synth L C).

(* goal 2: the right token *)
Definition positions_named (toks : list token) (synth : bool) : value -> Prop :=
  positions_ok (pos_named toks synth).

Lemma positions_named_from toks synth v : positions_named toks synth v -> positions_from toks synth v.
Proof.
  apply positions_ok_mono. intros L C k [(t0 & H1 & H2 & H3 & _)|(H1 & H2 & H3 & _)].
  - left. exists t0. tauto.
  - right. tauto.
Qed.

Section Inst.
  Variable toks : list token.
  Variable synth : bool.

  Definition TPi (t : ptok) : Prop :=
    (exists t0, In t0 toks /\ pk_line t = VInt (Z.of_N (tline t0)) /\ pk_col t = VInt (Z.of_N (tcol t0))
                /\ pk_orig t = tval t0)
    \/ (synth = true /\ pk_line t = VNone /\ pk_col t = VNone /\ pk_orig t = s_symbolset).

  Definition NMi (t : ptok) (k : str) : Prop := lower (pk_orig t) = k.

  Lemma TPi_set t v : TPi t -> TPi (set_val t v).
  Proof. intros H. exact H. Qed.

  Lemma TPi_named t k : TPi t -> NMi t k -> pos_named toks synth (pk_line t) (pk_col t) k.
  Proof.
    unfold NMi. intros [(t0 & H1 & H2 & H3 & H4)|(H1 & H2 & H3 & H4)] <-.
    - left. exists t0. rewrite H4. tauto.
    - right. rewrite H4. rewrite lower_symbolset. tauto.
  Qed.

  Lemma TPi_SP_named t : TPi t -> SP (pos_named toks synth) (pk_line t) (pk_col t).
  Proof. intros H. exists (lower (pk_orig t)). apply TPi_named; [exact H|reflexivity]. Qed.

  Lemma TPi_of t : TPi t -> pos_of toks synth (pk_line t) (pk_col t).
  Proof.
    intros [(t0 & H1 & H2 & H3 & H4)|(H1 & H2 & H3 & H4)]; [left; exists t0; tauto|right; tauto].
  Qed.

  Lemma TPi_SP_of t : TPi t -> SP (fun L C _ => pos_of toks synth L C) (pk_line t) (pk_col t).
  Proof. intros H. exists []. apply TPi_of. exact H. Qed.

  Lemma TPi_leaf tk : In tk toks -> TPi (ptok_of tk).
  Proof. intros H. left. exists tk. cbn. tauto. Qed.

  Lemma KN_raw tk : KN NMi (ptok_of tk).
  Proof. intros kn H. cbn in H. injection H as <-. reflexivity. Qed.

  Lemma KN_synth : KN NMi synth_tok.
  Proof. intros kn H. cbn in H. injection H as <-. reflexivity. Qed.

  Lemma TPi_synth : synth = true -> TPi synth_tok.
  Proof. intros H. right. cbn. tauto. Qed.
End Inst.

(* ================================================================ loads *)
Lemma parse_tree_of_parse_text ic text po t :
  parse_text the_grammar the_hook ic text = Ok po -> parse_tree ic text = Ok t ->
  leaves t = leaves (po_tree po) /\ is_symbolset_root t = is_symbolset_root (po_tree po).
Proof.
  intros H1 H2. unfold parse_tree in H2. rewrite H1 in H2. cbn [bind] in H2. injection H2 as <-.
  destruct ic; [|split; reflexivity]. split; [apply assign_comments_leaves|apply assign_comments_root].
Qed.

(* the generic statement: any source predicate SN that the tokens of the tree
   satisfy, any naming relation NM that key tokens satisfy *)
Lemma loads_positions_gen (SN : value -> value -> str -> Prop) (NM : ptok -> str -> Prop) ic text v po :
  (forall t, TPi (leaves (po_tree po)) (is_symbolset_root (po_tree po)) t -> SP SN (pk_line t) (pk_col t)) ->
  (forall t k, TPi (leaves (po_tree po)) (is_symbolset_root (po_tree po)) t -> NM t k ->
               SN (pk_line t) (pk_col t) k) ->
  ((forall t, KN NM t) \/ (forall tk, KN NM (ptok_of tk))) ->
  KN NM synth_tok ->
  (forall t, parse_tree ic text = Ok t -> (forall t0, KN NM t0) \/ TKb t = true) ->
  parse_text the_grammar the_hook ic text = Ok po -> loads true ic text = Ok v ->
  positions_ok SN v.
Proof.
  intros HSP HSN HKN Hsyn Hguard Hp H. unfold loads in H.
  destruct (parse_tree ic text) as [t|e] eqn:Et; cbn [bind] in H; [|discriminate].
  destruct (parse_tree_of_parse_text ic text po t Hp Et) as [Hl Hr].
  destruct (transform true ic t) as [x|e] eqn:Ex; cbn [bind] in H; [|discriminate].
  rewrite tv_to_value_tvv in H. injection H as <-.
  set (toks := leaves (po_tree po)) in *. set (synth := is_symbolset_root (po_tree po)) in *.
  apply (PR_positions_ok SN (TPi toks synth)).
  apply (transform_PR SN (TPi toks synth) NM (TPi_set toks synth) HSP HSN ic t x); [|exact Ex].
  apply GR_canonize.
  - intros d cs m Hg Hd. split; [|exact Hsyn]. apply TPi_synth.
    destruct t as [tk|d' cs' m']; [discriminate Hg|]. cbn [gtree_of] in Hg. injection Hg as -> _ _.
    change (is_symbolset_root (po_tree po) = true). unfold synth in Hr. rewrite <- Hr. exact Hd.
  - apply GR_gtree_of; [exact HKN|exact (Hguard t eq_refl)|].
    rewrite Hl. apply Forall_forall. intros tk Htk. apply TPi_leaf. exact Htk.
Qed.

(* ---------------------------------------------------------------- goal 1: provenance, for every text *)
Theorem recorded_positions_are_token_positions :
  forall ic text v po,
    parse_text the_grammar the_hook ic text = Ok po -> loads true ic text = Ok v ->
    positions_from (leaves (po_tree po)) (is_symbolset_root (po_tree po)) v.
Proof.
  intros ic text v po Hp H. unfold positions_from.
  apply (loads_positions_gen _ (fun _ _ => True) ic text v po); try assumption.
  - intros t Ht. apply TPi_SP_of. exact Ht.
  - intros t k Ht _. apply TPi_of. exact Ht.
  - left. intros t kn _. exact I.
  - intros kn _. exact I.
  - intros t _. left. intros t0 kn _. exact I.
Qed.

(* a file whose root is not the SYMBOLSET form holds no (None, None) position *)
Corollary recorded_positions_are_token_positions_map :
  forall ic text v po,
    parse_text the_grammar the_hook ic text = Ok po -> loads true ic text = Ok v ->
    is_symbolset_root (po_tree po) = false ->
    positions_from (leaves (po_tree po)) false v.
Proof.
  intros ic text v po Hp H Hr. rewrite <- Hr. eapply recorded_positions_are_token_positions; eassumption.
Qed.

(* combined with ParseFacts.tree_tokens_positions: every recorded line/column
   is where a token of the text starts *)
Definition pos_in_text (text : str) (synth : bool) (L C : value) : Prop :=
  (exists t0, token_at text t0 /\ L = VInt (Z.of_N (tline t0)) /\ C = VInt (Z.of_N (tcol t0)))
  \/ (synth = true /\ L = VNone /\ C = VNone).

Definition positions_in_text (text : str) (synth : bool) : value -> Prop :=
  positions_ok (fun L C _ => pos_in_text text synth L C).

Theorem recorded_positions_are_text_positions :
  forall ic text v po,
    parse_text the_grammar the_hook ic text = Ok po -> loads true ic text = Ok v ->
    positions_in_text text (is_symbolset_root (po_tree po)) v.
Proof.
  intros ic text v po Hp H. unfold positions_in_text.
  pose proof (tree_tokens_positions the_grammar the_hook ic text po the_grammar_lexers_ok Hp) as Hat.
  eapply positions_ok_mono; [|eapply recorded_positions_are_token_positions; eassumption].
  intros L C _ [(t0 & Hin & HL & HC)|Hs]; [left|right; exact Hs].
  exists t0. rewrite Forall_forall in Hat. split; [apply Hat; exact Hin|tauto].
Qed.
