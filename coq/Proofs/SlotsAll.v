(* The whole slot product, recombined from the eight reflection shards. *)
From MF Require Import Lib.Base Model.SlotDoc Model.SlotCheck.
From MF Require Gen.SlotDocs0 Gen.SlotDocs1 Gen.SlotDocs2 Gen.SlotDocs3 Gen.SlotDocs4 Gen.SlotDocs5 Gen.SlotDocs6 Gen.SlotDocs7.
From MF Require Proofs.Slots0 Proofs.Slots1 Proofs.Slots2 Proofs.Slots3 Proofs.Slots4 Proofs.Slots5 Proofs.Slots6 Proofs.Slots7.

Definition all_slotdocs : list slotdoc :=
  SlotDocs0.slotdocs ++ SlotDocs1.slotdocs ++ SlotDocs2.slotdocs ++ SlotDocs3.slotdocs ++
  SlotDocs4.slotdocs ++ SlotDocs5.slotdocs ++ SlotDocs6.slotdocs ++ SlotDocs7.slotdocs.

Definition all_failing_ids : list (str * str * str * str) :=
  Slots0.failing_ids ++ Slots1.failing_ids ++ Slots2.failing_ids ++ Slots3.failing_ids ++
  Slots4.failing_ids ++ Slots5.failing_ids ++ Slots6.failing_ids ++ Slots7.failing_ids.

Lemma shard_ok (docs : list slotdoc) (ids all : list (str * str * str * str)) sd :
  map slot_id (failing docs) = ids -> incl ids all ->
  In sd docs -> ~ In (slot_id sd) all -> slot_ok sd = true.
Proof.
  intros Hs Hi Hin Hnot. apply (not_failing_ok docs sd Hin). intros Hf. apply Hnot, Hi.
  rewrite <- Hs. apply in_map. exact Hf.
Qed.

Theorem slots_ok_except :
  forall sd, In sd all_slotdocs -> ~ In (slot_id sd) all_failing_ids -> slot_ok sd = true.
Proof.
  intros sd Hin Hnot. unfold all_slotdocs in Hin. unfold all_failing_ids in Hnot.
  repeat (apply in_app_or in Hin; destruct Hin as [Hin|Hin]).
  - eapply (shard_ok _ _ _ sd Slots0.failing_ids_spec); [|exact Hin|exact Hnot].
    intros x Hx. apply in_or_app. left. exact Hx.
  - eapply (shard_ok _ _ _ sd Slots1.failing_ids_spec); [|exact Hin|exact Hnot].
    intros x Hx. apply in_or_app. right. apply in_or_app. left. exact Hx.
  - eapply (shard_ok _ _ _ sd Slots2.failing_ids_spec); [|exact Hin|exact Hnot].
    intros x Hx. do 2 (apply in_or_app; right). apply in_or_app. left. exact Hx.
  - eapply (shard_ok _ _ _ sd Slots3.failing_ids_spec); [|exact Hin|exact Hnot].
    intros x Hx. do 3 (apply in_or_app; right). apply in_or_app. left. exact Hx.
  - eapply (shard_ok _ _ _ sd Slots4.failing_ids_spec); [|exact Hin|exact Hnot].
    intros x Hx. do 4 (apply in_or_app; right). apply in_or_app. left. exact Hx.
  - eapply (shard_ok _ _ _ sd Slots5.failing_ids_spec); [|exact Hin|exact Hnot].
    intros x Hx. do 5 (apply in_or_app; right). apply in_or_app. left. exact Hx.
  - eapply (shard_ok _ _ _ sd Slots6.failing_ids_spec); [|exact Hin|exact Hnot].
    intros x Hx. do 6 (apply in_or_app; right). apply in_or_app. left. exact Hx.
  - eapply (shard_ok _ _ _ sd Slots7.failing_ids_spec); [|exact Hin|exact Hnot].
    intros x Hx. do 7 (apply in_or_app; right). exact Hx.
Qed.

Lemma bk_shard (docs : list slotdoc) sd :
  forallb (fun sd => bookkeeping_ok (sd_text sd)) docs = true -> In sd docs -> bookkeeping_ok (sd_text sd) = true.
Proof. intros H Hin. rewrite forallb_forall in H. apply H. exact Hin. Qed.

Theorem bookkeeping_all_slots : forall sd, In sd all_slotdocs -> bookkeeping_ok (sd_text sd) = true.
Proof.
  intros sd Hin. unfold all_slotdocs in Hin.
  repeat (apply in_app_or in Hin; destruct Hin as [Hin|Hin]).
  - exact (bk_shard _ sd Slots0.bookkeeping_all Hin).
  - exact (bk_shard _ sd Slots1.bookkeeping_all Hin).
  - exact (bk_shard _ sd Slots2.bookkeeping_all Hin).
  - exact (bk_shard _ sd Slots3.bookkeeping_all Hin).
  - exact (bk_shard _ sd Slots4.bookkeeping_all Hin).
  - exact (bk_shard _ sd Slots5.bookkeeping_all Hin).
  - exact (bk_shard _ sd Slots6.bookkeeping_all Hin).
  - exact (bk_shard _ sd Slots7.bookkeeping_all Hin).
Qed.

Definition n_slotdocs : nat :=
  (Slots0.n_docs + Slots1.n_docs + Slots2.n_docs + Slots3.n_docs + Slots4.n_docs + Slots5.n_docs + Slots6.n_docs + Slots7.n_docs)%nat.

(* ---------------------------------------------------------------- printer-side compositions *)
From MF Require Import Model.PPrint Model.Roundtrip.

Definition root_only (sd : slotdoc) : bool := str_eqb (sd_ctx sd) (Str "root/only").

Definition all_rt_failing_ids : list (str * str * str * str) :=
  Slots0.rt_failing_ids ++ Slots1.rt_failing_ids ++ Slots2.rt_failing_ids ++ Slots3.rt_failing_ids ++
  Slots4.rt_failing_ids ++ Slots5.rt_failing_ids ++ Slots6.rt_failing_ids ++ Slots7.rt_failing_ids.
Definition all_idem_failing_ids : list (str * str * str * str) :=
  Slots0.idem_failing_ids ++ Slots1.idem_failing_ids ++ Slots2.idem_failing_ids ++ Slots3.idem_failing_ids ++
  Slots4.idem_failing_ids ++ Slots5.idem_failing_ids ++ Slots6.idem_failing_ids ++ Slots7.idem_failing_ids.
Definition all_opts_failing_ids : list (str * str * str * str) :=
  Slots0.opts_failing_ids ++ Slots1.opts_failing_ids ++ Slots2.opts_failing_ids ++ Slots3.opts_failing_ids ++
  Slots4.opts_failing_ids ++ Slots5.opts_failing_ids ++ Slots6.opts_failing_ids ++ Slots7.opts_failing_ids.

Lemma filter_check_ok (chk : slotdoc -> bool) (docs : list slotdoc) ids all sd :
  map slot_id (filter (fun sd => negb (chk sd)) (filter root_only docs)) = ids -> incl ids all ->
  In sd docs -> root_only sd = true -> ~ In (slot_id sd) all -> chk sd = true.
Proof.
  intros Hs Hi Hin Hr Hnot. destruct (chk sd) eqn:E; [reflexivity|]. exfalso. apply Hnot, Hi.
  rewrite <- Hs. apply in_map. apply filter_In. split; [|rewrite E; reflexivity].
  apply filter_In. split; assumption.
Qed.

Ltac shard_cases Hin :=
  repeat (apply in_app_or in Hin; destruct Hin as [Hin|Hin]).

Ltac incl_solve :=
  let x := fresh "x" in let Hx := fresh "Hx" in
  intros x Hx; repeat (first [ exact Hx | apply in_or_app; first [ left; exact Hx | right ] ]).

Theorem roundtrip_ok_except :
  forall sd, In sd all_slotdocs -> root_only sd = true -> ~ In (slot_id sd) all_rt_failing_ids ->
             roundtrip_ok default_opts (sd_text sd) = true.
Proof.
  intros sd Hin Hr Hnot. unfold all_slotdocs in Hin. unfold all_rt_failing_ids in Hnot. shard_cases Hin.
  - eapply (filter_check_ok Slots0.rt_check _ _ _ sd Slots0.rt_failing_ids_spec); [|exact Hin|exact Hr|exact Hnot]; incl_solve.
  - eapply (filter_check_ok Slots1.rt_check _ _ _ sd Slots1.rt_failing_ids_spec); [|exact Hin|exact Hr|exact Hnot]; incl_solve.
  - eapply (filter_check_ok Slots2.rt_check _ _ _ sd Slots2.rt_failing_ids_spec); [|exact Hin|exact Hr|exact Hnot]; incl_solve.
  - eapply (filter_check_ok Slots3.rt_check _ _ _ sd Slots3.rt_failing_ids_spec); [|exact Hin|exact Hr|exact Hnot]; incl_solve.
  - eapply (filter_check_ok Slots4.rt_check _ _ _ sd Slots4.rt_failing_ids_spec); [|exact Hin|exact Hr|exact Hnot]; incl_solve.
  - eapply (filter_check_ok Slots5.rt_check _ _ _ sd Slots5.rt_failing_ids_spec); [|exact Hin|exact Hr|exact Hnot]; incl_solve.
  - eapply (filter_check_ok Slots6.rt_check _ _ _ sd Slots6.rt_failing_ids_spec); [|exact Hin|exact Hr|exact Hnot]; incl_solve.
  - eapply (filter_check_ok Slots7.rt_check _ _ _ sd Slots7.rt_failing_ids_spec); [|exact Hin|exact Hr|exact Hnot]; incl_solve.
Qed.

Theorem idempotent_ok_except :
  forall sd, In sd all_slotdocs -> root_only sd = true -> ~ In (slot_id sd) all_idem_failing_ids ->
             idempotent_ok default_opts (sd_text sd) = true.
Proof.
  intros sd Hin Hr Hnot. unfold all_slotdocs in Hin. unfold all_idem_failing_ids in Hnot. shard_cases Hin.
  - eapply (filter_check_ok Slots0.idem_check _ _ _ sd Slots0.idem_failing_ids_spec); [|exact Hin|exact Hr|exact Hnot]; incl_solve.
  - eapply (filter_check_ok Slots1.idem_check _ _ _ sd Slots1.idem_failing_ids_spec); [|exact Hin|exact Hr|exact Hnot]; incl_solve.
  - eapply (filter_check_ok Slots2.idem_check _ _ _ sd Slots2.idem_failing_ids_spec); [|exact Hin|exact Hr|exact Hnot]; incl_solve.
  - eapply (filter_check_ok Slots3.idem_check _ _ _ sd Slots3.idem_failing_ids_spec); [|exact Hin|exact Hr|exact Hnot]; incl_solve.
  - eapply (filter_check_ok Slots4.idem_check _ _ _ sd Slots4.idem_failing_ids_spec); [|exact Hin|exact Hr|exact Hnot]; incl_solve.
  - eapply (filter_check_ok Slots5.idem_check _ _ _ sd Slots5.idem_failing_ids_spec); [|exact Hin|exact Hr|exact Hnot]; incl_solve.
  - eapply (filter_check_ok Slots6.idem_check _ _ _ sd Slots6.idem_failing_ids_spec); [|exact Hin|exact Hr|exact Hnot]; incl_solve.
  - eapply (filter_check_ok Slots7.idem_check _ _ _ sd Slots7.idem_failing_ids_spec); [|exact Hin|exact Hr|exact Hnot]; incl_solve.
Qed.

Theorem options_ok_except :
  forall sd, In sd all_slotdocs -> root_only sd = true -> ~ In (slot_id sd) all_opts_failing_ids ->
             forallb (fun o => options_ok o (sd_text sd)) option_sets = true.
Proof.
  intros sd Hin Hr Hnot. unfold all_slotdocs in Hin. unfold all_opts_failing_ids in Hnot. shard_cases Hin.
  - eapply (filter_check_ok Slots0.opts_check _ _ _ sd Slots0.opts_failing_ids_spec); [|exact Hin|exact Hr|exact Hnot]; incl_solve.
  - eapply (filter_check_ok Slots1.opts_check _ _ _ sd Slots1.opts_failing_ids_spec); [|exact Hin|exact Hr|exact Hnot]; incl_solve.
  - eapply (filter_check_ok Slots2.opts_check _ _ _ sd Slots2.opts_failing_ids_spec); [|exact Hin|exact Hr|exact Hnot]; incl_solve.
  - eapply (filter_check_ok Slots3.opts_check _ _ _ sd Slots3.opts_failing_ids_spec); [|exact Hin|exact Hr|exact Hnot]; incl_solve.
  - eapply (filter_check_ok Slots4.opts_check _ _ _ sd Slots4.opts_failing_ids_spec); [|exact Hin|exact Hr|exact Hnot]; incl_solve.
  - eapply (filter_check_ok Slots5.opts_check _ _ _ sd Slots5.opts_failing_ids_spec); [|exact Hin|exact Hr|exact Hnot]; incl_solve.
  - eapply (filter_check_ok Slots6.opts_check _ _ _ sd Slots6.opts_failing_ids_spec); [|exact Hin|exact Hr|exact Hnot]; incl_solve.
  - eapply (filter_check_ok Slots7.opts_check _ _ _ sd Slots7.opts_failing_ids_spec); [|exact Hin|exact Hr|exact Hnot]; incl_solve.
Qed.

(* ---------------------------------------------------------------- printing leaves its argument alone *)
Definition print_pure (sd : slotdoc) : bool :=
  match Api.loads false false (sd_text sd) with
  | Ok d => match pprint default_opts d with
            | Ok (_, d') => value_eqb d d'
            | Err _ => true
            end
  | Err _ => true
  end.

Lemma pure_shard (docs : list slotdoc) (chk : slotdoc -> bool) sd :
  forallb chk (filter root_only docs) = true -> In sd docs -> root_only sd = true -> chk sd = true.
Proof.
  intros H Hin Hr. rewrite forallb_forall in H. apply H. apply filter_In. split; assumption.
Qed.

Theorem print_pure_all_slots : forall sd, In sd all_slotdocs -> root_only sd = true -> print_pure sd = true.
Proof.
  intros sd Hin Hr. unfold all_slotdocs in Hin. shard_cases Hin.
  - exact (pure_shard _ Slots0.print_pure sd Slots0.print_pure_all Hin Hr).
  - exact (pure_shard _ Slots1.print_pure sd Slots1.print_pure_all Hin Hr).
  - exact (pure_shard _ Slots2.print_pure sd Slots2.print_pure_all Hin Hr).
  - exact (pure_shard _ Slots3.print_pure sd Slots3.print_pure_all Hin Hr).
  - exact (pure_shard _ Slots4.print_pure sd Slots4.print_pure_all Hin Hr).
  - exact (pure_shard _ Slots5.print_pure sd Slots5.print_pure_all Hin Hr).
  - exact (pure_shard _ Slots6.print_pure sd Slots6.print_pure_all Hin Hr).
  - exact (pure_shard _ Slots7.print_pure sd Slots7.print_pure_all Hin Hr).
Qed.
