(* C12: history independence of the Parser object; independent threads. *)
From MF Require Import Lib.Base Model.GrammarTypes Model.Lexer Model.LR Model.Transformer Model.Api Model.Workers Gen.Grammar.

(* the result of Parser.parse does not depend on what earlier parses left in the object *)
Theorem parser_history_free ic p1 p2 text :
  snd (parser_parse ic p1 text) = snd (parser_parse ic p2 text).
Proof.
  unfold parser_parse, clear_buffer.
  destruct (snd (parse_from_buffer ic [] text)) as [po|e]; [|reflexivity].
  destruct ic; reflexivity.
Qed.

(* and it is the stateless function the rest of the development reasons about *)
Theorem parser_parse_is_parse_tree ic p text :
  snd (parser_parse ic p text) = parse_tree ic text.
Proof.
  unfold parser_parse, clear_buffer, parse_tree, parse_text, parse_text_tr, parse_from_buffer, ls0.
  destruct (snd (parse_loop the_grammar the_hook ic (S (length text))
                            {| ls_lc := lc0; ls_rest := text; ls_comments := []; ls_last := None |}
                            [g_start the_grammar] [] [])) as [po|e]; cbn [bind]; [|reflexivity].
  destruct ic; reflexivity.
Qed.

(* ---------------------------------------------------------------- threads that share nothing *)
Section Sched.
  Variables (St Call Res : Type).
  Variable step : St -> Call -> St * Res.
  Notation thread := (thread St Call Res).
  Notation run_one := (run_one St Call Res step).
  Notation run_schedule := (run_schedule St Call Res step).
  Notation run_alone := (run_alone St Call Res step).

  Lemma nth_update_same {A} (f : A -> A) : forall n (l : list A) d,
    (n < length l)%nat -> nth n (update_nth n f l) d = f (nth n l d).
  Proof.
    induction n as [|n IH]; intros [|x l] d H; cbn in *; try lia; [reflexivity|].
    apply IH. lia.
  Qed.

  Lemma nth_update_other {A} (f : A -> A) : forall n m (l : list A) d,
    n <> m -> nth m (update_nth n f l) d = nth m l d.
  Proof.
    induction n as [|n IH]; intros [|m] [|x l] d H; cbn; try reflexivity; try congruence.
    apply IH. congruence.
  Qed.

  Lemma length_update {A} (f : A -> A) : forall n (l : list A), length (update_nth n f l) = length l.
  Proof. induction n as [|n IH]; intros [|x l]; cbn; auto. Qed.

  Fixpoint count (i : nat) (sched : list nat) : nat :=
    match sched with [] => O | j :: s => (if Nat.eqb i j then 1 else 0) + count i s end.

  Lemma run_alone_S n t : run_alone (S n) t = run_alone n (run_one t).
  Proof. reflexivity. Qed.

  (* whatever the interleaving, thread i ends exactly where it would end running
     alone for as many steps as the schedule gave it *)
  Theorem interleaving_irrelevant : forall sched pool i d,
    (i < length pool)%nat ->
    nth i (run_schedule sched pool) d = run_alone (count i sched) (nth i pool d).
  Proof.
    induction sched as [|j sched IH]; intros pool i d Hi; cbn [run_schedule count]; [reflexivity|].
    rewrite IH by (rewrite length_update; exact Hi).
    destruct (Nat.eqb_spec i j) as [->|Hne].
    - rewrite nth_update_same by exact Hi. reflexivity.
    - rewrite nth_update_other by congruence. reflexivity.
  Qed.
End Sched.
