(* Reflection shard 6 of the slot product: which slot documents of
   Gen/SlotDocs6.v fail through the whole model (computed by the kernel). *)
From MF Require Import Lib.Base Model.SlotDoc Model.SlotCheck Gen.SlotDocs6.

Definition failing_ids : list (str * str * str * str) :=
  Eval vm_compute in map slot_id (failing slotdocs).

Lemma failing_ids_spec : map slot_id (failing slotdocs) = failing_ids.
Proof. vm_compute. reflexivity. Qed.

Definition n_docs : nat := Eval vm_compute in length slotdocs.

Lemma bookkeeping_all : forallb (fun sd => bookkeeping_ok (sd_text sd)) slotdocs = true.
Proof. vm_compute. reflexivity. Qed.
