(* C02 (documented text-to-dict contract), universal: statements for Api.loads.

   Files: Proofs/C02U_Spec.v   the contract on final data: [contract] generic in the leaf predicates,
                               its instances [contract_strict] (typed leaves) and [contract_from]
                               (leaves derived from source tokens), and the unguarded [contract_shape]
          Proofs/C02U_Rel.v    the logical predicate over all 48 transformer callbacks, tr_main, the
                               comments pass and transform (every include_position / include_comments)
          Proofs/C02U_Guard.v  the tree guard discharged for parser trees through Proofs/LRTyping.v
          Proofs/C02U_Weak.v   the coarse predicate behind the unguarded shape
          Proofs/C02U_Top.v    the root of the result (no guard)
          Proofs/C02U_Order.v  source order / last value wins of the composite fold
          this file            loads: the theorems, the refuted clauses with witnesses, non-vacuity

   Main statements (all closed under the global context):
     loads_contract_shape          UNGUARDED, every text, every ip / ic: no None, lower-case keys, every
                                   block-class dict has a lower-case string __type__, the root is a block
                                   dict or a list of block dicts
     loads_contract_from_guarded   PROVENANCE + the full SHAPE contract, every text, every ip / ic, under
                                   the lexical guard lexg (po_tree po) = true
     loads_contract_strict_guarded the typed-leaves instance of it
     loads_contract_strict_refuted_*  without the guard the full contract is false (three witnesses);
                                   on each witness the guard is false (cex_guard_false)
     block_* (Section Reading)     the documented clauses read off the contract key by key
     C02U_Order.*                  LAST VALUE WINS and SOURCE ORDER for the fold of composite()

   What the lexical guard says (C02U_Guard.lexg, a boolean function of the parse tree):
     1. the token under every composite_type node is spelled like one of the 19 block keywords;
     2. the key token of every attr node has a name of family FAttr or FRep, i.e. it is not spelled
        __type__, __position__, __comments__, __tokens__, config, points, pattern, projection, like a
        singleton block type (metadata, web, ...) or like the plural key of a repeatable block type
        (layers, classes, styles, ...);
     3. the first token of every config node is spelled config.
   1 and 3 and most of 2 hold of every tree the lexer/parser produce (the keyword terminals win over
   UNQUOTED_STRING), but that is a fact about token TEXTS which Proofs/LexFacts.v does not provide; the
   part of 2 about __type__ and the plural keys is a genuine restriction: see the refuted theorems. *)
From MF Require Import Lib.Base Lib.PyDict Lib.Regex Model.GrammarTypes Model.Lexer Model.LR
  Model.Case Model.Transformer Model.Api Gen.Tokens Gen.Grammar
  Proofs.LexFacts Proofs.ParseFacts Proofs.GrammarFacts Proofs.LRFacts Proofs.LRTyping Proofs.C13U Proofs.C08U
  Proofs.C08U_Named Proofs.C02U_Spec Proofs.C02U_Rel Proofs.C02U_Guard Proofs.C02U_Weak Proofs.C02U_Top.
Open Scope N_scope.

(* ================================================================ goal 1, unguarded *)
Theorem loads_contract_shape :
  forall ip ic text v, loads ip ic text = Ok v -> contract_shape v.
Proof. intros ip ic text v H. split; [eapply loads_WS; exact H|eapply loads_root; exact H]. Qed.

(* ================================================================ goals 1 and 2, guarded *)
Theorem loads_contract_from_guarded :
  forall ip ic text v po,
    parse_text the_grammar the_hook ic text = Ok po -> lexg (po_tree po) = true ->
    loads ip ic text = Ok v ->
    contract_from (leaves (po_tree po)) (is_symbolset_root (po_tree po)) v.
Proof.
  intros ip ic text v po Hp Hx H. unfold loads in H.
  destruct (parse_tree ic text) as [t|e] eqn:Et; cbn [bind] in H; [|discriminate].
  destruct (transform ip ic t) as [x|e] eqn:Ex; cbn [bind] in H; [|discriminate].
  rewrite tv_to_value_tvv in H. injection H as <-.
  destruct (parse_tree_of_parse_text ic text po t Hp Et) as [_ Hr].
  apply (transform_contract_grammar _ _ ip ic t x); [eapply parse_tree_TG; eassumption| |exact Ex].
  destruct (parse_tree_root ic text t Et) as (d & cs & m & -> & Hd).
  exists d, cs, m. split; [reflexivity|]. destruct Hd as [-> |(-> & Hne)]; [left; reflexivity|right].
  split; [reflexivity|]. split; [|exact Hne]. rewrite <- Hr. reflexivity.
Qed.

(* with ParseFacts.tree_tokens_positions: the tokens the leaves are derived from lie in the text,
   at the offsets / lines / columns they carry *)
Theorem loads_contract_from_text_guarded :
  forall ip ic text v po,
    parse_text the_grammar the_hook ic text = Ok po -> lexg (po_tree po) = true ->
    loads ip ic text = Ok v ->
    contract_from (leaves (po_tree po)) (is_symbolset_root (po_tree po)) v /\
    Forall (token_at text) (leaves (po_tree po)).
Proof.
  intros ip ic text v po Hp Hx H. split; [eapply loads_contract_from_guarded; eassumption|].
  exact (tree_tokens_positions the_grammar the_hook ic text po the_grammar_lexers_ok Hp).
Qed.

Theorem loads_contract_strict_guarded :
  forall ip ic text v po,
    parse_text the_grammar the_hook ic text = Ok po -> lexg (po_tree po) = true ->
    loads ip ic text = Ok v -> contract_strict v.
Proof.
  intros ip ic text v po Hp Hx H. eapply contract_from_strict. eapply loads_contract_from_guarded; eassumption.
Qed.

(* ================================================================ reading the contract, key by key *)
Lemma plural_keys_family : forallb (fun k => fam_eqb (family k) FPlural) PLURAL_KEYS = true.
Proof. vm_compute. reflexivity. Qed.
Lemma single_keys_family : forallb (fun k => fam_eqb (family k) FSingle) SINGLE_KEYS = true.
Proof. vm_compute. reflexivity. Qed.
Lemma repeated_keys_family : forallb (fun k => fam_eqb (family k) FRep) REPEATED_KEYS = true.
Proof. vm_compute. reflexivity. Qed.
(* the plural keys are exactly the documented object-list keys (plus symbolsets, which never occurs nested) *)
Lemma object_list_keys_are_plural_keys : forallb (fun k => mem_str k PLURAL_KEYS) OBJECT_LIST_KEYS = true.
Proof. vm_compute. reflexivity. Qed.

Lemma family_of_list l f k :
  forallb (fun k => fam_eqb (family k) f) l = true -> mem_str k l = true -> family k = f.
Proof.
  intros Hc Hk. apply mem_str_In in Hk. rewrite forallb_forall in Hc. apply fam_eqb_eq. apply Hc. exact Hk.
Qed.

Section Reading.
  Variables (LF LM LN LS : value -> Prop) (LK : str -> Prop).
  Notation blk := (blockv LF LM LN LS LK).
  Notation ent := (entry_ok LF LM LN LS LK).

  (* every block carries its lower-case __type__, a known block type, as first entry *)
  Lemma block_type_first items :
    blk items -> exists ty rest, items = (s_type, VStr ty) :: rest /\ lower ty = ty /\ mem_str ty BTYPES = true.
  Proof.
    intros ((ty & rest & E) & _ & HF). rewrite E in HF. pose proof (Forall_inv HF) as [_ He]. cbn [fst snd] in He.
    unfold entry_ok in He. destruct family_consts as (Ef & _). rewrite Ef in He.
    destruct He as (ty' & [= <-] & Hb). exists ty, rest. split; [exact E|]. split; [apply btype_lower; exact Hb|exact Hb].
  Qed.

  Lemma block_entry items k v : blk items -> In (k, v) items -> lower k = k /\ ent k v.
  Proof. intros (_ & _ & HF) Hin. rewrite Forall_forall in HF. exact (HF (k, v) Hin). Qed.

  (* repeatable blocks: under the plural key, a non-empty list of blocks, in the order of the fold *)
  Lemma block_plural_key items k v :
    blk items -> In (k, v) items -> mem_str k PLURAL_KEYS = true ->
    exists l, v = VList l /\ l <> [] /\
      Forall (fun d => exists ty, isblock ty d /\ plural ty = k /\ mem_str ty SINGLETON_COMPOSITE_NAMES = false) l.
  Proof.
    intros Hb Hin Hk. destruct (block_entry _ _ _ Hb Hin) as [_ He]. unfold entry_ok in He.
    rewrite (family_of_list _ _ _ plural_keys_family Hk) in He. exact He.
  Qed.

  (* singleton blocks: a nested dict of that type *)
  Lemma block_singleton_key items k v :
    blk items -> In (k, v) items -> mem_str k SINGLE_KEYS = true -> isblock k v.
  Proof.
    intros Hb Hin Hk. destruct (block_entry _ _ _ Hb Hin) as [_ He]. unfold entry_ok in He.
    rewrite (family_of_list _ _ _ single_keys_family Hk) in He. exact He.
  Qed.

  (* repeatable keywords: a non-empty list of attribute values *)
  Lemma block_repeated_key items k v :
    blk items -> In (k, v) items -> mem_str k REPEATED_KEYS = true ->
    exists l, v = VList l /\ l <> [] /\ Forall (gattrv LF LM) l.
  Proof.
    intros Hb Hin Hk. destruct (block_entry _ _ _ Hb Hin) as [_ He]. unfold entry_ok in He.
    rewrite (family_of_list _ _ _ repeated_keys_family Hk) in He. exact He.
  Qed.

  Lemma block_config items v : blk items -> In (s_config, v) items -> cfgv LS LK v.
  Proof.
    intros Hb Hin. destruct (block_entry _ _ _ Hb Hin) as [_ He]. unfold entry_ok in He.
    destruct family_consts as (_ & E & _). rewrite E in He. exact He.
  Qed.

  Lemma block_points items v : blk items -> In (s_points, v) items -> ptsv LN v.
  Proof.
    intros Hb Hin. destruct (block_entry _ _ _ Hb Hin) as [_ He]. unfold entry_ok in He.
    destruct family_consts as (_ & _ & E & _). rewrite E in He. exact He.
  Qed.

  Lemma block_pattern items v : blk items -> In (s_pattern, v) items -> pairsv LN v.
  Proof.
    intros Hb Hin. destruct (block_entry _ _ _ Hb Hin) as [_ He]. unfold entry_ok in He.
    destruct family_consts as (_ & _ & _ & E & _). rewrite E in He. exact He.
  Qed.

  Lemma block_projection items v : blk items -> In (s_projection, v) items -> strsv LS v.
  Proof.
    intros Hb Hin. destruct (block_entry _ _ _ Hb Hin) as [_ He]. unfold entry_ok in He.
    destruct family_consts as (_ & _ & _ & _ & E & _). rewrite E in He. exact He.
  Qed.
End Reading.

(* ================================================================ what is false without the guard *)
Definition cex1_text : str := Str "MAP LAYER NAME 'a' END LAYERS 5 END".
Definition cex1_val : value := VDict (DCI true) [(s_type, VStr (Str "map")); (Str "layers", VInt 5)].
Definition cex2_text : str := Str "MAP layers 1 2 LAYER END END".
Definition cex2_val : value :=
  VDict (DCI true) [(s_type, VStr (Str "map"));
                    (Str "layers", VList [VInt 1; VInt 2; VDict (DCI true) [(s_type, VStr (Str "layer"))]])].
Definition cex3_text : str := Str "MAP __type__ Abc END".

Lemma cex1_loads : loads false false cex1_text = Ok cex1_val.
Proof. vm_compute. reflexivity. Qed.
Lemma cex2_loads : loads false false cex2_text = Ok cex2_val.
Proof. vm_compute. reflexivity. Qed.
Lemma cex3_loads :
  exists p, loads false false cex3_text =
    Ok (VDict (DCI true)
          [(s_type, VStr (Str "map"));
           (Str "abcs", VList [VDict DPlain [(s_position, p);
                                             (s_tokens, VList [VStr s_type; VStr (Str "Abc")]);
                                             (s_type, VStr (Str "Abc"))]])]).
Proof. eexists. vm_compute. reflexivity. Qed.

Lemma family_layers : family (Str "layers") = FPlural.
Proof. vm_compute. reflexivity. Qed.
Lemma family_abcs : family (Str "abcs") = FAttr.
Proof. vm_compute. reflexivity. Qed.

Lemma map_not_kvtype ty : Some (VStr (Str "map")) = Some (VStr ty) -> In ty KVTYPES -> False.
Proof.
  intros [= <-] Hin. cbn [KVTYPES In] in Hin.
  destruct Hin as [E|[E|[E|[E|[]]]]]; vm_compute in E; discriminate E.
Qed.

(* the shape of a one-block result whose second entry is (k, v) forces entry_ok k v *)
Lemma second_entry_ok k v :
  contract_strict (VDict (DCI true) [(s_type, VStr (Str "map")); (k, v)]) ->
  entry_ok scalar scalar number is_str lower_key k v.
Proof.
  intros [Hc _]. apply CS_dict in Hc. destruct Hc as [_ (_ & [Hb|Hb])].
  - destruct Hb as (_ & _ & HF). exact (proj2 (Forall_inv (Forall_inv_tail HF))).
  - exfalso. destruct Hb as ((ty & Hty & Hin) & _). cbn [assoc] in Hty. rewrite str_eqb_refl in Hty.
    eapply map_not_kvtype; eassumption.
Qed.

(* 1. "the value under the plural key of a repeatable block type is a non-empty list of block dicts":
      an attribute spelled LAYERS overwrites the list *)
Theorem loads_contract_strict_refuted_plural_key_overwritten :
  exists text v, loads false false text = Ok v /\ ~ contract_strict v.
Proof.
  exists cex1_text, cex1_val. split; [exact cex1_loads|]. intros H. apply second_entry_ok in H.
  unfold entry_ok in H. rewrite family_layers in H. destruct H as (l & E & _). discriminate E.
Qed.

(* 2. the same clause: a two-token attribute spelled LAYERS followed by a LAYER block gives a list
      mixing numbers and a block *)
Theorem loads_contract_strict_refuted_plural_key_mixed :
  exists text v, loads false false text = Ok v /\ ~ contract_strict v.
Proof.
  exists cex2_text, cex2_val. split; [exact cex2_loads|]. intros H. apply second_entry_ok in H.
  unfold entry_ok in H. rewrite family_layers in H. destruct H as (l & E & _ & HF). injection E as <-.
  destruct (Forall_inv HF) as (ty & (items & E & _) & _). discriminate E.
Qed.

(* 3. "each block becomes a dict carrying its lower-case __type__": an attribute spelled __type__ is
      filed as a block; its dict is a plain attribute dict whose __type__ is the attribute's value *)
Theorem loads_contract_strict_refuted_type_attribute :
  exists text v, loads false false text = Ok v /\ ~ contract_strict v.
Proof.
  destruct cex3_loads as (p & Hl). eexists _, _. split; [exact Hl|]. intros H. apply second_entry_ok in H.
  unfold entry_ok in H. rewrite family_abcs in H.
  destruct H as [H|(l & E & HF & _)]; [exact H|]. injection E as <-. exact (Forall_inv HF).
Qed.

(* the guard as a function of the text *)
Definition guard_of (ic : bool) (text : str) : option bool :=
  match parse_text the_grammar the_hook ic text with Ok po => Some (lexg (po_tree po)) | Err _ => None end.

Lemma guard_of_spec ic text b :
  guard_of ic text = Some b ->
  exists po, parse_text the_grammar the_hook ic text = Ok po /\ lexg (po_tree po) = b.
Proof.
  unfold guard_of. destruct (parse_text the_grammar the_hook ic text) as [po|e]; [|discriminate].
  intros [= <-]. exists po. split; reflexivity.
Qed.

(* on the three witnesses the lexical guard is false: it is what separates them *)
Lemma cex1_guard : guard_of false cex1_text = Some false. Proof. vm_compute. reflexivity. Qed.
Lemma cex2_guard : guard_of false cex2_text = Some false. Proof. vm_compute. reflexivity. Qed.
Lemma cex3_guard : guard_of false cex3_text = Some false. Proof. vm_compute. reflexivity. Qed.

Lemma cex_guard_false :
  (exists po, parse_text the_grammar the_hook false cex1_text = Ok po /\ lexg (po_tree po) = false) /\
  (exists po, parse_text the_grammar the_hook false cex2_text = Ok po /\ lexg (po_tree po) = false) /\
  (exists po, parse_text the_grammar the_hook false cex3_text = Ok po /\ lexg (po_tree po) = false).
Proof.
  split; [|split]; apply guard_of_spec; [exact cex1_guard|exact cex2_guard|exact cex3_guard].
Qed.

(* ================================================================ non-vacuity *)
Definition sample_text : str := Str "MAP
  NAME 'x'
  CONFIG 'a' 'b'
  EXTENT 1 2 3 4.5
  STATUS ON
  IMAGECOLOR '#AABBCC'
  WEB METADATA 'k' 'v' END END
  PROJECTION 'init=epsg:4326' END
  SYMBOL NAME 'c' TYPE ELLIPSE POINTS 1 1 END FILLED TRUE END
  LAYER PROCESSING 'p=1' PROCESSING 'q=2' TYPE POINT FEATURE POINTS 1 2 END POINTS 3 4 END END
    CLASS EXPRESSION ([a] > 5 AND '[b]' = 'x') STYLE COLOR 1 2 3 SYMBOL 'c' PATTERN 1 2 3 4 END END LABEL TEXT (tostring([x],'%d')) END END
    VALIDATION 'a' 'b' END
  END
END".

Lemma sample_guard_off : guard_of false sample_text = Some true. Proof. vm_compute. reflexivity. Qed.
Lemma sample_guard_on : guard_of true sample_text = Some true. Proof. vm_compute. reflexivity. Qed.
Lemma sample_loads_off : exists v, loads false false sample_text = Ok v. Proof. eexists. vm_compute. reflexivity. Qed.
Lemma sample_loads_on : exists v, loads true true sample_text = Ok v. Proof. eexists. vm_compute. reflexivity. Qed.

(* the guard holds and loads succeeds, with positions and comments on or off *)
Example loads_contract_inhabited :
  (exists po, parse_text the_grammar the_hook false sample_text = Ok po /\ lexg (po_tree po) = true) /\
  (exists v, loads false false sample_text = Ok v) /\
  (exists po, parse_text the_grammar the_hook true sample_text = Ok po /\ lexg (po_tree po) = true) /\
  (exists v, loads true true sample_text = Ok v).
Proof.
  split; [apply guard_of_spec; exact sample_guard_off|]. split; [exact sample_loads_off|].
  split; [apply guard_of_spec; exact sample_guard_on|exact sample_loads_on].
Qed.
