(* The printer factors through a layout-independent abstract document.

   [a_pprint q sct d] is the printer of Model/PPrint.v with every line kept
   abstract: which margin depth, which pieces (keyword, value text, END and the
   block name, comment parts) and which alignment group - nothing that depends
   on indent, spacer, newlinechar, end_comment or align_values.  It reads only
   the quote character [q] and separate_complex_types [sct].

   [render o A] lays the abstract lines out with the layout options of [o].

   Theorem pprint_factors:   pprint o d = render o (a_pprint (quote o) (sct o) d)
   (same exception otherwise; no hypothesis).  Consequences: success, the
   exception raised and the dictionary left behind do not depend on the layout
   options, and two option sets with the same quote and separate_complex_types
   print the SAME abstract document. *)
From MF Require Import Lib.Base Lib.PyDict Lib.Json Gen.Tokens Gen.Schemas Model.Case Model.SchemaStore
  Model.Quoter Model.PPrint Proofs.PPrintFacts.
Open Scope nat_scope.

(* ------------------------------------------------------------ abstract lines *)
Inductive aline :=
| ALine (depth : nat) (body : str)                         (* margin, body *)
| AKV (depth : nat) (L : option nat) (key value : str)      (* margin, keyword, padding, value; L: the longest
                                                               keyword of the alignment group (None: never aligned) *)
| AEnd (depth : nat) (name : str)                          (* margin, END, and "# name" with end_comment *)
| AComments (depth : nat) (parts : list str).              (* comment lines of an object, joined by newlinechar *)

(* ------------------------------------------------------------ rendering *)
Section Render.
  Variable o : opts.

  Definition margin (d : nat) : str := repeat_str (self_spacer o) d.

  Definition col (L : option nat) : nat :=
    match L with
    | Some L => if align_values o then compute_aligned_max_indent o L else 0
    | None => 0
    end.

  Definition render_line (al : aline) : list str :=
    match al with
    | ALine d body => [margin d ++ body]
    | AKV d L k v => [format_line (margin d) k v (col L)]
    | AEnd d name => [margin d ++ Str "END" ++ (if end_comment o then Str " # " ++ name else [])]
    | AComments d parts =>
        match join (newlinechar o) (map (fun p => margin d ++ p) parts) with
        | [] => []
        | c => [c]
        end
    end.

  Definition render_doc (A : list aline) : list str := concat (map render_line A).

  Definition render (A : list aline) : str := join (newlinechar o) (render_doc A).

  Lemma render_doc_app A B : render_doc (A ++ B) = render_doc A ++ render_doc B.
  Proof. unfold render_doc. rewrite map_app, concat_app. reflexivity. Qed.

  Lemma render_doc_cons a A : render_doc (a :: A) = render_line a ++ render_doc A.
  Proof. reflexivity. Qed.

  Lemma render_doc_one a : render_doc [a] = render_line a.
  Proof. unfold render_doc. cbn [map concat]. apply app_nil_r. Qed.

  Lemma render_doc_concat Ls : render_doc (concat Ls) = concat (map render_doc Ls).
  Proof.
    induction Ls as [|A Ls IH]; [reflexivity|]. cbn [concat map]. rewrite render_doc_app, IH. reflexivity.
  Qed.

  Definition rlines (r : res (list aline)) : res (list str) :=
    match r with Ok A => Ok (render_doc A) | Err e => Err e end.

  Definition rlines2 (r : res (list aline * value)) : res (list str * value) :=
    match r with Ok Av => Ok (render_doc (fst Av), snd Av) | Err e => Err e end.
End Render.

(* ------------------------------------------------------------ the abstract printer *)
Section Abs.
  Variables (q : N) (sct : bool).

  (* an option set with this quote and separate_complex_types; its layout fields are never read *)
  Definition oc : opts := mk_opts 0 [] q [] false false sct.

  Definition a_type_comment (level : nat) (comments : value) : res (list aline) :=
    do present <- val_contains comments (Str "__type__");
    if negb present then Ok []
    else
      do value <- val_getitem comments (Str "__type__");
      match value with
      | VList l => Ok [AComments (level + 0) (map py_str l)]
      | _ => Ok [AComments (level + 0) [py_str value]]
      end.

  Fixpoint a_process_dict_lines (level : nat) (L : option nat) (comments : value)
           (l : list (str * value)) : res (list aline) :=
    match l with
    | [] => Ok []
    | (k, v) :: l' =>
        if is_metadata k then a_process_dict_lines level L comments l'
        else
          do cm <- process_attribute_comment comments k;
          do rest <- a_process_dict_lines level L comments l';
          Ok (AKV (level + 2) L (add_quotes q k) (add_quotes_v q v ++ cm) :: rest)
    end.

  Definition a_process_key_dict (key : str) (d : value) (level : nat) : res (list aline) :=
    match d with
    | VDict c items =>
        let comments := dict_get c (Str "__comments__") items (VDict DPlain []) in
        do tc <- a_type_comment level comments;
        do body <- a_process_dict_lines level (Some (compute_max_key_length items + 2)) comments items;
        Ok (tc ++ [ALine (level + 1) (upper key)] ++ body ++ [AEnd (level + 1) (upper key)])
    | _ => Err PyAttributeError
    end.

  Definition a_process_config_dict (d : value) (level : nat) : res (list aline) :=
    match d with
    | VDict _ items =>
        Ok (map (fun kv => AKV (level + 1) None (Str "CONFIG " ++ add_quotes q (upper (fst kv)))
                               (add_quotes_v q (snd kv))) items)
    | _ => Err PyAttributeError
    end.

  Definition a_process_repeated_list (key : str) (lst : value) (level : nat) (L : nat) : res (list aline) :=
    do l <- py_iter lst;
    Ok (map (fun v => AKV (level + 1) (Some L) (upper key) (add_quotes_v q v)) l).

  Definition a_process_projection (key : str) (lst : value) (level : nat) (projection_comments : str)
    : res (list aline) :=
    let head := [ALine (level + 1) (upper key)]
                ++ match projection_comments with [] => [] | _ => [ALine (level + 2) (py_strip projection_comments)] end in
    do body <-
      match lst with
      | VStr s => Ok [ALine (level + 2) (add_quotes q s)]
      | _ =>
          do n <- py_len lst;
          do is_auto <-
            (if n =? 1 then
               do x <- py_index lst 0;
               match x with
               | VStr s => Ok (str_eqb (upper s) (Str "AUTO"))
               | _ => Err PyAttributeError
               end
             else Ok false);
          if is_auto then Ok [ALine (level + 2) (Str "AUTO")]
          else do l <- py_iter lst; Ok (map (fun v => ALine (level + 2) (add_quotes_v q v)) l)
      end;
    Ok (head ++ body ++ [AEnd (level + 1) (upper key)]).

  Definition a_format_pair (level : nat) (p : value) : res aline :=
    do a <- py_index p 0;
    do b <- py_index p 1;
    Ok (ALine (level + 2) (py_str a ++ [c_sp] ++ py_str b)).

  Definition a_format_pair_list (key : str) (pair_list : value) (level : nat) : res (list aline) :=
    do l <- py_iter pair_list;
    do pairs <- mapM (a_format_pair level) l;
    Ok ([ALine (level + 1) (upper key)] ++ pairs ++ [AEnd (level + 1) (upper key)]).

  Definition a_format_repeated_pair_list (key : str) (root_list : value) (level : nat) : res (list aline) :=
    do dp <- depth root_list;
    do parts <- (if dp =? 2 then Ok [root_list] else py_iter root_list);
    do ls <- mapM (fun pair_list => a_format_pair_list key pair_list level) parts;
    Ok (concat ls).

  Definition a_process_attribute (type_ attr : str) (value : value) (level L : nat) : res aline :=
    do attr_props <- get_attribute_properties type_ attr;
    do v <- format_value oc attr attr_props value;
    Ok (AKV (level + 1) (Some L) (upper attr) (py_str v)).

  Definition a_format_header (c : dcls) (items : list (str * value)) (comments : value) (level : nat)
    : res (str * list aline) :=
    if dict_in c (Str "__type__") items then
      do t <- dict_getitem c (Str "__type__") items;
      match t with
      | VStr type_ =>
          if mem_str type_ all_composite_names then
            do tc <- a_type_comment level comments;
            Ok (type_, tc ++ [ALine (level + 0) (upper type_)])
          else Err PyAssertionError
      | VList _ | VDict _ _ => Err PyTypeError
      | _ => Err PyAssertionError
      end
    else Ok ([], []).

  Definition a_format_item (rec : value -> res (list aline * value))
             (type_ : str) (comments : value) (level L : nat)
             (attr : str) (value_ : value) : res (list aline * value) :=
    if is_metadata attr then Ok ([], value_)
    else if is_hidden_container attr value_ then
      match value_ with
      | VList vs =>
          do rs <- mapM rec vs;
          Ok (concat (map fst rs), VList (map snd rs))
      | _ => Ok ([], value_)
      end
    else if str_eqb attr (Str "pattern") then
      do ls <- a_format_pair_list attr value_ level; Ok (ls, value_)
    else if mem_str attr key_dict_names then
      do ls <- a_process_key_dict attr value_ level; Ok (ls, value_)
    else if str_eqb attr (Str "projection") then
      do pc <- process_attribute_comment comments attr;
      do ls <- a_process_projection attr value_ level pc; Ok (ls, value_)
    else if mem_str attr REPEATED_KEYS then
      do ls <- a_process_repeated_list attr value_ level L; Ok (ls, value_)
    else if str_eqb attr (Str "points") then
      do ls <- a_format_repeated_pair_list attr value_ level; Ok (ls, value_)
    else if str_eqb attr (Str "config") then
      do ls <- a_process_config_dict value_ level; Ok (ls, value_)
    else if is_composite value_ then rec value_
    else
      match type_ with
      | [] => Err PyUnboundLocalError
      | _ =>
          do line <- a_process_attribute type_ attr value_ level L;
          do cm <- process_attribute_comment comments attr;
          Ok ([match line with
               | AKV d L' k v => AKV d L' k (v ++ cm)
               | other => other
               end], value_)
      end.

  Fixpoint a_collect_items (l : list (str * (value * res (list aline * value))))
    : res (list aline * list (str * value)) :=
    match l with
    | [] => Ok ([], [])
    | (k, (_, r)) :: l' =>
        do lv <- r;
        do rest <- a_collect_items l';
        Ok (fst lv ++ fst rest, (k, snd lv) :: snd rest)
    end.

  Fixpoint a_format (level : nat) (composite : value) {struct composite} : res (list aline * value) :=
    match composite with
    | VDict c items =>
        let comments := dict_get c (Str "__comments__") items (VDict DPlain []) in
        do hd <- a_format_header c items comments level;
        let type_ := fst hd in
        let L := compute_max_key_length items in
        let results :=
          map (fun kv => (fst kv, (snd kv, a_format_item (fun x => a_format (S level) x) type_ comments level
                                                         L (fst kv) (snd kv)))) items in
        do sorted <- separate_complex_g oc (fun a => fst a) c level results;
        do body <- a_collect_items sorted;
        match type_ with
        | [] => Err PyUnboundLocalError
        | _ => Ok (snd hd ++ fst body ++ [AEnd (level + 0) (upper type_)], VDict c (snd body))
        end
    | _ => Err PyAttributeError
    end.

  Definition a_pprint_one (composite : value) : res (list aline * value) :=
    match composite with
    | VDict c items =>
        match assoc (kfold_item c (Str "__type__")) items with
        | None => if has_factory c then Err PyTypeError else Err PyKeyError
        | Some t =>
            match t with
            | VStr type_ =>
                if mem_str type_ [Str "metadata"; Str "validation"; Str "connectionoptions"]
                then do ls <- a_process_key_dict type_ composite 0; Ok (ls, composite)
                else a_format 0 composite
            | _ => a_format 0 composite
            end
        end
    | _ => Err PyTypeError
    end.

  Definition a_pprint (composites : value) : res (list aline * value) :=
    if negb (N.eqb q c_sq || N.eqb q c_dq) then Err PyAssertionError
    else
      match composites with
      | VList l =>
          do rs <- mapM a_pprint_one l;
          Ok (concat (map fst rs), VList (map snd rs))
      | _ =>
          if truthy composites then
            do r <- a_pprint_one composites; Ok r
          else
            match composites with
            | VStr _ | VDict _ _ => Ok ([], composites)
            | _ => Err PyTypeError
            end
      end.
End Abs.

(* ------------------------------------------------------------ functions that read the quote only *)
Lemma format_value_quote o o' : quote o = quote o' -> format_value o = format_value o'.
Proof. destruct o, o'. cbn. intros ->. reflexivity. Qed.

Lemma separate_complex_g_sct o o' A :
  separate_complex_types o = separate_complex_types o' -> @separate_complex_g o A = @separate_complex_g o' A.
Proof. destruct o, o'. cbn. intros ->. reflexivity. Qed.

(* ------------------------------------------------------------ naturality of separate_complex *)
Definition mapv {A B} (T : A -> B) (l : list (str * A)) : list (str * B) :=
  map (fun x => (fst x, T (snd x))) l.

Definition rmap {A B} (f : A -> B) (r : res A) : res B :=
  match r with Ok a => Ok (f a) | Err e => Err e end.

Lemma assoc_mapv {A B} (T : A -> B) k l :
  assoc k (mapv T l) = match assoc k l with Some a => Some (T a) | None => None end.
Proof.
  induction l as [|[k' a] l IH]; cbn [mapv map assoc fst snd]; [reflexivity|].
  destruct (str_eqb k k'); [reflexivity|exact IH].
Qed.

Lemma od_del_mapv {A B} (T : A -> B) k l : od_del k (mapv T l) = mapv T (od_del k l).
Proof.
  induction l as [|[k' a] l IH]; cbn [mapv map od_del fst snd]; [reflexivity|].
  destruct (str_eqb k k'); [reflexivity|]. cbn [map fst snd]. f_equal. exact IH.
Qed.

Lemma keys_mapv {A B} (T : A -> B) l : keys (mapv T l) = keys l.
Proof. unfold keys, mapv. rewrite map_map. reflexivity. Qed.

Lemma move_to_end_mapv {A B} (T : A -> B) c k l :
  dict_move_to_end c k (mapv T l) = rmap (mapv T) (dict_move_to_end c k l).
Proof.
  unfold dict_move_to_end. destruct c; [reflexivity| |];
    (rewrite assoc_mapv; destruct (assoc k l) as [a|] eqn:E; [|reflexivity]; cbn [rmap]; f_equal;
     unfold od_move_to_end; rewrite assoc_mapv, E, od_del_mapv; unfold mapv; rewrite map_app; reflexivity).
Qed.

Lemma is_complex_mapv {A B} (T : A -> B) (valof : B -> value) c l k level :
  is_complex_type_g valof c (mapv T l) k level = is_complex_type_g (fun a => valof (T a)) c l k level.
Proof.
  unfold is_complex_type_g, dict_getitem_g. rewrite assoc_mapv.
  destruct (assoc (kfold_item c k) l); reflexivity.
Qed.

Lemma separate_loop_mapv {A B} (T : A -> B) (valof : B -> value) c level ks :
  forall l, separate_loop valof c level ks (mapv T l)
            = rmap (mapv T) (separate_loop (fun a => valof (T a)) c level ks l).
Proof.
  induction ks as [|k ks IH]; intros l; cbn [separate_loop]; [reflexivity|].
  rewrite is_complex_mapv. destruct (is_complex_type_g (fun a => valof (T a)) c l k level) as [b|e];
    cbn [bind]; [|reflexivity].
  destruct b; [|apply IH].
  rewrite move_to_end_mapv. destruct (dict_move_to_end c k l) as [l1|e]; cbn [rmap bind]; [apply IH|reflexivity].
Qed.

Lemma separate_complex_g_mapv o {A B} (T : A -> B) (valof : B -> value) c level l :
  separate_complex_g o valof c level (mapv T l)
  = rmap (mapv T) (separate_complex_g o (fun a => valof (T a)) c level l).
Proof.
  unfold separate_complex_g. destruct (separate_complex_types o); [|reflexivity].
  rewrite keys_mapv. apply separate_loop_mapv.
Qed.

(* ------------------------------------------------------------ refinement, function by function *)
Section Refine.
  Variable o : opts.
  Notation q := (quote o).
  Notation sct := (separate_complex_types o).

  Lemma format_line_app s k v a cm : format_line s k v a ++ cm = format_line s k (v ++ cm) a.
  Proof. unfold format_line. rewrite <- !app_assoc. reflexivity. Qed.

  Lemma add_end_line_render level ind key :
    [add_end_line o level ind key] = render_line o (AEnd (level + ind) (upper key)).
  Proof.
    unfold add_end_line, render_line, whitespace, margin. destruct (end_comment o).
    - rewrite <- app_assoc. reflexivity.
    - rewrite app_nil_r. reflexivity.
  Qed.

  Lemma add_start_line_render key level :
    [add_start_line o key level] = render_line o (ALine (level + 1) (upper key)).
  Proof. reflexivity. Qed.

  Lemma type_comment_ref level comments :
    _add_type_comment o level comments = rlines o (a_type_comment level comments).
  Proof.
    unfold _add_type_comment, process_composite_comment, a_type_comment.
    destruct (val_contains comments (Str "__type__")) as [present|e]; cbn [bind]; [|reflexivity].
    destruct present; cbn [negb bind]; [|reflexivity].
    destruct (val_getitem comments (Str "__type__")) as [value|e]; cbn [bind]; [|reflexivity].
    assert (G : forall parts,
               match join (newlinechar o) (map (fun p => whitespace o level 0 ++ p) parts) with
               | [] => Ok []
               | _ :: _ => Ok [join (newlinechar o) (map (fun p => whitespace o level 0 ++ p) parts)]
               end = rlines o (Ok [AComments (level + 0) parts])).
    { intros parts. cbn [rlines]. unfold render_doc. cbn [map concat render_line].
      unfold whitespace, margin.
      destruct (join (newlinechar o) (map (fun p => repeat_str (self_spacer o) (level + 0) ++ p) parts));
        reflexivity. }
    destruct value as [| | | | |l|]; cbn [bind];
      try (apply (G [py_str _])).
    rewrite <- G. unfold format_comment. rewrite map_map. reflexivity.
  Qed.

  Lemma process_dict_lines_ref level L comments l :
    process_dict_lines o level (col o L) comments l = rlines o (a_process_dict_lines q level L comments l).
  Proof.
    induction l as [|[k v] l IH]; cbn [process_dict_lines a_process_dict_lines]; [reflexivity|].
    destruct (is_metadata k); [exact IH|].
    destruct (process_attribute_comment comments k) as [cm|e]; cbn [bind]; [|reflexivity].
    rewrite IH. destruct (a_process_dict_lines q level L comments l) as [rest|e]; cbn [bind rlines]; [|reflexivity].
    rewrite render_doc_cons. cbn [render_line app]. rewrite format_line_app. reflexivity.
  Qed.

  Lemma process_key_dict_ref key d level :
    process_key_dict o key d level = rlines o (a_process_key_dict q key d level).
  Proof.
    unfold process_key_dict, a_process_key_dict. destruct d as [| | | | | |c items]; try reflexivity.
    rewrite type_comment_ref.
    destruct (a_type_comment level (dict_get c (Str "__comments__") items (VDict DPlain []))) as [tc|e];
      cbn [bind rlines]; [|reflexivity].
    unfold process_dict.
    change (if align_values o then compute_aligned_max_indent o (compute_max_key_length items + 2) else 0)
      with (col o (Some (compute_max_key_length items + 2))).
    rewrite process_dict_lines_ref.
    destruct (a_process_dict_lines q level (Some (compute_max_key_length items + 2))
                (dict_get c (Str "__comments__") items (VDict DPlain [])) items) as [body|e];
      cbn [bind rlines]; [|reflexivity].
    rewrite !render_doc_app, !render_doc_one, <- add_start_line_render, <- add_end_line_render. reflexivity.
  Qed.

  Lemma process_config_dict_ref d level :
    process_config_dict o d level = rlines o (a_process_config_dict q d level).
  Proof.
    unfold process_config_dict, a_process_config_dict. destruct d as [| | | | | |c items]; try reflexivity.
    cbn [rlines]. f_equal. induction items as [|kv items IH]; [reflexivity|].
    cbn [map]. rewrite render_doc_cons, <- IH. reflexivity.
  Qed.

  Lemma render_doc_map {A} (f : A -> aline) (g : A -> str) l :
    (forall x, render_line o (f x) = [g x]) -> render_doc o (map f l) = map g l.
  Proof.
    intros H. induction l as [|x l IH]; [reflexivity|]. cbn [map]. rewrite render_doc_cons, H, IH. reflexivity.
  Qed.

  Lemma process_repeated_list_ref key lst level L :
    process_repeated_list o key lst level (col o (Some L))
    = rlines o (a_process_repeated_list q key lst level L).
  Proof.
    unfold process_repeated_list, a_process_repeated_list.
    destruct (py_iter lst) as [l|e]; cbn [bind rlines]; [|reflexivity].
    f_equal. symmetry. apply render_doc_map. intros x. reflexivity.
  Qed.

  Lemma process_projection_ref key lst level pc :
    process_projection o key lst level pc = rlines o (a_process_projection q key lst level pc).
  Proof.
    unfold process_projection, a_process_projection.
    set (head := [add_start_line o key level] ++ match pc with [] => [] | _ => [whitespace o level 2 ++ py_strip pc] end).
    set (ahead := [ALine (level + 1) (upper key)] ++ match pc with [] => [] | _ => [ALine (level + 2) (py_strip pc)] end).
    assert (Hh : head = render_doc o ahead).
    { unfold head, ahead. destruct pc; reflexivity. }
    assert (Fin : forall body abody, body = render_doc o abody ->
              Ok (head ++ body ++ [add_end_line o level 1 key])
              = rlines o (Ok (ahead ++ abody ++ [AEnd (level + 1) (upper key)]))).
    { intros body abody ->. cbn [rlines]. rewrite !render_doc_app, Hh, render_doc_one, <- add_end_line_render.
      reflexivity. }
    destruct lst as [| | | |s| |]; cbn [bind];
      try (apply Fin; reflexivity);
      try (cbn [py_len bind]; reflexivity).
    - (* list *)
      cbn [py_len bind].
      destruct (if length l =? 1
                then do x <- py_index (VList l) 0;
                     match x with VStr s => Ok (str_eqb (upper s) (Str "AUTO")) | _ => Err PyAttributeError end
                else Ok false) as [is_auto|e]; cbn [bind]; [|reflexivity].
      destruct is_auto; [apply Fin; reflexivity|].
      cbn [py_iter bind]. apply Fin. symmetry. apply render_doc_map. intros x. reflexivity.
    - (* dict *)
      cbn [py_len bind].
      destruct (if length items =? 1
                then do x <- py_index (VDict c items) 0;
                     match x with VStr s => Ok (str_eqb (upper s) (Str "AUTO")) | _ => Err PyAttributeError end
                else Ok false) as [is_auto|e]; cbn [bind]; [|reflexivity].
      destruct is_auto; [apply Fin; reflexivity|].
      cbn [py_iter bind]. apply Fin. symmetry. apply render_doc_map. intros x. reflexivity.
  Qed.

  Lemma format_pair_ref level p :
    format_pair (repeat_str (self_spacer o) (level + 2)) p
    = rmap (fun al => match render_line o al with [x] => x | _ => [] end) (a_format_pair level p).
  Proof.
    unfold format_pair, a_format_pair.
    destruct (py_index p 0) as [a|e]; cbn [bind rmap]; [|reflexivity].
    destruct (py_index p 1) as [b|e]; cbn [bind rmap]; reflexivity.
  Qed.

  Lemma a_format_pair_shape level p al :
    a_format_pair level p = Ok al -> exists body, al = ALine (level + 2) body.
  Proof.
    unfold a_format_pair. destruct (py_index p 0) as [a|e]; cbn [bind]; [|discriminate].
    destruct (py_index p 1) as [b|e]; cbn [bind]; [|discriminate]. intros [= <-]. eauto.
  Qed.

  Lemma mapM_format_pair_ref level l :
    mapM (format_pair (repeat_str (self_spacer o) (level + 2))) l
    = rlines o (mapM (a_format_pair level) l).
  Proof.
    induction l as [|p l IH]; cbn [mapM]; [reflexivity|].
    rewrite format_pair_ref. destruct (a_format_pair level p) as [al|e] eqn:E; cbn [bind rmap rlines]; [|reflexivity].
    rewrite IH. destruct (mapM (a_format_pair level) l) as [als|e]; cbn [bind rlines]; [|reflexivity].
    destruct (a_format_pair_shape level p al E) as (body & ->). reflexivity.
  Qed.

  Lemma format_pair_list_ref key pl level :
    format_pair_list o key pl level = rlines o (a_format_pair_list key pl level).
  Proof.
    unfold format_pair_list, a_format_pair_list.
    destruct (py_iter pl) as [l|e]; cbn [bind rlines]; [|reflexivity].
    rewrite mapM_format_pair_ref.
    destruct (mapM (a_format_pair level) l) as [pairs|e]; cbn [bind rlines]; [|reflexivity].
    rewrite !render_doc_app, !render_doc_one, <- add_start_line_render, <- add_end_line_render. reflexivity.
  Qed.

  Lemma mapM_ref {A} (f : A -> res (list str)) (g : A -> res (list aline)) l :
    (forall x, f x = rlines o (g x)) ->
    mapM f l = rmap (map (render_doc o)) (mapM g l).
  Proof.
    intros H. induction l as [|x l IH]; cbn [mapM]; [reflexivity|].
    rewrite H. destruct (g x) as [A0|e]; cbn [bind rlines rmap]; [|reflexivity].
    rewrite IH. destruct (mapM g l) as [As|e]; cbn [bind rmap]; reflexivity.
  Qed.

  Lemma format_repeated_pair_list_ref key root level :
    format_repeated_pair_list o key root level = rlines o (a_format_repeated_pair_list key root level).
  Proof.
    unfold format_repeated_pair_list, a_format_repeated_pair_list.
    destruct (depth root) as [dp|e]; cbn [bind rlines]; [|reflexivity].
    destruct (if dp =? 2 then Ok [root] else py_iter root) as [parts|e]; cbn [bind rlines]; [|reflexivity].
    rewrite (mapM_ref _ (fun pl => a_format_pair_list key pl level)) by (intros x; apply format_pair_list_ref).
    destruct (mapM (fun pl => a_format_pair_list key pl level) parts) as [ls|e]; cbn [bind rmap rlines]; [|reflexivity].
    rewrite render_doc_concat. reflexivity.
  Qed.

  Lemma process_attribute_ref type_ attr v level L :
    process_attribute o type_ attr v level (col o (Some L))
    = rmap (fun al => match render_line o al with [x] => x | _ => [] end)
           (a_process_attribute q sct type_ attr v level L).
  Proof.
    unfold process_attribute, a_process_attribute.
    destruct (get_attribute_properties type_ attr) as [props|e]; cbn [bind rmap]; [|reflexivity].
    rewrite (format_value_quote o (oc q sct)) by reflexivity.
    destruct (format_value (oc q sct) attr props v) as [v1|e]; cbn [bind rmap]; reflexivity.
  Qed.

  Lemma a_process_attribute_shape type_ attr v level L al :
    a_process_attribute q sct type_ attr v level L = Ok al ->
    exists val, al = AKV (level + 1) (Some L) (upper attr) val.
  Proof.
    unfold a_process_attribute.
    destruct (get_attribute_properties type_ attr) as [props|e]; cbn [bind]; [|discriminate].
    destruct (format_value (oc q sct) attr props v) as [v1|e]; cbn [bind]; [|discriminate].
    intros [= <-]. eauto.
  Qed.

  Lemma format_header_ref c items comments level :
    format_header o c items comments level
    = match a_format_header c items comments level with
      | Ok (t, A) => Ok (t, render_doc o A)
      | Err e => Err e
      end.
  Proof.
    unfold format_header, a_format_header.
    destruct (dict_in c (Str "__type__") items); [|reflexivity].
    destruct (dict_getitem c (Str "__type__") items) as [t|e]; cbn [bind]; [|reflexivity].
    destruct t as [| | | |type_| |]; try reflexivity.
    destruct (mem_str type_ all_composite_names); [|reflexivity].
    rewrite type_comment_ref. destruct (a_type_comment level comments) as [tc|e]; cbn [bind rlines]; [|reflexivity].
    rewrite render_doc_app. reflexivity.
  Qed.

  (* ---------------------------------------------------------- the loop body *)
  Definition render_result (a : value * res (list aline * value)) : value * res (list str * value) :=
    (fst a, rlines2 o (snd a)).

  Lemma mapM_rec_ref (rec : value -> res (list str * value)) (arec : value -> res (list aline * value)) vs :
    Forall (fun x => rec x = rlines2 o (arec x)) vs ->
    mapM rec vs = rmap (map (fun r => (render_doc o (fst r), snd r))) (mapM arec vs).
  Proof.
    induction 1 as [|x vs Hx _ IH]; cbn [mapM]; [reflexivity|].
    rewrite Hx. destruct (arec x) as [[A v]|e]; cbn [bind rlines2 rmap fst snd]; [|reflexivity].
    rewrite IH. destruct (mapM arec vs) as [rs|e]; cbn [bind rmap]; reflexivity.
  Qed.

  Lemma bind_rlines_pair (r : res (list aline)) (v : value) :
    (do ls <- rlines o r; Ok (ls, v)) = rlines2 o (do ls <- r; Ok (ls, v)).
  Proof. destruct r; reflexivity. Qed.

  Lemma format_item_ref (rec : value -> res (list str * value)) (arec : value -> res (list aline * value))
        type_ comments level L attr v :
    (is_composite v = true -> rec v = rlines2 o (arec v)) ->
    (forall vs, v = VList vs -> Forall (fun x => rec x = rlines2 o (arec x)) vs) ->
    format_item o rec type_ comments level (col o (Some L)) attr v
    = rlines2 o (a_format_item q sct arec type_ comments level L attr v).
  Proof.
    intros Hc Hl. unfold format_item, a_format_item.
    destruct (is_metadata attr); [reflexivity|].
    destruct (is_hidden_container attr v).
    { destruct v as [| | | | |vs|]; try reflexivity.
      rewrite (mapM_rec_ref rec arec vs (Hl vs eq_refl)).
      destruct (mapM arec vs) as [rs|e]; cbn [bind rmap rlines2 fst snd]; [|reflexivity].
      rewrite render_doc_concat, !map_map. cbn [fst snd]. reflexivity. }
    destruct (str_eqb attr (Str "pattern")).
    { rewrite format_pair_list_ref. apply bind_rlines_pair. }
    destruct (mem_str attr key_dict_names).
    { rewrite process_key_dict_ref. apply bind_rlines_pair. }
    destruct (str_eqb attr (Str "projection")).
    { destruct (process_attribute_comment comments attr) as [pc|e]; cbn [bind]; [|reflexivity].
      rewrite process_projection_ref. apply bind_rlines_pair. }
    destruct (mem_str attr REPEATED_KEYS).
    { rewrite process_repeated_list_ref. apply bind_rlines_pair. }
    destruct (str_eqb attr (Str "points")).
    { rewrite format_repeated_pair_list_ref. apply bind_rlines_pair. }
    destruct (str_eqb attr (Str "config")).
    { rewrite process_config_dict_ref. apply bind_rlines_pair. }
    destruct (is_composite v); [apply Hc; reflexivity|].
    destruct type_ as [|t0 type_]; [reflexivity|].
    rewrite process_attribute_ref.
    destruct (a_process_attribute q sct (t0 :: type_) attr v level L) as [al|e] eqn:E; cbn [bind rmap]; [|reflexivity].
    destruct (process_attribute_comment comments attr) as [cm|e]; cbn [bind rlines2 fst snd]; [|reflexivity].
    destruct (a_process_attribute_shape _ _ _ _ _ _ E) as (val & ->).
    unfold render_doc. cbn [map concat render_line app]. rewrite format_line_app. reflexivity.
  Qed.

  Lemma collect_items_ref l :
    collect_items (mapv render_result l)
    = match a_collect_items l with
      | Ok (A, its) => Ok (render_doc o A, its)
      | Err e => Err e
      end.
  Proof.
    induction l as [|[k [v r]] l IH]; [reflexivity|].
    cbn [mapv map fst snd render_result collect_items a_collect_items]. fold (mapv render_result l).
    destruct r as [[A v']|e]; cbn [rlines2 bind fst snd]; [|reflexivity].
    rewrite IH. destruct (a_collect_items l) as [[A2 its]|e]; cbn [bind fst snd]; [|reflexivity].
    rewrite render_doc_app. reflexivity.
  Qed.

  Lemma format_ref v :
    (forall level, _format o level v = rlines2 o (a_format q sct level v))
    /\ match v with
       | VList l => Forall (fun x => forall level, _format o level x = rlines2 o (a_format q sct level x)) l
       | _ => True
       end.
  Proof.
    induction v as [| | | | |l IH|c items IH] using value_ind'; try (split; [reflexivity|exact I]).
    - split; [reflexivity|]. eapply Forall_impl; [|exact IH]. intros x Hx. apply Hx.
    - split; [|exact I]. intros level. cbn [_format a_format].
      set (comments := dict_get c (Str "__comments__") items (VDict DPlain [])).
      rewrite format_header_ref.
      destruct (a_format_header c items comments level) as [[type_ ahead]|e]; cbn [bind fst snd]; [|reflexivity].
      set (L := compute_max_key_length items).
      change (if align_values o then compute_aligned_max_indent o L else 0) with (col o (Some L)).
      set (aresults := map (fun kv => (fst kv, (snd kv, a_format_item q sct (fun x => a_format q sct (S level) x)
                                                             type_ comments level L (fst kv) (snd kv)))) items).
      assert (Hres : map (fun kv => (fst kv, (snd kv, format_item o (fun x => _format o (S level) x) type_ comments
                                                           level (col o (Some L)) (fst kv) (snd kv)))) items
                     = mapv render_result aresults).
      { unfold aresults, mapv. rewrite map_map. cbn [fst snd]. unfold render_result. cbn [fst snd].
        clear aresults. clearbody L comments. induction IH as [|[k v] items [HQ HL] _ IHl]; [reflexivity|].
        cbn [map fst snd]. rewrite IHl. f_equal. f_equal. f_equal.
        apply format_item_ref.
        - intros _. apply HQ.
        - intros vs ->. eapply Forall_impl; [|exact HL]. intros x Hx. apply Hx. }
      rewrite Hres.
      rewrite (separate_complex_g_mapv o render_result (fun a => fst a)).
      change (fun a : value * res (list aline * value) => fst (render_result a)) with (fun a : value * res (list aline * value) => fst a).
      rewrite (separate_complex_g_sct o (oc q sct)) by reflexivity.
      destruct (separate_complex_g (oc q sct) (fun a : value * res (list aline * value) => fst a) c level aresults)
        as [sorted|e]; cbn [rmap bind]; [|reflexivity].
      rewrite collect_items_ref.
      destruct (a_collect_items sorted) as [[A its]|e]; cbn [bind fst snd]; [|reflexivity].
      destruct type_ as [|t0 type_]; [reflexivity|]. cbn [rlines2 fst snd].
      rewrite !render_doc_app, render_doc_one, <- add_end_line_render. reflexivity.
  Qed.

  Lemma pprint_one_ref v : pprint_one o v = rlines2 o (a_pprint_one q sct v).
  Proof.
    unfold pprint_one, a_pprint_one. destruct v as [| | | | | |c items]; try reflexivity.
    destruct (assoc (kfold_item c (Str "__type__")) items) as [t|]; [|destruct (has_factory c); reflexivity].
    destruct t as [| | | |type_| |]; try apply (proj1 (format_ref _)).
    destruct (mem_str type_ [Str "metadata"; Str "validation"; Str "connectionoptions"]).
    - rewrite process_key_dict_ref. apply bind_rlines_pair.
    - apply (proj1 (format_ref _)).
  Qed.

  Lemma pprint_lines_ref d : pprint_lines o d = rlines2 o (a_pprint q sct d).
  Proof.
    unfold pprint_lines, a_pprint, quote_ok.
    destruct (negb (N.eqb q c_sq || N.eqb q c_dq)); [reflexivity|].
    assert (G : forall v,
               (if truthy v then do r <- pprint_one o v; Ok r
                else match v with VStr _ | VDict _ _ => Ok ([], v) | _ => Err PyTypeError end)
               = rlines2 o (if truthy v then do r <- a_pprint_one q sct v; Ok r
                            else match v with VStr _ | VDict _ _ => Ok ([], v) | _ => Err PyTypeError end)).
    { intros v. destruct (truthy v).
      - rewrite pprint_one_ref. destruct (a_pprint_one q sct v) as [[A x]|e]; reflexivity.
      - destruct v; reflexivity. }
    destruct d as [| | | | |l|]; try apply G.
    rewrite (mapM_rec_ref (pprint_one o) (a_pprint_one q sct) l)
      by (apply Forall_forall; intros x _; apply pprint_one_ref).
    destruct (mapM (a_pprint_one q sct) l) as [rs|e]; cbn [bind rmap rlines2 fst snd]; [|reflexivity].
    rewrite render_doc_concat, !map_map. cbn [fst snd]. reflexivity.
  Qed.
End Refine.

(* ------------------------------------------------------------ the factorisation theorem *)
Theorem pprint_factors :
  forall o d,
    pprint o d =
    match a_pprint (quote o) (separate_complex_types o) d with
    | Ok (A, d') => Ok (render o A, d')
    | Err e => Err e
    end.
Proof.
  intros o d. unfold pprint. rewrite pprint_lines_ref.
  destruct (a_pprint (quote o) (separate_complex_types o) d) as [[A d']|e]; reflexivity.
Qed.

(* the options that are not layout *)
Definition same_content_opts (o o' : opts) : Prop :=
  quote o = quote o' /\ separate_complex_types o = separate_complex_types o'.

(* success, the exception raised and the dictionary left behind do not depend on
   indent, spacer, newlinechar, end_comment, align_values *)
Theorem pprint_outcome_layout_independent :
  forall o o' d,
    same_content_opts o o' ->
    match pprint o d, pprint o' d with
    | Ok (_, d1), Ok (_, d2) => d1 = d2
    | Err e1, Err e2 => e1 = e2
    | _, _ => False
    end.
Proof.
  intros o o' d [Hq Hs]. rewrite !pprint_factors, <- Hq, <- Hs.
  destruct (a_pprint (quote o) (separate_complex_types o) d) as [[A d']|e]; reflexivity.
Qed.

Theorem pprint_succeed_together :
  forall o o' d s d1,
    same_content_opts o o' -> pprint o d = Ok (s, d1) ->
    exists A, a_pprint (quote o) (separate_complex_types o) d = Ok (A, d1)
              /\ s = render o A /\ pprint o' d = Ok (render o' A, d1).
Proof.
  intros o o' d s d1 [Hq Hs] H. rewrite pprint_factors in H. rewrite (pprint_factors o'), <- Hq, <- Hs.
  destruct (a_pprint (quote o) (separate_complex_types o) d) as [[A d']|e]; [|discriminate].
  injection H as <- <-. exists A. repeat split.
Qed.
