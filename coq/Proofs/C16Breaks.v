(* C16, clause "every line break is newlinechar": no function of the printer
   introduces a line break; break-freeness of every building block. *)
From MF Require Import Lib.Base Lib.PyDict Lib.Json Gen.Tokens Gen.Unicode Model.Case Model.Quoter Model.PPrint
  Spec.Layout Proofs.CaseFacts Proofs.PPrintFacts Proofs.C16.
Open Scope nat_scope.

Notation nb s := (no_break s = true).

Lemma nb_app a b : no_break (a ++ b) = no_break a && no_break b.
Proof. apply forallb_app. Qed.

Lemma nb_app_intro a b : nb a -> nb b -> nb (a ++ b).
Proof. intros Ha Hb. rewrite nb_app, Ha, Hb. reflexivity. Qed.

Lemma nb_cons c s : is_break c = false -> nb s -> nb (c :: s).
Proof. intros Hc Hs. cbn [no_break forallb]. rewrite Hc. exact Hs. Qed.

Lemma nb_repeat s n : nb s -> nb (repeat_str s n).
Proof. intros H. induction n as [|n IH]; [reflexivity|]. cbn [repeat_str]. apply nb_app_intro; assumption. Qed.

Lemma nb_join sep l : nb sep -> Forall (fun s => nb s) l -> nb (join sep l).
Proof.
  intros Hs H. induction H as [|x l Hx Hl IH]; [reflexivity|]. cbn [join].
  destruct l; [exact Hx|]. apply nb_app_intro; [exact Hx|apply nb_app_intro; assumption].
Qed.

Lemma nb_flat_map (f : N -> list N) s :
  (forall c, is_break c = false -> nb (f c)) -> nb s -> nb (flat_map f s).
Proof.
  intros Hf. induction s as [|c s IH]; [reflexivity|]. cbn [no_break forallb flat_map].
  intros H. apply andb_true_iff in H. destruct H as [Hc Hs]. apply negb_true_iff in Hc.
  apply nb_app_intro; [apply Hf; exact Hc|apply IH; exact Hs].
Qed.

Lemma nb_In s c : nb s -> In c s -> is_break c = false.
Proof.
  unfold no_break. rewrite forallb_forall. intros H Hin. apply negb_true_iff. apply H. exact Hin.
Qed.

Lemma nb_of_Forall (P : N -> Prop) s :
  (forall c, P c -> is_break c = false) -> Forall P s -> nb s.
Proof.
  intros HP H. unfold no_break. apply forallb_forall. intros c Hc. apply negb_true_iff. apply HP.
  rewrite Forall_forall in H. apply H. exact Hc.
Qed.

Lemma nb_firstn n s : nb s -> nb (firstn n s).
Proof.
  revert n; induction s as [|c s IH]; intros [|n] H; cbn [firstn]; try reflexivity.
  cbn [no_break forallb] in *. apply andb_true_iff in H. destruct H as [Hc Hs].
  rewrite Hc. apply IH. exact Hs.
Qed.

Lemma nb_skipn n s : nb s -> nb (skipn n s).
Proof.
  revert n; induction s as [|c s IH]; intros [|n] H; cbn [skipn]; try reflexivity; try exact H.
  cbn [no_break forallb] in H. apply andb_true_iff in H. apply IH. tauto.
Qed.

Lemma nb_tl s : nb s -> nb (tl s).
Proof. destruct s; [reflexivity|]. cbn [tl no_break forallb]. intros H. apply andb_true_iff in H. tauto. Qed.

Lemma nb_removelast s : nb s -> nb (removelast s).
Proof.
  induction s as [|c s IH]; [reflexivity|]. intros H. cbn [removelast].
  destruct s; [reflexivity|]. cbn [no_break forallb] in *. apply andb_true_iff in H. destruct H as [Hc Hs].
  rewrite Hc. apply IH. exact Hs.
Qed.

(* ------------------------------------------------------------ upper *)
Definition upper_table_nb : bool := forallb (fun e => no_break (snd e)) upper_table.
Lemma upper_table_nb_ok : upper_table_nb = true.
Proof. vm_compute. reflexivity. Qed.

Lemma nb_upper_cp c : is_break c = false -> nb (upper_cp c).
Proof.
  intros Hc. unfold upper_cp, case_cp. destruct (c <? 128)%N.
  - unfold upper_ascii. destruct ((97 <=? c) && (c <=? 122))%N eqn:E.
    + apply andb_true_iff in E. destruct E as [E1 E2]. apply N.leb_le in E1, E2.
      cbn [no_break forallb]. unfold is_break.
      destruct (N.eqb_spec (c - 32) 10); [lia|]. destruct (N.eqb_spec (c - 32) 13); [lia|]. reflexivity.
    + cbn [no_break forallb]. rewrite Hc. reflexivity.
  - destruct (lookup_cp c upper_table) as [img|] eqn:L.
    + apply lookup_cp_In in L. pose proof upper_table_nb_ok as H. unfold upper_table_nb in H.
      rewrite forallb_forall in H. apply (H _ L).
    + cbn [no_break forallb]. rewrite Hc. reflexivity.
Qed.

Lemma nb_upper s : nb s -> nb (upper s).
Proof. apply nb_flat_map. exact nb_upper_cp. Qed.

(* ------------------------------------------------------------ numbers *)
Lemma digit_nb c : digit c -> is_break c = false.
Proof.
  unfold digit, is_break. intros H.
  destruct (N.eqb_spec c 10); [lia|]. destruct (N.eqb_spec c 13); [lia|]. reflexivity.
Qed.

Lemma digits_N_digits n : Forall digit (digits_N n).
Proof. unfold digits_N. apply digits_fuel_digits. constructor. Qed.

Lemma nb_digits n : nb (digits_N n).
Proof. apply (nb_of_Forall digit); [exact digit_nb|apply digits_N_digits]. Qed.

Lemma nb_py_str_int z : nb (py_str_int z).
Proof.
  destruct z; cbn [py_str_int]; [reflexivity|apply nb_digits|].
  apply nb_cons; [reflexivity|apply nb_digits].
Qed.

Lemma nb_zeros n : nb (zeros n).
Proof. apply nb_repeat. reflexivity. Qed.

Lemma nb_py_float_repr m e : nb (py_float_repr m e).
Proof.
  unfold py_float_repr.
  pose proof (nb_digits (Z.abs_N m)) as Hd.
  set (ds := digits_N (Z.abs_N m)) in *.
  set (n := Z.of_nat (length ds)). set (decpt := (n + e)%Z).
  set (sign := if (m <? 0)%Z then [45%N] else []).
  assert (Hs : nb sign) by (unfold sign; destruct (m <? 0)%Z; reflexivity).
  destruct (m =? 0)%Z; [reflexivity|].
  destruct ((decpt <=? -4)%Z || (16 <? decpt)%Z)%bool.
  - apply nb_app_intro; [exact Hs|]. apply nb_app_intro.
    + destruct ds as [|d rest]; [reflexivity|].
      cbn [no_break forallb] in Hd. apply andb_true_iff in Hd. destruct Hd as [H1 H2].
      cbn [no_break forallb]. rewrite H1. destruct rest; [reflexivity|].
      apply nb_cons; [reflexivity|exact H2].
    + apply nb_app_intro; [reflexivity|].
      apply nb_app_intro; [destruct (decpt - 1 <? 0)%Z; reflexivity|].
      pose proof (nb_digits (Z.abs_N (decpt - 1))) as Hx.
      destruct (digits_N (Z.abs_N (decpt - 1))) as [|a [|b r]]; exact Hx.
  - destruct (decpt <=? 0)%Z.
    + apply nb_app_intro; [exact Hs|]. apply nb_app_intro; [reflexivity|].
      apply nb_app_intro; [apply nb_zeros|exact Hd].
    + destruct (n <=? decpt)%Z.
      * apply nb_app_intro; [exact Hs|]. apply nb_app_intro; [exact Hd|].
        apply nb_app_intro; [apply nb_zeros|reflexivity].
      * apply nb_app_intro; [exact Hs|]. apply nb_app_intro; [apply nb_firstn; exact Hd|].
        apply nb_app_intro; [reflexivity|apply nb_skipn; exact Hd].
Qed.

(* repr of a string escapes line breaks *)
Lemma nb_hex_digit n : is_break (hex_digit n) = false.
Proof.
  unfold hex_digit, is_break. destruct (N.ltb_spec n 10).
  - destruct (N.eqb_spec (48 + n) 10); [lia|]. destruct (N.eqb_spec (48 + n) 13); [lia|]. reflexivity.
  - destruct (N.eqb_spec (87 + n) 10); [lia|]. destruct (N.eqb_spec (87 + n) 13); [lia|]. reflexivity.
Qed.

Lemma nb_hex2 c : nb (hex2 c).
Proof. unfold hex2. cbn [no_break forallb]. rewrite !nb_hex_digit. reflexivity. Qed.

Lemma nb_hex4 c : nb (hex4 c).
Proof. unfold hex4. apply nb_app_intro; apply nb_hex2. Qed.

Lemma nb_hex8 c : nb (hex8 c).
Proof. unfold hex8. apply nb_app_intro; apply nb_hex4. Qed.

Lemma nb_repr_char q c : is_break q = false -> nb (repr_char q c).
Proof.
  intros Hq. unfold repr_char.
  destruct ((c =? q) || (c =? c_bs))%N eqn:E1.
  { apply nb_cons; [reflexivity|]. apply orb_true_iff in E1.
    destruct E1 as [E|E]; apply N.eqb_eq in E; subst c; cbn [no_break forallb]; [rewrite Hq|]; reflexivity. }
  destruct (c =? 9)%N; [reflexivity|].
  destruct (N.eqb_spec c 10) as [|N10]; [reflexivity|].
  destruct (N.eqb_spec c 13) as [|N13]; [reflexivity|].
  assert (Hc : is_break c = false).
  { unfold is_break. destruct (N.eqb_spec c 10); [contradiction|]. destruct (N.eqb_spec c 13); [contradiction|]. reflexivity. }
  destruct ((c <? 32) || (c =? 127))%N; [apply nb_app_intro; [reflexivity|apply nb_hex2]|].
  destruct (c <? 127)%N; [cbn [no_break forallb]; rewrite Hc; reflexivity|].
  destruct (nonprintable_approx c); [|cbn [no_break forallb]; rewrite Hc; reflexivity].
  destruct (c <? 256)%N; [apply nb_app_intro; [reflexivity|apply nb_hex2]|].
  destruct (c <? 65536)%N; apply nb_app_intro; try reflexivity; [apply nb_hex4|apply nb_hex8].
Qed.

Lemma nb_py_repr_str s : nb (py_repr_str s).
Proof.
  unfold py_repr_str.
  set (q := if has_char c_sq s && negb (has_char c_dq s) then c_dq else c_sq).
  assert (Hq : is_break q = false) by (unfold q; destruct (_ && _); reflexivity).
  apply nb_cons; [exact Hq|]. apply nb_app_intro; [|cbn [no_break forallb]; rewrite Hq; reflexivity].
  clearbody q. induction s as [|c s IH]; [reflexivity|]. cbn [flat_map]. apply nb_app_intro; [apply nb_repr_char; exact Hq|exact IH].
Qed.

Lemma nb_py_repr_scalar v : scalar_nb v = true -> nb (py_repr v).
Proof.
  destruct v as [|[]| | | | |]; cbn [scalar_nb py_repr]; try discriminate; intros _; try reflexivity.
  - apply nb_py_str_int.
  - apply nb_py_float_repr.
  - apply nb_py_repr_str.
Qed.

Lemma nb_py_str_scalar v : scalar_nb v = true -> nb (py_str v).
Proof.
  destruct v; try (apply nb_py_repr_scalar). cbn [scalar_nb py_str]. tauto.
Qed.

Lemma nb_py_repr_list l : forallb scalar_nb l = true -> nb (py_repr (VList l)).
Proof.
  intros H. cbn [py_repr]. apply nb_cons; [reflexivity|]. apply nb_app_intro; [|reflexivity].
  induction l as [|x l IH]; [reflexivity|]. cbn [forallb] in H. apply andb_true_iff in H. destruct H as [Hx Hl].
  destruct l as [|y l'].
  - apply nb_py_repr_scalar. exact Hx.
  - apply nb_app_intro; [apply nb_py_repr_scalar; exact Hx|]. apply nb_app_intro; [reflexivity|].
    apply IH. exact Hl.
Qed.

Lemma nb_py_str_flat v : flat_nb v = true -> nb (py_str v).
Proof.
  unfold flat_nb. intros H. apply orb_true_iff in H. destruct H as [H|H].
  - apply nb_py_str_scalar. exact H.
  - destruct v; try discriminate. apply nb_py_repr_list. exact H.
Qed.

(* numeric trees (POINTS / PATTERN) *)
Lemma nb_py_repr_num v : num_tree v = true -> nb (py_repr v).
Proof.
  induction v as [| | | | |l IH|] using value_ind'; cbn [num_tree]; try discriminate; intros H.
  - apply nb_py_str_int.
  - apply nb_py_float_repr.
  - cbn [py_repr]. apply nb_cons; [reflexivity|]. apply nb_app_intro; [|reflexivity].
    induction IH as [|x l Hx _ IH2]; [reflexivity|]. cbn [forallb] in H.
    apply andb_true_iff in H. destruct H as [H1 H2]. destruct l as [|y l'].
    + apply Hx. exact H1.
    + apply nb_app_intro; [apply Hx; exact H1|]. apply nb_app_intro; [reflexivity|]. apply IH2. exact H2.
Qed.

Lemma nb_py_str_num v : num_tree v = true -> nb (py_str v).
Proof. intros H. destruct v; try (apply nb_py_repr_num; exact H). discriminate H. Qed.

(* ------------------------------------------------------------ quoter *)
Section Q.
  Variable q : N.
  Hypothesis Hq : is_break q = false.

  Lemma nb_add_quotes s : nb s -> nb (add_quotes q s).
  Proof.
    intros H. unfold add_quotes, _add_quotes. apply nb_cons; [exact Hq|].
    apply nb_app_intro; [exact H|]. cbn [no_break forallb]. rewrite Hq. reflexivity.
  Qed.

  Lemma nb_unescape_q s : nb s -> nb (unescape_q q s).
  Proof.
    assert (G : forall n s, length s <= n -> nb s -> nb (unescape_q q s)).
    { induction n as [|n IH]; intros s0 Hl H0.
      - destruct s0; [reflexivity|cbn in Hl; lia].
      - destruct s0 as [|c [|d s2]]; [reflexivity|exact H0|].
        change (unescape_q q (c :: d :: s2))
          with (if ((c =? c_bs) && (d =? q))%N then q :: unescape_q q s2 else c :: unescape_q q (d :: s2)).
        cbn [no_break forallb] in H0.
        apply andb_true_iff in H0. destruct H0 as [Hc H0]. apply andb_true_iff in H0. destruct H0 as [Hd H2].
        cbn [length] in Hl.
        destruct ((c =? c_bs) && (d =? q))%N.
        + apply nb_cons; [exact Hq|]. apply IH; [lia|exact H2].
        + apply nb_cons; [apply negb_true_iff; exact Hc|]. apply IH; [cbn [length]; lia|].
          cbn [no_break forallb]. rewrite Hd. exact H2. }
    intros H. apply (G (length s) s (le_n _) H).
  Qed.

  Lemma nb_escape_q s : nb s -> nb (escape_q q s).
  Proof.
    induction s as [|c s IH]; [reflexivity|]. cbn [no_break forallb escape_q]. intros H.
    apply andb_true_iff in H. destruct H as [Hc Hs]. destruct (c =? q)%N.
    - apply nb_cons; [reflexivity|]. apply nb_cons; [exact Hq|]. apply IH. exact Hs.
    - cbn [no_break forallb]. rewrite Hc. apply IH. exact Hs.
  Qed.

  Lemma nb_remove_quotes_s s : nb s -> nb (remove_quotes_s q s).
  Proof.
    intros H. unfold remove_quotes_s. destruct (in_quotes q s); [|exact H].
    unfold strip_ends. apply nb_removelast, nb_tl. exact H.
  Qed.

  Lemma nb_escape_quotes_s s : nb s -> nb (escape_quotes_s q s).
  Proof.
    intros H. unfold escape_quotes_s. destruct (_in_quotes s q); [|exact H].
    apply nb_add_quotes, nb_escape_q, nb_unescape_q, nb_remove_quotes_s. exact H.
  Qed.
End Q.

Lemma quote_nb o : quote_ok o = true -> is_break (quote o) = false.
Proof. intros H. destruct (quote_cases o H) as [-> | ->]; reflexivity. Qed.

(* ------------------------------------------------------------ format_value *)
Section FV.
  Variable o : opts.
  Hypothesis Hquote : quote_ok o = true.
  Let Hq := quote_nb o Hquote.

  Lemma nb_check_options_list opts_list s : nb s -> nb (check_options_list o opts_list s).
  Proof.
    intros H. unfold check_options_list.
    assert (G : forall r, check_options_loop o opts_list s = Some r -> nb r).
    { induction opts_list as [|op rest IH]; cbn [check_options_loop]; [discriminate|]. intros r.
      destruct (jhas _ _ && _).
      - destruct (str_eqb _ _); intros [= <-]; [apply nb_add_quotes; assumption|apply nb_upper; exact H].
      - destruct (_ && _); [intros [= <-]; exact H|apply IH]. }
    destruct (check_options_loop o opts_list s) as [r|]; [apply G; reflexivity|].
    destruct (in_slashes s); [exact H|apply nb_add_quotes; assumption].
  Qed.

  Lemma nb_add_quotes_v v : flat_nb v = true -> nb (add_quotes_v (quote o) v).
  Proof. intros H. unfold add_quotes_v. apply nb_add_quotes; [exact Hq|apply nb_py_str_flat; exact H]. Qed.

  Lemma scalar_flat v : scalar_nb v = true -> flat_nb v = true.
  Proof. intros H. unfold flat_nb. rewrite H. reflexivity. Qed.

  Lemma py_str_VStr x : py_str (VStr x) = x.
  Proof. reflexivity. Qed.

  Lemma nb_enum_arm (cmp : bool) v v1 :
    (if is_number v then Ok v
     else if cmp then Ok (VStr (add_quotes_v (quote o) v)) else Ok (VStr (upper (py_str v)))) = Ok v1 ->
    flat_nb v = true -> nb (py_str v1).
  Proof.
    intros H Hf. destruct (is_number v); [injection H as <-; apply nb_py_str_flat; exact Hf|].
    destruct cmp; injection H as <-; rewrite py_str_VStr;
      [apply nb_add_quotes_v; exact Hf|apply nb_upper, nb_py_str_flat; exact Hf].
  Qed.

  Lemma nb_escape_quotes v : nb (py_str v) -> nb (py_str (escape_quotes (quote o) v)).
  Proof.
    destruct v; try tauto. cbn [escape_quotes]. rewrite !py_str_VStr. apply nb_escape_quotes_s. exact Hq.
  Qed.

  Lemma nb_list_arm attr l : forallb scalar_nb l = true ->
    nb (join [c_sp] (map (quote_list_element o attr) l)).
  Proof.
    intros Hf. apply nb_join; [reflexivity|].
    apply Forall_forall. intros x Hx. apply in_map_iff in Hx. destruct Hx as (y & <- & Hy).
    rewrite forallb_forall in Hf. unfold quote_list_element.
    destruct (_ && _); [apply nb_add_quotes_v; apply scalar_flat; apply Hf; exact Hy
                       |apply nb_py_str_scalar; apply Hf; exact Hy].
  Qed.

  Lemma nb_format_value attr props v v1 :
    format_value o attr props v = Ok v1 -> flat_nb v = true -> nb (py_str v1).
  Proof.
    intros H Hf. unfold format_value in H.
    assert (Hv : nb (py_str v)) by (apply nb_py_str_flat; exact Hf).
    destruct (mem_str (Str "enum") (jkeys props)).
    { pose (cmp := str_eqb attr (Str "compop")).
      destruct v as [|b|z|m e|s|l|c its].
      - exact (nb_enum_arm cmp VNone v1 H Hf).
      - injection H as <-. rewrite py_str_VStr. apply nb_upper. exact Hv.
      - exact (nb_enum_arm cmp (VInt z) v1 H Hf).
      - exact (nb_enum_arm cmp (VFloat m e) v1 H Hf).
      - exact (nb_enum_arm cmp (VStr s) v1 H Hf).
      - exact (nb_enum_arm cmp (VList l) v1 H Hf).
      - destruct its as [|kv its]; [discriminate|]. exact (nb_enum_arm cmp (VDict c (kv :: its)) v1 H Hf). }
    destruct (match jget (Str "type") props with Some (JStr t) => str_eqb t (Str "string") | _ => false end).
    { destruct (is_expression props).
      - destruct v as [|b| | |s|l|c its]; try discriminate.
        + injection H as <-. rewrite py_str_VStr. apply nb_upper. exact Hv.
        + destruct (in_slashes s); [injection H as <-; exact Hv|].
          destruct (ends_ci_flag s); injection H as <-; [exact Hv|].
          rewrite py_str_VStr. apply nb_add_quotes; [exact Hq|exact Hv].
      - destruct v as [|b| | |s|l|c its];
          try (injection H as <-; rewrite py_str_VStr; apply nb_add_quotes_v; exact Hf).
        injection H as <-. rewrite py_str_VStr. apply nb_upper. exact Hv. }
    destruct v as [|b| | |s|l|c its].
    - destruct (_ || _); injection H as <-; exact Hv.
    - injection H as <-. rewrite py_str_VStr. apply nb_upper. exact Hv.
    - destruct (_ || _); injection H as <-; exact Hv.
    - destruct (_ || _); injection H as <-; exact Hv.
    - rewrite py_str_VStr in Hv.
      assert (Fin : forall x, nb x -> nb (py_str (escape_quotes (quote o) (VStr x)))).
      { intros x Hx. cbn [escape_quotes]. rewrite py_str_VStr. apply nb_escape_quotes_s; [exact Hq|exact Hx]. }
      destruct (_ || _); [|injection H as <-; apply Fin; exact Hv].
      destruct (in_parenthesis s); [injection H as <-; apply Fin; exact Hv|].
      destruct (_ && in_braces s); [injection H as <-; apply Fin; exact Hv|].
      destruct (_ && in_brackets s); [injection H as <-; apply Fin; exact Hv|].
      destruct (_ && _); injection H as <-; apply Fin.
      + change (nb (Str "NOT " ++ skipn 4 s)). apply nb_app_intro; [reflexivity|apply nb_skipn; exact Hv].
      + apply nb_check_options_list. exact Hv.
    - assert (Hl : forallb scalar_nb l = true) by (unfold flat_nb in Hf; cbn [scalar_nb orb] in Hf; exact Hf).
      destruct (_ || _); injection H as <-; rewrite py_str_VStr; apply nb_list_arm; exact Hl.
    - unfold flat_nb in Hf. cbn in Hf. discriminate Hf.
  Qed.
End FV.

(* ------------------------------------------------------------ every printed line is break-free *)
Section Lines.
  Variable o : opts.
  Hypothesis Hquote : quote_ok o = true.
  Hypothesis Hspacer : nb (spacer o).
  Let Hq := quote_nb o Hquote.

  Notation all_nb := (Forall (fun s : str => nb s)).

  Lemma nb_whitespace level ind : nb (whitespace o level ind).
  Proof. unfold whitespace, self_spacer. apply nb_repeat, nb_repeat. exact Hspacer. Qed.

  Lemma nb_format_line sp key value a : nb sp -> nb key -> nb value -> nb (format_line sp key value a).
  Proof.
    intros H1 H2 H3. unfold format_line. apply nb_app_intro; [exact H1|]. apply nb_app_intro; [exact H2|].
    apply nb_app_intro; [apply nb_repeat; reflexivity|exact H3].
  Qed.

  Lemma nb_add_start_line key level : nb (upper key) -> nb (add_start_line o key level).
  Proof. intros H. unfold add_start_line. apply nb_app_intro; [apply nb_whitespace|exact H]. Qed.

  Lemma nb_add_end_line level ind key : nb (upper key) -> nb (add_end_line o level ind key).
  Proof.
    intros H. unfold add_end_line. destruct (end_comment o).
    - apply nb_app_intro; [apply nb_app_intro; [apply nb_whitespace|reflexivity]|].
      apply nb_app_intro; [reflexivity|exact H].
    - apply nb_app_intro; [apply nb_whitespace|reflexivity].
  Qed.

  Lemma all_nb_app a b : all_nb a -> all_nb b -> all_nb (a ++ b).
  Proof. intros Ha Hb. apply Forall_app. split; assumption. Qed.

  Lemma all_nb_concat ls : Forall all_nb ls -> all_nb (concat ls).
  Proof. induction 1; cbn [concat]; [constructor|apply all_nb_app; assumption]. Qed.

  Lemma format_pair_list_nb key v level ls :
    format_pair_list o key v level = Ok ls -> num_tree v = true -> nb (upper key) -> all_nb ls.
  Proof.
    unfold format_pair_list. intros H Hn Hk.
    apply bind_Ok in H. destruct H as (l & Hl & H). apply bind_Ok in H. destruct H as (pairs & Hp & H).
    injection H as <-.
    constructor; [apply nb_add_start_line; exact Hk|].
    apply all_nb_app; [|constructor; [apply nb_add_end_line; exact Hk|constructor]].
    assert (Hall : Forall (fun p => num_tree p = true) l).
    { destruct v; cbn [py_iter num_tree] in *; try discriminate.
      injection Hl as <-. apply Forall_forall. rewrite forallb_forall in Hn. exact Hn. }
    apply mapM_Ok in Hp. clear Hl.
    induction Hp as [|p line l' ls' Hpl _ IH]; [constructor|].
    inversion Hall as [|? ? Hp1 Hall']; subst. constructor; [|apply IH; exact Hall'].
    unfold format_pair in Hpl. apply bind_Ok in Hpl. destruct Hpl as (a & Ha & Hpl).
    apply bind_Ok in Hpl. destruct Hpl as (b & Hb & Hpl). injection Hpl as <-.
    assert (Hel : forall n x, py_index p n = Ok x -> num_tree x = true).
    { intros n x Hx. destruct p; cbn [num_tree py_index] in *; try discriminate.
      destruct (nth_error l n) eqn:E; [|discriminate]. injection Hx as ->.
      apply nth_error_In in E. rewrite forallb_forall in Hp1. apply Hp1. exact E. }
    apply nb_app_intro; [apply (nb_whitespace level 2)|].
    apply nb_app_intro; [apply nb_py_str_num; apply (Hel 0 a Ha)|].
    apply nb_cons; [reflexivity|apply nb_py_str_num; apply (Hel 1 b Hb)].
  Qed.

  Lemma format_repeated_pair_list_nb key v level ls :
    format_repeated_pair_list o key v level = Ok ls -> num_tree v = true -> nb (upper key) -> all_nb ls.
  Proof.
    unfold format_repeated_pair_list. intros H Hn Hk.
    apply bind_Ok in H. destruct H as (dp & _ & H). apply bind_Ok in H. destruct H as (parts & Hp & H).
    apply bind_Ok in H. destruct H as (lss & Hl & H). injection H as <-.
    apply all_nb_concat. apply mapM_Ok in Hl.
    assert (Hall : Forall (fun p => num_tree p = true) parts).
    { destruct (dp =? 2).
      - injection Hp as <-. constructor; [exact Hn|constructor].
      - destruct v; cbn [py_iter num_tree] in *; try discriminate.
        injection Hp as <-. apply Forall_forall. rewrite forallb_forall in Hn. exact Hn. }
    clear Hp. induction Hl as [|p x l' ls' Hpx _ IH]; [constructor|].
    inversion Hall; subst. constructor; [|apply IH; assumption].
    eapply format_pair_list_nb; eassumption.
  Qed.

  Lemma kv_entries c kvs : kv_nb (VDict c kvs) = true ->
    no_comments kvs = true /\ forall k v, In (k, v) kvs -> nb k /\ scalar_nb v = true.
  Proof.
    cbn [kv_nb]. intros H. apply andb_true_iff in H. destruct H as [H1 H2]. split; [exact H1|].
    intros k v Hin. rewrite forallb_forall in H2. specialize (H2 _ Hin). cbn [fst snd] in H2.
    apply andb_true_iff in H2. exact H2.
  Qed.

  Lemma process_dict_lines_nb level aligned l ls :
    process_dict_lines o level aligned no_cm l = Ok ls ->
    (forall k v, In (k, v) l -> nb k /\ scalar_nb v = true) -> all_nb ls.
  Proof.
    revert ls; induction l as [|[k v] l IH]; intros ls H Hall; cbn [process_dict_lines] in H.
    - injection H as <-. constructor.
    - assert (Hrest : forall k0 v0, In (k0, v0) l -> nb k0 /\ scalar_nb v0 = true)
        by (intros k0 v0 Hin; apply Hall; right; exact Hin).
      destruct (is_metadata k); [apply IH; assumption|].
      rewrite attr_comment_none in H. cbn [bind] in H.
      apply bind_Ok in H. destruct H as (rest & Hr & H). injection H as <-.
      destruct (Hall k v (or_introl eq_refl)) as [Hk Hv].
      constructor; [|apply IH; assumption]. rewrite app_nil_r.
      apply nb_format_line; [apply nb_whitespace|apply nb_add_quotes; assumption|].
      apply nb_add_quotes_v; [exact Hquote|apply scalar_flat; exact Hv].
  Qed.

  Lemma process_key_dict_nb key v level ls :
    process_key_dict o key v level = Ok ls -> kv_nb v = true -> nb (upper key) -> all_nb ls.
  Proof.
    unfold process_key_dict. destruct v as [| | | | | |c kvs]; try discriminate. intros H Hkv Hk.
    destruct (kv_entries _ _ Hkv) as [Hn Hall].
    fold (comments_of c kvs) in H. rewrite (comments_of_none c kvs Hn) in H.
    rewrite type_comment_none in H. cbn [bind] in H.
    apply bind_Ok in H. destruct H as (body & Hb & H). injection H as <-. cbn [app].
    constructor; [apply nb_add_start_line; exact Hk|].
    apply all_nb_app; [|constructor; [apply nb_add_end_line; exact Hk|constructor]].
    unfold process_dict in Hb. eapply process_dict_lines_nb; eassumption.
  Qed.

  Lemma process_config_dict_nb v level ls :
    process_config_dict o v level = Ok ls -> kv_nb v = true -> all_nb ls.
  Proof.
    unfold process_config_dict. destruct v as [| | | | | |c kvs]; try discriminate. intros [= <-] Hkv.
    destruct (kv_entries _ _ Hkv) as [_ Hall].
    apply Forall_forall. intros x Hx. apply in_map_iff in Hx. destruct Hx as ([k v] & <- & Hin).
    destruct (Hall k v Hin) as [Hk Hv]. cbn [fst snd].
    apply nb_format_line; [apply nb_whitespace| |apply nb_add_quotes_v; [exact Hquote|apply scalar_flat; exact Hv]].
    change (nb (Str "CONFIG " ++ add_quotes (quote o) (upper k))).
    apply nb_app_intro; [reflexivity|]. apply nb_add_quotes; [exact Hq|apply nb_upper; exact Hk].
  Qed.

  Lemma process_repeated_list_nb key v level aligned ls :
    process_repeated_list o key v level aligned = Ok ls ->
    match v with VList l => forallb scalar_nb l = true | _ => False end -> nb (upper key) -> all_nb ls.
  Proof.
    unfold process_repeated_list. destruct v as [| | | | |l|]; try contradiction. intros H Hl Hk.
    cbn [py_iter bind] in H. injection H as <-.
    apply Forall_forall. intros x Hx. apply in_map_iff in Hx. destruct Hx as (y & <- & Hin).
    rewrite forallb_forall in Hl.
    apply nb_format_line; [apply nb_whitespace|exact Hk|].
    apply nb_add_quotes_v; [exact Hquote|apply scalar_flat; apply Hl; exact Hin].
  Qed.

  Lemma process_projection_nb key v level ls :
    process_projection o key v level [] = Ok ls -> flat_nb v = true -> nb (upper key) -> all_nb ls.
  Proof.
    unfold process_projection. intros H Hf Hk.
    apply bind_Ok in H. destruct H as (body & Hb & H). injection H as <-. cbn [app].
    constructor; [apply nb_add_start_line; exact Hk|].
    apply all_nb_app; [|constructor; [apply nb_add_end_line; exact Hk|constructor]].
    assert (Hws : nb (whitespace o level 2)) by apply nb_whitespace.
    destruct v as [| | | |s|l|].
    all: try (apply bind_Ok in Hb; destruct Hb as (n & Hn & _); discriminate Hn).
    - injection Hb as <-. constructor; [|constructor]. apply nb_app_intro; [exact Hws|].
      apply nb_add_quotes; [exact Hq|]. apply (nb_py_str_flat (VStr s)). exact Hf.
    - apply bind_Ok in Hb. destruct Hb as (n & Hn & Hb).
      apply bind_Ok in Hb. destruct Hb as (is_auto & Ha & Hb). destruct is_auto.
      + injection Hb as <-. constructor; [|constructor]. apply nb_app_intro; [exact Hws|reflexivity].
      + cbn [py_iter bind] in Hb. injection Hb as <-.
        assert (Hl : forallb scalar_nb l = true) by (unfold flat_nb in Hf; cbn [scalar_nb orb] in Hf; exact Hf).
        rewrite forallb_forall in Hl.
        apply Forall_forall. intros x Hx. apply in_map_iff in Hx. destruct Hx as (y & <- & Hin).
        apply nb_app_intro; [exact Hws|]. apply nb_add_quotes_v; [exact Hquote|apply scalar_flat; apply Hl; exact Hin].
    - unfold flat_nb in Hf. cbn in Hf. discriminate Hf.
  Qed.

  Lemma keyword_line_nb type_ k v level aligned line :
    process_attribute o type_ k v level aligned = Ok line -> nb k -> flat_nb v = true -> nb line.
  Proof.
    unfold process_attribute. intros H Hk Hf.
    apply bind_Ok in H. destruct H as (props & _ & H). apply bind_Ok in H. destruct H as (v1 & Hv1 & H).
    injection H as <-.
    apply nb_format_line; [apply nb_whitespace|apply nb_upper; exact Hk|].
    eapply nb_format_value; eassumption.
  Qed.

  (* block words are break-free *)
  Definition names_nb : bool := forallb (fun t => no_break (upper t)) all_composite_names.
  Lemma names_nb_ok : names_nb = true.
  Proof. vm_compute. reflexivity. Qed.

  Lemma type_nb t : mem_str t all_composite_names = true -> nb (upper t).
  Proof.
    intros H. apply mem_str_In in H. pose proof names_nb_ok as W. unfold names_nb in W.
    rewrite forallb_forall in W. apply W. exact H.
  Qed.

  Definition fmt_nb (v : value) : Prop :=
    forall level lines v', _format o level v = Ok (lines, v') -> break_free_doc v = true -> all_nb lines.

  Definition fmt_nb_q (v : value) : Prop :=
    fmt_nb v /\ match v with VList l => Forall fmt_nb l | _ => True end.

  Lemma break_free_item c its k v :
    break_free_doc (VDict c its) = true -> In (k, v) its ->
    match kind_of k v with
    | KHidden => True
    | KChildren => match v with VList l => forallb break_free_doc l = true | _ => False end
    | KPairs | KPoints => num_tree v = true
    | KKeyValue | KConfig => kv_nb v = true
    | KProjection => flat_nb v = true
    | KRepeated => match v with VList l => forallb scalar_nb l = true | _ => False end
    | KChild => break_free_doc v = true
    | KKeyword => nb k /\ flat_nb v = true
    end.
  Proof.
    cbn [break_free_doc]. intros H Hin. apply andb_true_iff in H. destruct H as [_ H].
    rewrite forallb_forall in H. specialize (H _ Hin). cbn [fst snd] in H.
    destruct (kind_of k v); try exact I; try exact H.
    - destruct v; try discriminate. exact H.
    - destruct v; try discriminate. exact H.
    - apply andb_true_iff in H. exact H.
  Qed.

  Definition key_lists_nb : bool :=
    forallb (fun t => no_break (upper t)) (key_value_blocks ++ REPEATED_KEYS).
  Lemma key_lists_nb_ok : key_lists_nb = true.
  Proof. vm_compute. reflexivity. Qed.

  Lemma format_item_nb c its type_ level k v r :
    break_free_doc (VDict c its) = true -> In (k, v) its -> fmt_nb_q v -> type_ <> [] ->
    format_item o (fun x => _format o (S level) x) type_ no_cm level (aligned_of o its) k v = Ok r ->
    all_nb (fst r).
  Proof.
    intros Hdoc Hin [IHv IHl] Hty H. rewrite format_item_kind in H.
    pose proof (break_free_item _ _ _ _ Hdoc Hin) as G.
    pose proof (kind_key k v) as K.
    pose proof key_lists_nb_ok as W. unfold key_lists_nb in W. rewrite forallb_forall in W.
    destruct (kind_of k v).
    - injection H as <-. constructor.
    - destruct v as [| | | | |vs|]; try contradiction.
      apply bind_Ok in H. destruct H as (rs & Hrs & H). injection H as <-. cbn [fst].
      apply all_nb_concat. apply mapM_Ok in Hrs. rewrite forallb_forall in G.
      clear Hin K IHv. induction Hrs as [|x y vs' rs' Hxy _ IH]; [constructor|].
      inversion IHl as [|? ? Hx IHl']; subst. cbn [map]. constructor.
      + destruct y as [ls y']. cbn [fst]. apply (Hx _ _ _ Hxy). apply G. left; reflexivity.
      + apply IH; [exact IHl'|]. intros z Hz. apply G. right; exact Hz.
    - apply bind_Ok in H. destruct H as (ls & Hls & H). injection H as <-. cbn [fst]. subst k.
      eapply format_pair_list_nb; [exact Hls|exact G|reflexivity].
    - apply bind_Ok in H. destruct H as (ls & Hls & H). injection H as <-. cbn [fst].
      eapply process_key_dict_nb; [exact Hls|exact G|].
      apply W. apply in_or_app. left. apply mem_str_In. exact K.
    - rewrite attr_comment_none in H. cbn [bind] in H.
      apply bind_Ok in H. destruct H as (ls & Hls & H). injection H as <-. cbn [fst]. subst k.
      eapply process_projection_nb; [exact Hls|exact G|reflexivity].
    - apply bind_Ok in H. destruct H as (ls & Hls & H). injection H as <-. cbn [fst].
      eapply process_repeated_list_nb; [exact Hls|exact G|].
      apply W. apply in_or_app. right. apply mem_str_In. exact K.
    - apply bind_Ok in H. destruct H as (ls & Hls & H). injection H as <-. cbn [fst]. subst k.
      eapply format_repeated_pair_list_nb; [exact Hls|exact G|reflexivity].
    - apply bind_Ok in H. destruct H as (ls & Hls & H). injection H as <-. cbn [fst].
      eapply process_config_dict_nb; eassumption.
    - destruct r as [ls v'']. cbn [fst]. apply (IHv _ _ _ H G).
    - destruct type_ as [|t0 type_]; [congruence|].
      apply bind_Ok in H. destruct H as (line & Hline & H).
      rewrite attr_comment_none in H. cbn [bind] in H. injection H as <-. cbn [fst].
      destruct G as [G1 G2]. constructor; [|constructor]. rewrite app_nil_r.
      eapply keyword_line_nb; eassumption.
  Qed.

  Lemma break_free_no_comments c its : break_free_doc (VDict c its) = true -> no_comments its = true.
  Proof. cbn [break_free_doc]. intros H. apply andb_true_iff in H. tauto. Qed.

  Lemma fmt_nb_all v : fmt_nb_q v.
  Proof.
    induction v as [| | | | |l IH|c its IH] using value_ind'; try (split; [intros level lines v' H; discriminate H|exact I]).
    - split; [intros level lines v' H; discriminate H|].
      eapply Forall_impl; [|exact IH]. intros a [Ha _]. exact Ha.
    - split; [|exact I]. intros level lines v' H Hdoc.
      destruct (_format_inv o level c its lines v' H) as (type_ & head & sorted & rs & Hh & Hty & Hin & HF & -> & _).
      rewrite (comments_of_none c its (break_free_no_comments _ _ Hdoc)) in Hh, HF.
      destruct (format_header_inv o c its no_cm level type_ head Hh Hty) as (tc & Hg & Hmem & Htc & ->).
      rewrite type_comment_none in Htc. injection Htc as <-. cbn [app].
      pose proof (type_nb _ Hmem) as Ht.
      constructor; [apply nb_app_intro; [apply nb_whitespace|exact Ht]|].
      apply all_nb_app; [|constructor; [apply nb_add_end_line; exact Ht|constructor]].
      apply all_nb_concat. apply Forall_forall. intros ls Hls. apply in_map_iff in Hls.
      destruct Hls as (r & <- & Hr).
      assert (Hex : exists kv, In kv sorted /\
                format_item o (fun x => _format o (S level) x) type_ no_cm level (aligned_of o its) (fst kv) (snd kv) = Ok r).
      { clear -HF Hr. induction HF as [|kv r0 s' rs' Hkr _ IH2]; [contradiction|].
        destruct Hr as [->|Hr]; [exists kv; split; [left; reflexivity|exact Hkr]|].
        destruct (IH2 Hr) as (kv' & Hk1 & Hk2). exists kv'. split; [right; exact Hk1|exact Hk2]. }
      destruct Hex as ([k v] & Hks & Hfi). cbn [fst snd] in Hfi. apply Hin in Hks.
      eapply format_item_nb; [exact Hdoc|exact Hks| |exact Hty|exact Hfi].
      rewrite Forall_forall in IH. apply (IH (k, v) Hks).
  Qed.

  Lemma pprint_one_nb v lines v' :
    pprint_one o v = Ok (lines, v') -> break_free_root v = true -> all_nb lines.
  Proof.
    unfold pprint_one, break_free_root, is_root_keyvalue. destruct v as [| | | | | |c its]; try discriminate.
    intros H Hr.
    assert (E : kfold_item c (Str "__type__") = Str "__type__")
      by (destruct c; cbn [kfold_item]; [reflexivity|apply lower_type_key|apply lower_type_key]).
    rewrite E in H. destruct (assoc (Str "__type__") its) as [t|]; [|destruct (has_factory c); discriminate].
    destruct (fmt_nb_all (VDict c its)) as [Hb _].
    destruct t as [| | | |t| |]; try (apply (Hb _ _ _ H Hr)).
    change (mem_str t [Str "metadata"; Str "validation"; Str "connectionoptions"])
      with (mem_str t root_keyvalue_types) in H.
    destruct (mem_str t root_keyvalue_types) eqn:Et; [|apply (Hb _ _ _ H Hr)].
    apply bind_Ok in H. destruct H as (ls & Hls & H). injection H as <- <-.
    eapply process_key_dict_nb; [exact Hls|exact Hr|].
    clear -Et. unfold root_keyvalue_types in Et. cbn [mem_str] in Et.
    repeat (apply orb_true_iff in Et; destruct Et as [Et|Et]); try discriminate;
      apply str_eqb_eq in Et; subst t; reflexivity.
  Qed.

  Theorem pprint_lines_nb v lines v' :
    pprint_lines o v = Ok (lines, v') -> break_free_roots v = true -> all_nb lines.
  Proof.
    unfold pprint_lines. rewrite Hquote. cbn [negb]. intros H Hr.
    assert (Hone : forall x, (if truthy x then do r <- pprint_one o x; Ok r
                    else match x with VStr _ | VDict _ _ => Ok ([], x) | _ => Err PyTypeError end) = Ok (lines, v') ->
                   break_free_root x = true -> all_nb lines).
    { intros x Hx Hrx. destruct (truthy x).
      - apply bind_Ok in Hx. destruct Hx as ([ls w] & Hp & Hx). injection Hx as <- <-.
        eapply pprint_one_nb; eassumption.
      - destruct x; try discriminate; injection Hx as <- <-; constructor. }
    destruct v as [|b|z|m e|s|l|c its];
      [exact (Hone VNone H Hr)|exact (Hone (VBool b) H Hr)|exact (Hone (VInt z) H Hr)
      |exact (Hone (VFloat m e) H Hr)|exact (Hone (VStr s) H Hr)| |exact (Hone (VDict c its) H Hr)].
    apply bind_Ok in H. destruct H as (rs & Hrs & H). injection H as <- <-.
    apply all_nb_concat. apply mapM_Ok in Hrs. cbn [break_free_roots] in Hr. rewrite forallb_forall in Hr.
    clear Hone. induction Hrs as [|x [ls w] l' rs' Hx _ IH]; [constructor|]. cbn [map fst].
    constructor; [eapply pprint_one_nb; [exact Hx|apply Hr; left; reflexivity]|].
    apply IH. intros z Hz. apply Hr. right; exact Hz.
  Qed.

  (* the text: every line break is an occurrence of newlinechar *)
  Theorem pprint_breaks v text v' :
    pprint o v = Ok (text, v') -> break_free_roots v = true -> breaks_are (newlinechar o) text.
  Proof.
    unfold pprint. intros H Hr. apply bind_Ok in H. destruct H as ([lines w] & Hl & H).
    injection H as <- <-. exists lines. split; [reflexivity|]. cbn [fst].
    eapply pprint_lines_nb; eassumption.
  Qed.
End Lines.
