(* C05, separators: in EVERY scanner of the generated grammar (the root lexer and
   the per-parser-state contextual lexers) a C comment, a # comment, a run of
   blanks or a run of line breaks standing at a token boundary is consumed as
   exactly one ignored token; lexing continues behind it. *)
From MF Require Import Lib.Base Lib.Regex Model.GrammarTypes Model.Lexer Proofs.SepFacts Gen.Grammar.
Open Scope N_scope.

(* ---- decidable equality of patterns *)
Fixpoint ranges_eqb (a b : ranges) : bool :=
  match a, b with
  | [], [] => true
  | (l1, h1) :: a', (l2, h2) :: b' => (l1 =? l2) && (h1 =? h2) && ranges_eqb a' b'
  | _, _ => false
  end.

Lemma ranges_eqb_eq a b : ranges_eqb a b = true -> a = b.
Proof.
  revert b; induction a as [|[l1 h1] a IH]; intros [|[l2 h2] b] H; cbn [ranges_eqb] in H; try discriminate; [reflexivity|].
  apply andb_true_iff in H. destruct H as [H H3]. apply andb_true_iff in H. destruct H as [H1 H2].
  apply N.eqb_eq in H1. apply N.eqb_eq in H2. rewrite (IH b H3), H1, H2. reflexivity.
Qed.

Definition onat_eqb (a b : option nat) : bool :=
  match a, b with
  | None, None => true
  | Some x, Some y => Nat.eqb x y
  | _, _ => false
  end.

Fixpoint rx_eqb (a b : rx) : bool :=
  match a, b with
  | REps, REps | RBol, RBol | REol, REol => true
  | RSet n1 r1, RSet n2 r2 => Bool.eqb n1 n2 && ranges_eqb r1 r2
  | RSeq a1 a2, RSeq b1 b2 | RAlt a1 a2, RAlt b1 b2 => rx_eqb a1 b1 && rx_eqb a2 b2
  | RRep g1 m1 x1 r1, RRep g2 m2 x2 r2 => Bool.eqb g1 g2 && Nat.eqb m1 m2 && onat_eqb x1 x2 && rx_eqb r1 r2
  | RNotAhead r1, RNotAhead r2 => rx_eqb r1 r2
  | _, _ => false
  end.

Lemma rx_eqb_eq a : forall b, rx_eqb a b = true -> a = b.
Proof.
  induction a as [|n1 r1|a1 IH1 a2 IH2|a1 IH1 a2 IH2|g1 m1 x1 r1 IH|r1 IH| |]; intros [] H; cbn [rx_eqb] in H;
    try discriminate; try reflexivity.
  - apply andb_true_iff in H. destruct H as [H1 H2]. apply Bool.eqb_prop in H1. apply ranges_eqb_eq in H2. congruence.
  - apply andb_true_iff in H. destruct H as [H1 H2]. rewrite (IH1 _ H1), (IH2 _ H2). reflexivity.
  - apply andb_true_iff in H. destruct H as [H1 H2]. rewrite (IH1 _ H1), (IH2 _ H2). reflexivity.
  - apply andb_true_iff in H. destruct H as [H H4]. apply andb_true_iff in H. destruct H as [H H3].
    apply andb_true_iff in H. destruct H as [H1 H2].
    apply Bool.eqb_prop in H1. apply Nat.eqb_eq in H2. rewrite (IH _ H4), H1, H2.
    destruct x1, mx; cbn [onat_eqb] in H3; try discriminate; [apply Nat.eqb_eq in H3; rewrite H3|]; reflexivity.
  - rewrite (IH _ H). reflexivity.
Qed.

(* ---- the scanner reaches a separator terminal *)

(* every alternative tried before terminal [ty] can neither start with c nor
   match the empty string, and [ty]'s own pattern is r *)
Fixpoint before_ok (terms : list (N * rx)) (ty : N) (r : rx) (c : N) : bool :=
  match terms with
  | [] => false
  | (t, r') :: ts =>
      if t =? ty then rx_eqb r' r
      else negb (starts r' c) && negb (nullable r') && before_ok ts ty r c
  end.

Lemma before_ok_scan terms ty r c fuel o s s' :
  before_ok terms ty r c = true ->
  rx_match r fuel (o, c :: s) = Some s' ->
  scan terms fuel (o, c :: s) = Some (ty, s').
Proof.
  induction terms as [|[t r'] ts IH]; cbn [before_ok scan]; [discriminate|]. intros H Hm.
  destruct (N.eqb_spec t ty) as [->|Hne].
  - apply rx_eqb_eq in H. subst r'. rewrite Hm. reflexivity.
  - apply andb_true_iff in H. destruct H as [H H3]. apply andb_true_iff in H. destruct H as [H1 H2].
    apply negb_true_iff in H1. apply negb_true_iff in H2.
    rewrite (cannot_match c r' fuel o s H1 H2). exact (IH H3 Hm).
Qed.

Definition sep_ready (lx : lexer_info) (ty : N) (r : rx) (firsts : list N) : bool :=
  forallb (before_ok (lx_terms lx) ty r) firsts && memN ty (lx_ignore lx) &&
  match assocN ty (lx_unless lx) with None => true | Some _ => false end.

(* the state behind a skipped chunk *)
Definition skip_state (g : grammar) (wc : bool) (lx : lexer_info) (ty : N) (st : lexstate) (chunk rest' : str) : lexstate :=
  let lc := ls_lc st in
  let lc' := lc_feed lc chunk (N.of_nat (length chunk)) (memN ty (lx_newline lx)) in
  let t := mk_token ty chunk (lc_pos lc) (lc_line lc) (lc_col lc) (lc_line lc') (lc_col lc') (lc_pos lc') in
  mk_ls lc' rest' (if wc && memN ty (g_comment_types g) then t :: ls_comments st else ls_comments st) (ls_last st).

Lemma firstn_len_app {A} (a b : list A) : firstn (length a) (a ++ b) = a.
Proof. induction a as [|x a IH]; cbn; [destruct b; reflexivity|rewrite IH; reflexivity]. Qed.

Lemma next_token_skip g wc lx fuel st ty r c chunk rest' :
  sep_ready lx ty r [c] = true ->
  ls_rest st = (c :: chunk) ++ rest' ->
  rx_match r (S fuel) (lc_pos (ls_lc st), (c :: chunk) ++ rest')
    = Some (lc_pos (ls_lc st) + N.of_nat (length (c :: chunk)), rest') ->
  next_token g wc lx (S fuel) st = next_token g wc lx fuel (skip_state g wc lx ty st (c :: chunk) rest').
Proof.
  intros Hr Hrest Hm. unfold sep_ready in Hr.
  apply andb_true_iff in Hr. destruct Hr as [Hr Hun]. apply andb_true_iff in Hr. destruct Hr as [Hb Hig].
  cbn [forallb] in Hb. rewrite andb_true_r in Hb.
  destruct (assocN ty (lx_unless lx)) eqn:Eun; [discriminate|].
  cbn [next_token]. rewrite Hrest. cbn [app] in Hm |- *.
  pose proof (before_ok_scan (lx_terms lx) ty r c (S fuel) (lc_pos (ls_lc st)) (chunk ++ rest') _ Hb Hm) as Hs.
  match goal with |- context [scan ?xa ?xb ?xc] =>
    replace (scan xa xb xc) with (Some (ty, (lc_pos (ls_lc st) + N.of_nat (length (c :: chunk)), rest'))) by (symmetry; exact Hs) end.
  rewrite Hig, Eun, N.eqb_refl, andb_true_r.
  replace (lc_pos (ls_lc st) + N.of_nat (length (c :: chunk)) - lc_pos (ls_lc st)) with (N.of_nat (length (c :: chunk))) by lia.
  rewrite Nat2N.id.
  change (c :: chunk ++ rest') with ((c :: chunk) ++ rest'). rewrite firstn_len_app.
  unfold skip_state. reflexivity.
Qed.

(* ---- the four separator terminals, as the grammar has them *)
Definition ccomment_rx : rx :=
  RSeq (RSet false [(47,47)]) (RSeq (RSet false [(42,42)]) (RSeq (RRep false 0%nat None (RSet true [])) close_rx)).
Definition comment_rx : rx := RSeq (RSet false [(35,35)]) (RRep true 0%nat None (RSet true [(10,10)])).
Definition ws_rx : rx := RRep true 1%nat None (RSet false [(9,9);(12,12);(32,32)]).
Definition nl_rx : rx := RRep true 1%nat None (RSet false [(10,10);(13,13)]).

(* the scanners that know UNQUOTED_STRING_SPACE (the items of a {...} list
   expression may contain blanks: there a space is part of the item, not a
   separator) *)
Definition has_uss (lx : lexer_info) : bool :=
  match assocN TM_UNQUOTED_STRING_SPACE (lx_terms lx) with Some _ => true | None => false end.

Definition lexer_seps_ready (lx : lexer_info) : bool :=
  (has_uss lx || sep_ready lx TM_WS ws_rx [32]) &&
  sep_ready lx TM_CCOMMENT ccomment_rx [47] &&
  sep_ready lx TM_COMMENT comment_rx [35] &&
  sep_ready lx TM_WS ws_rx [9] && sep_ready lx TM_WS ws_rx [12] &&
  sep_ready lx TM__NL nl_rx [10] && sep_ready lx TM__NL nl_rx [13].

Definition all_lexers (g : grammar) : list lexer_info := g_root_lexer g :: g_lexers g.

(* [F] over the generated grammar: all 57 scanners *)
Lemma all_seps_ready : forallb lexer_seps_ready (all_lexers the_grammar) = true.
Proof. vm_compute. reflexivity. Qed.

(* [F] besides the root lexer (used only to classify errors) exactly one
   contextual scanner - inside the braces of a list expression - has it *)
Lemma uss_scanners : length (filter has_uss (g_lexers the_grammar)) = 1%nat /\ has_uss (g_root_lexer the_grammar) = true.
Proof. vm_compute. split; reflexivity. Qed.

Lemma seps_ready_of lx : In lx (all_lexers the_grammar) -> lexer_seps_ready lx = true.
Proof. intros H. pose proof all_seps_ready as Ha. rewrite forallb_forall in Ha. exact (Ha lx H). Qed.

(* ---- C comment *)
Theorem ccomment_skipped wc lx fuel st body rest' :
  In lx (all_lexers the_grammar) ->
  lazy_ok body = true ->
  ls_rest st = (47 :: 42 :: body ++ [42; 47]) ++ rest' ->
  (length (ls_rest st) <= fuel)%nat ->
  next_token the_grammar wc lx (S fuel) st =
  next_token the_grammar wc lx fuel (skip_state the_grammar wc lx TM_CCOMMENT st (47 :: 42 :: body ++ [42; 47]) rest').
Proof.
  intros Hlx Hok Hrest Hf. pose proof (seps_ready_of lx Hlx) as Hr. unfold lexer_seps_ready in Hr.
  repeat (apply andb_true_iff in Hr; destruct Hr as [Hr ?]).
  match goal with Hcc : sep_ready lx TM_CCOMMENT ccomment_rx [47] = true |- _ =>
    apply (next_token_skip _ wc lx fuel st TM_CCOMMENT ccomment_rx 47 (42 :: body ++ [42; 47]) rest' Hcc Hrest) end.
  assert (Hlen : (length body <= S fuel)%nat).
  { rewrite Hrest in Hf. cbn [length app] in Hf. rewrite !app_length in Hf. lia. }
  cbn [app]. rewrite <- app_assoc. cbn [app].
  change (rx_match ccomment_rx (S fuel) (lc_pos (ls_lc st), 47 :: 42 :: body ++ 42 :: 47 :: rest'))
    with (rmatch (RSeq (RRep false 0%nat None (RSet true [])) close_rx) (S fuel)
                 (lc_pos (ls_lc st) + 1 + 1, body ++ 42 :: 47 :: rest') (fun s' => Some s')).
  rewrite (lazy_until_close (S fuel) body (lc_pos (ls_lc st) + 1 + 1) rest' Hok Hlen).
  f_equal. f_equal. cbn [length]. rewrite app_length. cbn [length]. lia.
Qed.

(* ---- # comment: up to, not including, the line feed *)
Theorem comment_skipped wc lx fuel st line rest' :
  In lx (all_lexers the_grammar) ->
  forallb (fun c => negb (c =? 10)) line = true ->
  match rest' with [] => True | c :: _ => c = 10 end ->
  ls_rest st = (35 :: line) ++ rest' ->
  (length (ls_rest st) <= fuel)%nat ->
  next_token the_grammar wc lx (S fuel) st =
  next_token the_grammar wc lx fuel (skip_state the_grammar wc lx TM_COMMENT st (35 :: line) rest').
Proof.
  intros Hlx Hall Hstop Hrest Hf. pose proof (seps_ready_of lx Hlx) as Hr. unfold lexer_seps_ready in Hr.
  repeat (apply andb_true_iff in Hr; destruct Hr as [Hr ?]).
  match goal with H : sep_ready lx TM_COMMENT comment_rx [35] = true |- _ =>
    apply (next_token_skip _ wc lx fuel st TM_COMMENT comment_rx 35 line rest' H Hrest) end.
  assert (Hlen : (length line <= S fuel)%nat).
  { rewrite Hrest in Hf. cbn [length app] in Hf. rewrite app_length in Hf. lia. }
  cbn [app].
  change (rx_match comment_rx (S fuel) (lc_pos (ls_lc st), 35 :: line ++ rest'))
    with (rmatch (RRep true 0%nat None (RSet true [(10,10)])) (S fuel) (lc_pos (ls_lc st) + 1, line ++ rest') (fun s' => Some s')).
  rewrite (greedy_run true [(10,10)] 0%nat line (S fuel) (lc_pos (ls_lc st) + 1) rest');
    [f_equal; f_equal; cbn [length]; lia| | |lia|exact Hlen].
  - rewrite forallb_forall in Hall. apply forallb_forall. intros c Hc. specialize (Hall c Hc).
    unfold in_set. cbn [in_ranges]. apply negb_true_iff in Hall. apply N.eqb_neq in Hall.
    destruct (N.leb_spec 10 c), (N.leb_spec c 10); cbn; try reflexivity. lia.
  - destruct rest' as [|c r]; cbn [stops]; [exact I|]. subst c. reflexivity.
Qed.

(* ---- runs of blanks / of line breaks *)
Definition is_blank (c : N) : bool := (c =? 9) || (c =? 12) || (c =? 32).
Definition is_break (c : N) : bool := (c =? 10) || (c =? 13).

Lemma blank_in_set c : in_set false [(9,9);(12,12);(32,32)] c = is_blank c.
Proof.
  unfold in_set, is_blank. cbn [in_ranges xorb].
  destruct (N.eqb_spec c 9) as [->|H9]; [reflexivity|].
  destruct (N.eqb_spec c 12) as [->|H12]; [reflexivity|].
  destruct (N.eqb_spec c 32) as [->|H32]; [reflexivity|].
  destruct (N.leb_spec 9 c), (N.leb_spec c 9), (N.leb_spec 12 c), (N.leb_spec c 12), (N.leb_spec 32 c), (N.leb_spec c 32);
    cbn; try reflexivity; lia.
Qed.

Lemma break_in_set c : in_set false [(10,10);(13,13)] c = is_break c.
Proof.
  unfold in_set, is_break. cbn [in_ranges xorb].
  destruct (N.eqb_spec c 10) as [->|H10]; [reflexivity|].
  destruct (N.eqb_spec c 13) as [->|H13]; [reflexivity|].
  destruct (N.leb_spec 10 c), (N.leb_spec c 10), (N.leb_spec 13 c), (N.leb_spec c 13); cbn; try reflexivity; lia.
Qed.

Theorem blanks_skipped wc lx fuel st c run rest' :
  In lx (all_lexers the_grammar) ->
  (c = 32 -> has_uss lx = false) ->
  forallb is_blank (c :: run) = true ->
  match rest' with [] => True | c' :: _ => is_blank c' = false end ->
  ls_rest st = (c :: run) ++ rest' ->
  (length (ls_rest st) <= fuel)%nat ->
  next_token the_grammar wc lx (S fuel) st =
  next_token the_grammar wc lx fuel (skip_state the_grammar wc lx TM_WS st (c :: run) rest').
Proof.
  intros Hlx Huss Hall Hstop Hrest Hf. pose proof (seps_ready_of lx Hlx) as Hr. unfold lexer_seps_ready in Hr.
  repeat (apply andb_true_iff in Hr; destruct Hr as [Hr ?]).
  assert (Hc : is_blank c = true) by (cbn [forallb] in Hall; apply andb_true_iff in Hall; tauto).
  assert (Hready : sep_ready lx TM_WS ws_rx [c] = true).
  { unfold is_blank in Hc. apply orb_true_iff in Hc. destruct Hc as [Hc|Hc]; [apply orb_true_iff in Hc; destruct Hc as [Hc|Hc]|];
      apply N.eqb_eq in Hc; subst c; try assumption.
    match goal with Hu : has_uss lx || _ = true |- _ => rewrite (Huss eq_refl) in Hu; exact Hu end. }
  apply (next_token_skip _ wc lx fuel st TM_WS ws_rx c run rest' Hready Hrest).
  unfold rx_match, ws_rx.
  assert (Hlen : (length (c :: run) <= S fuel)%nat).
  { rewrite Hrest in Hf. rewrite app_length in Hf. lia. }
  apply greedy_run; [| |cbn [length]; lia|exact Hlen].
  - apply forallb_forall. intros x Hx. rewrite blank_in_set. rewrite forallb_forall in Hall. exact (Hall x Hx).
  - destruct rest' as [|c' r]; cbn [stops]; [exact I|]. rewrite blank_in_set. exact Hstop.
Qed.

Theorem breaks_skipped wc lx fuel st c run rest' :
  In lx (all_lexers the_grammar) ->
  forallb is_break (c :: run) = true ->
  match rest' with [] => True | c' :: _ => is_break c' = false end ->
  ls_rest st = (c :: run) ++ rest' ->
  (length (ls_rest st) <= fuel)%nat ->
  next_token the_grammar wc lx (S fuel) st =
  next_token the_grammar wc lx fuel (skip_state the_grammar wc lx TM__NL st (c :: run) rest').
Proof.
  intros Hlx Hall Hstop Hrest Hf. pose proof (seps_ready_of lx Hlx) as Hr. unfold lexer_seps_ready in Hr.
  repeat (apply andb_true_iff in Hr; destruct Hr as [Hr ?]).
  assert (Hc : is_break c = true) by (cbn [forallb] in Hall; apply andb_true_iff in Hall; tauto).
  assert (Hready : sep_ready lx TM__NL nl_rx [c] = true).
  { unfold is_break in Hc. apply orb_true_iff in Hc. destruct Hc as [Hc|Hc]; apply N.eqb_eq in Hc; subst c; assumption. }
  apply (next_token_skip _ wc lx fuel st TM__NL nl_rx c run rest' Hready Hrest).
  unfold rx_match, nl_rx.
  assert (Hlen : (length (c :: run) <= S fuel)%nat).
  { rewrite Hrest in Hf. rewrite app_length in Hf. lia. }
  apply greedy_run; [| |cbn [length]; lia|exact Hlen].
  - apply forallb_forall. intros x Hx. rewrite break_in_set. rewrite forallb_forall in Hall. exact (Hall x Hx).
  - destruct rest' as [|c' r]; cbn [stops]; [exact I|]. rewrite break_in_set. exact Hstop.
Qed.
