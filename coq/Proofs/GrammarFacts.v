(* Facts about the GENERATED grammar, re-proved by computation whenever
   mapfile.lark (or Lark's compilation of it) changes. *)
From MF Require Import Lib.Base Lib.Regex Model.GrammarTypes Model.Lexer Model.LR
  Proofs.RegexFacts Proofs.LexFacts Proofs.ParseFacts Gen.Grammar.

(* every scanner: a terminal that Lark does not scan for line feeds cannot match one *)
Lemma the_grammar_lexers_ok : lexers_ok the_grammar = true.
Proof. vm_compute. reflexivity. Qed.
