(* Facts about the GENERATED grammar, re-proved by computation whenever
   mapfile.lark (or Lark's compilation of it) changes. *)
From MF Require Import Lib.Base Lib.Regex Model.GrammarTypes Model.Lexer Model.LR
  Proofs.RegexFacts Proofs.LexFacts Proofs.ParseFacts Gen.Grammar.

(* every scanner: a terminal that Lark does not scan for line feeds cannot match one *)
Lemma the_grammar_lexers_ok : lexers_ok the_grammar = true.
Proof. vm_compute. reflexivity. Qed.

(* ---------------------------------------------------------------- block types at the root *)
From MF Require Import Model.Case Model.Transformer Model.Api.
Open Scope N_scope.

Fixpoint index_of (k : str) (l : list str) (i : N) : option N :=
  match l with
  | [] => None
  | x :: l' => if str_eqb k x then Some i else index_of k l' (i + 1)
  end.

(* the terminals the grammar's composite_type rule can open a block with *)
Definition block_type_terms (g : grammar) : list N :=
  match index_of (Str "composite_type") (g_nonterm_names g) (N.of_nat (length (g_term_names g))) with
  | Some ct => flat_map (fun r => if r_origin r =? ct then r_expansion r else []) (g_rules g)
  | None => []
  end.

Definition term_name (g : grammar) (t : N) : str :=
  match nth_N (g_term_names g) t with Some s => s | None => [] end.

Definition block_type_names : list str :=
  map (term_name the_grammar) (block_type_terms the_grammar)
  ++ [Str "METADATA"; Str "VALIDATION"; Str "CONNECTIONOPTIONS"; Str "SYMBOLSET"].

Definition root_ok (name : str) : bool :=
  match loads false false (name ++ Str " END") with
  | Ok (VDict _ ((k, VStr ty) :: _)) => str_eqb k (Str "__type__") && str_eqb ty (lower name)
  | Ok (VDict _ items) =>        (* key-value blocks store __type__ last *)
      match assoc (Str "__type__") items with Some (VStr ty) => str_eqb ty (lower name) | _ => false end
  | _ => false
  end.

Lemma every_block_type_is_a_root : forallb root_ok block_type_names = true.
Proof. vm_compute. reflexivity. Qed.

Lemma block_type_count : length block_type_names = 23%nat.
Proof. vm_compute. reflexivity. Qed.

(* ---------------------------------------------------------------- keyword case *)
From MF Require Import Proofs.C05.

(* every keyword pattern of every scanner's unless-table is closed under ASCII
   letter case *)
Lemma the_grammar_keywords_closed : grammar_keywords_closed the_grammar = true.
Proof. vm_compute. reflexivity. Qed.

(* the terminals of the root scanner whose pattern is NOT case-closed: exactly
   those carrying the literal lower-case flag suffix  i  of strings / regexes *)
Definition non_closed_terminals (g : grammar) : list str :=
  map (fun p => term_name g (fst p)) (filter (fun p => negb (ci_closed (snd p))) (lx_terms (g_root_lexer g))).

Lemma non_closed_terminals_spec :
  non_closed_terminals the_grammar =
    [Str "REGEXP1"; Str "DOUBLE_QUOTED_STRING"; Str "SINGLE_QUOTED_STRING"; Str "REGEXP2"; Str "ESCAPED_STRING"].
Proof. vm_compute. reflexivity. Qed.

(* ---------------------------------------------------------------- the LALR table passes the validator *)
From MF Require Import Proofs.LRFacts.

Lemma the_grammar_table_ok : table_ok the_grammar = true.
Proof. vm_compute. reflexivity. Qed.

Lemma the_grammar_types_ok : types_ok the_grammar the_hook = true.
Proof. vm_compute. reflexivity. Qed.
