(* The shape guard [gkv] of Proofs/C13U.v holds of every tree the parser
   returns (both comment modes): a consequence of the symbol-typing theorem of
   Proofs/LRTyping.v.  With it the guarded alignment theorem of C13U for
   loads (include_comments=False) loses its guard. *)
From MF Require Import Lib.Base Model.GrammarTypes Model.LR Model.Transformer Model.Api
  Proofs.LRTyping Proofs.C13U.

(* LRTyping.GkvCopy is a verbatim copy of C13U's definitions *)
Lemma gkv_copy_same : GkvCopy.gkv = gkv.
Proof. reflexivity. Qed.

Theorem parse_tree_gkv : forall ic text t, parse_tree ic text = Ok t -> gkv (canonize (gtree_of t)) = true.
Proof. intros ic text t H. rewrite <- gkv_copy_same. eapply parse_tree_gkv_copy. exact H. Qed.

(* C13U.position_alignment_loads_off_to_on_partial without its shape guard
   (still include_comments=False only, as in C13U) *)
Theorem position_alignment_loads_off_to_on_unguarded_partial :
  forall text w, loads false false text = Ok w -> exists v, loads true false text = Ok v.
Proof.
  intros text w. apply position_alignment_loads_off_to_on_partial.
  intros t. apply parse_tree_gkv.
Qed.
