(* Universal theorems about the printer model (Model/PPrint.v), entry point.

   PrintU_Pure   what pprint leaves in its argument (C12 purity; C06 separate_complex_types)
   PrintU_Abs    pprint = render o (a_pprint (quote o) (separate_complex_types o) d):
                 the printer factors through a layout-independent abstract document
   PrintU_Read   the independent reader (Spec/Reader.v) on a rendered abstract document
   PrintU_Swap   the reader and the renderer commute with exchanging the two quote characters
   PrintU_Quote  printing with the other quote character exchanges the quotes of the abstract document
   PrintU_Twice  printing the dictionary left behind by a first call gives the same text again

   This file: the guards in terms of the reader ("every piece tokenizes on its
   own"), closed building blocks (quoted strings, words, integers), witnesses
   showing that each guard is needed (concrete inputs, replayable on the
   implementation), and an example inhabiting all guards at once. *)
From MF Require Import Lib.Base Lib.PyDict Lib.Json Gen.Tokens Model.Case Model.Quoter Model.PPrint
  Spec.Reader Proofs.PPrintFacts Proofs.C16 Proofs.C03.
From MF Require Import Proofs.C06.
From MF Require Export Proofs.PrintU_Pure Proofs.PrintU_Abs Proofs.PrintU_Read Proofs.PrintU_Swap Proofs.PrintU_Quote
  Proofs.PrintU_Twice.
Open Scope nat_scope.

(* ------------------------------------------------------------ the reordering is the loop of move_to_end calls *)
Lemma stable_partition_move_all {A} (moved : str -> bool) (its : list (str * A)) :
  NoDup (keys its) -> stable_partition moved its = move_all moved (keys its) its.
Proof. intros Hn. symmetry. apply move_all_partition. exact Hn. Qed.

(* ------------------------------------------------------------ all six formatting options at once *)
(* two option sets with the same separate_complex_types, whatever their indent,
   spacer (blanks), newlinechar (line break then blanks), end_comment,
   align_values and quote: they succeed together, leave the same dictionary, and
   the texts read back as the same tokens - literally when the quote is the same,
   with the two quote characters exchanged inside token texts otherwise *)
Theorem formatting_options_preserve_content :
  forall o o' d s d1,
    separate_complex_types o' = separate_complex_types o ->
    quote_ok o' = true ->
    layout_ok o = true -> layout_ok o' = true ->
    roots_qf d = true ->
    content_closed (quote o) (separate_complex_types o) d = true ->
    pprint o d = Ok (s, d1) ->
    exists s', pprint o' d = Ok (s', d1)
               /\ (tokenize s' = tokenize s \/ tokenize s' = option_map (map swt) (tokenize s)).
Proof.
  intros o o' d s d1 Hs Hq' Hl Hl' Hg Hc H.
  assert (Hq : is_quote (quote o) = true).
  { rewrite pprint_factors in H.
    destruct (a_pprint (quote o) (separate_complex_types o) d) as [[A x]|e] eqn:EA; [|discriminate].
    apply (a_pprint_quote_ok _ _ _ _ EA). }
  destruct (N.eqb_spec (quote o') (quote o)) as [E|Hne].
  - destruct (layout_options_preserve_content o o' d s d1 (conj (eq_sym E) (eq_sym Hs)) Hl Hl' Hc H)
      as (s' & H' & Ht & _).
    exists s'. split; [exact H'|left; exact Ht].
  - assert (E : quote o' = sw (quote o)).
    { unfold quote_ok in Hq'. unfold is_quote in Hq. unfold c_sq, c_dq in Hq'.
      apply orb_true_iff in Hq'. apply orb_true_iff in Hq.
      destruct Hq' as [H1|H1], Hq as [H2|H2]; apply N.eqb_eq in H1, H2; rewrite H1, H2 in *; try reflexivity;
        exfalso; apply Hne; reflexivity. }
    destruct (quote_option_preserves_content o o' d s d1 E Hs Hl Hl' Hg Hc H) as (s' & H' & Ht & _).
    exists s'. split; [exact H'|right; exact Ht].
Qed.

(* ------------------------------------------------------------ the guard, in terms of the reader *)
Lemma finish_Some_fin m f : finish m = Some f -> fin_eol m = true.
Proof. destruct m; cbn [finish fin_eol]; intros H; try discriminate H; reflexivity. Qed.

(* a piece is closed iff the reader accepts it on its own *)
Lemma closed_eol_iff s : closed_eol s = true <-> tokenize s <> None.
Proof.
  unfold closed_eol, tokenize. rewrite scan_run. destruct (run MBlank s) as [[t m]|]; [|split; [discriminate|congruence]].
  split.
  - intros H. rewrite (finish_fin m H). discriminate.
  - intros H. destruct (finish m) as [f|] eqn:E; [|congruence]. apply (finish_Some_fin m f E).
Qed.

Lemma closed_eol_tokens s toks : tokenize s = Some toks -> closed_eol s = true /\ ltoks s = toks.
Proof.
  intros H. assert (C : closed_eol s = true) by (apply closed_eol_iff; congruence).
  split; [exact C|]. rewrite (tokenize_closed s C) in H. injection H as ->. reflexivity.
Qed.

(* a closed piece that does not end inside a # comment may be followed by blanks *)
Lemma closed_sp_iff s :
  closed_sp s = true <-> closed_eol s = true /\ (forall t, run MBlank s <> Some (t, MLineComment)).
Proof.
  unfold closed_sp, closed_eol. destruct (run MBlank s) as [[t m]|]; [|split; [discriminate|intros [H _]; discriminate H]].
  destruct m; cbn [fin_sp fin_eol];
    (split;
     [intros H; first [discriminate H|split; [reflexivity|intros t0 E; discriminate E]]
     |intros [H1 H2]; first [discriminate H1|reflexivity|exfalso; apply (H2 t); reflexivity]]).
Qed.

(* building blocks: a quoted string without its quote and backslash and a clean
   bare word (C03) are closed, with the expected token *)
Lemma run_quote_body q content acc :
  forallb (plain_char q) content = true ->
  run (MQuote q acc) (content ++ [q]) = Some ([], MAfterQuote (rev acc ++ content)).
Proof.
  revert acc; induction content as [|c content IH]; intros acc H; cbn [app].
  - cbn [run step]. rewrite N.eqb_refl. cbn [app]. rewrite app_nil_r. reflexivity.
  - cbn [forallb] in H. apply andb_true_iff in H. destruct H as [Hc H].
    unfold plain_char in Hc. apply andb_true_iff in Hc. destruct Hc as [H1 H2]. apply negb_true_iff in H1, H2.
    cbn [run step]. rewrite H1, H2, (IH (c :: acc) H). cbn [rev app]. rewrite <- app_assoc. reflexivity.
Qed.

Lemma closed_quoted q s :
  is_quote q = true -> string_ok q s = true ->
  closed_sp (add_quotes q s) = true /\ ltoks (add_quotes q s) = [(TQuoted, s)].
Proof.
  intros Hq Hs. unfold closed_sp, ltoks, add_quotes, _add_quotes. cbn [run step].
  rewrite (start_quote q Hq), (run_quote_body q s [] Hs). split; reflexivity.
Qed.

Lemma run_word_body w : forall acc,
  forallb word_char w = true -> run (MWord acc) w = Some ([], MWord (rev w ++ acc)).
Proof.
  induction w as [|c w IH]; intros acc H; [reflexivity|].
  cbn [forallb] in H. apply andb_true_iff in H. destruct H as [Hc H].
  unfold word_char in Hc. apply andb_true_iff in Hc. destruct Hc as [H1 H2]. apply negb_true_iff in H1, H2.
  cbn [run step]. rewrite H1, H2, (IH (c :: acc) H). cbn [rev app]. rewrite <- app_assoc. reflexivity.
Qed.

Lemma closed_word w :
  clean_word w = true -> closed_sp w = true /\ ltoks w = [word_token w].
Proof.
  destruct w as [|c w]; [discriminate|]. cbn [clean_word]. intros H. apply andb_true_iff in H. destruct H as [Hc Hw].
  unfold closed_sp, ltoks. cbn [run step]. rewrite (start_word c Hc), (run_word_body w [c] Hw).
  split; [reflexivity|]. cbn [app ftoks finish]. rewrite rev_app_distr, rev_involutive. reflexivity.
Qed.

(* ------------------------------------------------------------ witnesses: the guards are needed *)
Definition pu_lf : str := [10%N].
Definition opts_i4 : opts := mk_opts 4 (Str " ") 34%N pu_lf false false false.
Definition opts_i2 : opts := mk_opts 2 (Str " ") 34%N pu_lf false false false.
Definition opts_i4_aligned : opts := mk_opts 4 (Str " ") 34%N pu_lf false true false.
Definition opts_i4_single : opts := mk_opts 4 (Str " ") 39%N pu_lf false false false.
Definition opts_i4_sct : opts := mk_opts 4 (Str " ") 34%N pu_lf false false true.

(* a map whose NAME and SHAPEPATH values contain a double quote (code point 34) between two letters *)
Definition unbalanced_doc : value :=
  VDict (DCI true) [(Str "__type__", VStr (Str "map")); (Str "name", VStr [97; 34; 98]%N);
                    (Str "shapepath", VStr [99; 34; 100]%N)].

(* a map with a keyword of three letters, the middle one the German sharp s (code point 223): its upper
   case is ASSB, four letters *)
Definition sharp_s_doc : value :=
  VDict (DCI true) [(Str "__type__", VStr (Str "map")); ([97; 223; 98]%N, VInt 1)].

Definition quote_in_name_doc : value :=
  VDict (DCI true) [(Str "__type__", VStr (Str "map")); (Str "name", VStr [97; 34; 98]%N)].

Definition pu_text_of (r : res (str * value)) : str := match r with Ok (s, _) => s | Err _ => [] end.

Lemma unbalanced_tokens_i4 :
  option_map (fun t => nth 4 t (TWord, [])) (tokenize (pu_text_of (pprint opts_i4 unbalanced_doc)))
  = Some (TQuoted, pu_lf ++ Str "    SHAPEPATH ").
Proof. vm_compute. reflexivity. Qed.

Lemma unbalanced_tokens_i2 :
  option_map (fun t => nth 4 t (TWord, [])) (tokenize (pu_text_of (pprint opts_i2 unbalanced_doc)))
  = Some (TQuoted, pu_lf ++ Str "  SHAPEPATH ").
Proof. vm_compute. reflexivity. Qed.

Lemma unbalanced_not_closed : content_closed 34%N false unbalanced_doc = false.
Proof. vm_compute. reflexivity. Qed.

Lemma unbalanced_prints : exists s s', pprint opts_i4 unbalanced_doc = Ok (s, unbalanced_doc)
                                       /\ pprint opts_i2 unbalanced_doc = Ok (s', unbalanced_doc).
Proof. eexists _, _. split; vm_compute; reflexivity. Qed.

(* refuted without the guard: when a printed piece is not a complete token
   sequence (here: strings containing the quote character, which the printer
   does not escape under a keyword typed string), indent changes what is read back *)
Theorem layout_content_unclosed_refuted :
  exists o o' d,
    same_content_opts o o' /\ layout_ok o = true /\ layout_ok o' = true
    /\ content_closed (quote o) (separate_complex_types o) d = false
    /\ (exists s s', pprint o d = Ok (s, d) /\ pprint o' d = Ok (s', d))
    /\ tokenize (pu_text_of (pprint o d)) <> tokenize (pu_text_of (pprint o' d)).
Proof.
  exists opts_i4, opts_i2, unbalanced_doc.
  split; [split; reflexivity|]. split; [reflexivity|]. split; [reflexivity|].
  split; [exact unbalanced_not_closed|]. split; [exact unbalanced_prints|].
  intros E. pose proof unbalanced_tokens_i4 as H4. pose proof unbalanced_tokens_i2 as H2.
  rewrite E, H2 in H4. discriminate H4.
Qed.

Lemma sharp_s_tokens_plain :
  tokenize (pu_text_of (pprint opts_i4 sharp_s_doc))
  = Some [(TWord, Str "MAP"); (TWord, Str "ASSB"); (TNumber, Str "1"); (TWord, Str "END")].
Proof. vm_compute. reflexivity. Qed.

Lemma sharp_s_tokens_aligned :
  tokenize (pu_text_of (pprint opts_i4_aligned sharp_s_doc))
  = Some [(TWord, Str "MAP"); (TWord, Str "ASSB1"); (TWord, Str "END")].
Proof. vm_compute. reflexivity. Qed.

Lemma sharp_s_text_aligned :
  pu_text_of (pprint opts_i4_aligned sharp_s_doc) = Str "MAP" ++ pu_lf ++ Str "    ASSB1" ++ pu_lf ++ Str "END".
Proof. vm_compute. reflexivity. Qed.

Lemma sharp_s_not_closed : content_closed 34%N false sharp_s_doc = false.
Proof. vm_compute. reflexivity. Qed.

(* refuted without the guard (pad_ok): a keyword whose upper case is longer than
   the keyword is glued to its value by align_values=True *)
Theorem align_values_glues_keyword_refuted :
  exists o o' d,
    same_content_opts o o' /\ layout_ok o = true /\ layout_ok o' = true
    /\ content_closed (quote o) (separate_complex_types o) d = false
    /\ tokenize (pu_text_of (pprint o d)) <> tokenize (pu_text_of (pprint o' d)).
Proof.
  exists opts_i4, opts_i4_aligned, sharp_s_doc.
  split; [split; reflexivity|]. split; [reflexivity|]. split; [reflexivity|].
  split; [exact sharp_s_not_closed|].
  rewrite sharp_s_tokens_plain, sharp_s_tokens_aligned. discriminate.
Qed.

Lemma quote_in_name_double : tokenize (pu_text_of (pprint opts_i4 quote_in_name_doc)) = None.
Proof. vm_compute. reflexivity. Qed.

Lemma quote_in_name_single :
  tokenize (pu_text_of (pprint opts_i4_single quote_in_name_doc))
  = Some [(TWord, Str "MAP"); (TWord, Str "NAME"); (TQuoted, [97; 34; 98]%N); (TWord, Str "END")].
Proof. vm_compute. reflexivity. Qed.

Lemma quote_in_name_not_qf : roots_qf quote_in_name_doc = false.
Proof. vm_compute. reflexivity. Qed.

(* refuted without the guard (roots_qf): a string containing the chosen quote
   character is not escaped; the other quote reads back, this one does not *)
Theorem quote_option_refuted :
  exists o o' d,
    quote o' = sw (quote o) /\ separate_complex_types o' = separate_complex_types o
    /\ layout_ok o = true /\ layout_ok o' = true /\ roots_qf d = false
    /\ tokenize (pu_text_of (pprint o d)) = None /\ tokenize (pu_text_of (pprint o' d)) <> None.
Proof.
  exists opts_i4, opts_i4_single, quote_in_name_doc.
  do 4 (split; [reflexivity|]). split; [exact quote_in_name_not_qf|]. split; [exact quote_in_name_double|].
  rewrite quote_in_name_single. discriminate.
Qed.

(* separate_complex_types does modify the argument *)
Definition layers_first_doc : value :=
  VDict (DCI true)
    [(Str "__type__", VStr (Str "map"));
     (Str "layers", VList [VDict (DCI true) [(Str "__type__", VStr (Str "layer")); (Str "name", VStr (Str "x"))]]);
     (Str "name", VStr (Str "m"))].

Lemma layers_first_after :
  option_map snd (match pprint opts_i4_sct layers_first_doc with Ok r => Some r | Err _ => None end)
  = Some (VDict (DCI true)
            [(Str "__type__", VStr (Str "map"));
             (Str "name", VStr (Str "m"));
             (Str "layers", VList [VDict (DCI true) [(Str "__type__", VStr (Str "layer")); (Str "name", VStr (Str "x"))]])]).
Proof. vm_compute. reflexivity. Qed.

Theorem pprint_argument_unchanged_sct_refuted :
  exists o d s d', separate_complex_types o = true /\ uniq_keys d = true
                   /\ pprint o d = Ok (s, d') /\ d' <> d /\ d' = arg_after true d.
Proof.
  exists opts_i4_sct, layers_first_doc.
  destruct (pprint opts_i4_sct layers_first_doc) as [[s d']|e] eqn:E.
  - exists s, d'. pose proof layers_first_after as H. rewrite E in H. cbn [option_map snd] in H. injection H as H.
    split; [reflexivity|]. split; [reflexivity|]. split; [reflexivity|]. split.
    + rewrite H. discriminate.
    + apply (pprint_argument_after opts_i4_sct layers_first_doc s d' eq_refl E).
  - pose proof layers_first_after as H. rewrite E in H. discriminate H.
Qed.

(* newlinechar must contain a line break: with a space as newlinechar (blank,
   but layout_ok fails) end_comment=True comments out the rest of the text *)
Definition opts_space_nl : opts := mk_opts 4 (Str " ") 34%N (Str " ") false false false.
Definition opts_space_nl_ec : opts := mk_opts 4 (Str " ") 34%N (Str " ") true false false.

Lemma space_nl_tokens :
  option_map (@length token) (tokenize (pu_text_of (pprint opts_space_nl layers_first_doc))) = Some 8.
Proof. vm_compute. reflexivity. Qed.

Lemma space_nl_ec_tokens :
  option_map (@length token) (tokenize (pu_text_of (pprint opts_space_nl_ec layers_first_doc))) = Some 5.
Proof. vm_compute. reflexivity. Qed.

Lemma layers_first_closed : content_closed 34%N false layers_first_doc = true.
Proof. vm_compute. reflexivity. Qed.

Theorem newlinechar_without_break_refuted :
  exists o o' d,
    same_content_opts o o' /\ newlinechar o = newlinechar o' /\ forallb is_blank (newlinechar o) = true
    /\ layout_ok o = false
    /\ content_closed (quote o) (separate_complex_types o) d = true
    /\ tokenize (pu_text_of (pprint o d)) <> tokenize (pu_text_of (pprint o' d)).
Proof.
  exists opts_space_nl, opts_space_nl_ec, layers_first_doc.
  split; [split; reflexivity|]. do 3 (split; [reflexivity|]). split; [exact layers_first_closed|].
  intros E. pose proof space_nl_tokens as H1. pose proof space_nl_ec_tokens as H2. rewrite E, H2 in H1.
  discriminate H1.
Qed.

(* ------------------------------------------------------------ an example inhabiting every guard *)
Definition pu_ex_style : value :=
  VDict (DCI true)
    [(Str "__type__", VStr (Str "style"));
     (Str "pattern", VList [VList [VInt 1; VFloat 25 (-1)]]);
     (Str "color", VList [VInt 255; VInt 0; VInt 0])].

Definition pu_ex_class : value :=
  VDict (DCI true)
    [(Str "__type__", VStr (Str "class"));
     (Str "__comments__", VDict (DCI true) [(Str "__type__", VList [VStr (Str "# first class"); VStr (Str "# of two")]);
                                            (Str "expression", VStr (Str "# filter"))]);
     (Str "name", VStr (Str "big ones"));
     (Str "expression", VStr (Str "([pop] > 1000)"));
     (Str "styles", VList [pu_ex_style])].

Definition pu_ex_layer : value :=
  VDict (DCI true)
    [(Str "__type__", VStr (Str "layer"));
     (Str "classes", VList [pu_ex_class]);
     (Str "name", VStr (Str "l1"));
     (Str "type", VStr (Str "polygon"));
     (Str "processing", VList [VStr (Str "BANDS=1"); VStr (Str "SCALE=AUTO")]);
     (Str "projection", VList [VStr (Str "init=epsg:4326")]);
     (Str "metadata", VDict (DCI true) [(Str "__type__", VStr (Str "metadata")); (Str "wms_title", VStr (Str "my title"))]);
     (Str "features", VList [VDict (DCI true) [(Str "__type__", VStr (Str "feature"));
                                               (Str "points", VList [VList [VList [VInt 1; VInt 2]; VList [VInt 3; VInt 4]]])]]);
     (Str "status", VStr (Str "on"))].

Definition pu_example_doc : value :=
  VDict (DCI true)
    [(Str "__type__", VStr (Str "map"));
     (Str "layers", VList [pu_ex_layer]);
     (Str "name", VStr (Str "example"));
     (Str "config", VDict (DCI true) [(Str "ms_errorfile", VStr (Str "stderr"))]);
     (Str "extent", VList [VInt 0; VInt 0; VFloat 105 (-1); VInt 10])].

Definition opts_tabs_crlf : opts := mk_opts 1 [9%N] 39%N [13%N; 10%N] true true true.

Lemma example_uniq : uniq_keys pu_example_doc = true.
Proof. vm_compute. reflexivity. Qed.

Lemma example_qf : roots_qf pu_example_doc = true.
Proof. vm_compute. reflexivity. Qed.

Lemma example_closed_double : content_closed 34%N false pu_example_doc = true.
Proof. vm_compute. reflexivity. Qed.

Lemma example_closed_single_sct : content_closed 39%N true pu_example_doc = true.
Proof. vm_compute. reflexivity. Qed.

Lemma example_prints_default : exists s d', pprint default_opts pu_example_doc = Ok (s, d').
Proof. eexists _, _. vm_compute. reflexivity. Qed.

Lemma example_prints_tabs_crlf : exists s d', pprint opts_tabs_crlf pu_example_doc = Ok (s, d').
Proof. eexists _, _. vm_compute. reflexivity. Qed.

Example guards_inhabited :
  uniq_keys pu_example_doc = true /\ roots_qf pu_example_doc = true
  /\ content_closed 34%N false pu_example_doc = true /\ content_closed 39%N true pu_example_doc = true
  /\ layout_ok default_opts = true /\ layout_ok opts_tabs_crlf = true
  /\ (exists s d', pprint default_opts pu_example_doc = Ok (s, d'))
  /\ (exists s d', pprint opts_tabs_crlf pu_example_doc = Ok (s, d')).
Proof.
  split; [exact example_uniq|]. split; [exact example_qf|]. split; [exact example_closed_double|].
  split; [exact example_closed_single_sct|]. split; [reflexivity|]. split; [reflexivity|].
  split; [exact example_prints_default|exact example_prints_tabs_crlf].
Qed.
