(* C13 (position part): failure alignment of include_position through the
   comments pass (include_comments=True), on top of Proofs/C13U.v.
   The runs with and without positions fail together also when comments are
   collected, for trees that satisfy two explicit boolean guards:
     gkv  the children of key-value blocks are tokens and pair nodes (C13U.v);
     gnp  no node would be given the metadata-comment key __position__. *)
From MF Require Import Lib.Base Lib.PyDict Lib.PyNum Model.GrammarTypes Model.Lexer Model.LR
  Model.Case Model.Transformer Model.Api Gen.Tokens Gen.Grammar Proofs.C11 Proofs.C13U.
Open Scope N_scope.

(* ================================================================ tr_main on related trees *)
Lemma tr_list_EG ip ip' ic cs : forall cs' xs ys,
  Grel_list cs cs' -> tr_list ip ic cs = Ok xs -> tr_list ip' ic cs' = Ok ys -> Forall2 E xs ys.
Proof.
  induction cs as [|c cs IH]; intros [|c' cs'] xs ys HL L1 L2; try contradiction.
  - cbn in L1, L2. injection L1 as <-. injection L2 as <-. constructor.
  - destruct HL as [Hc HL]. cbn [tr_list] in L1, L2.
    destruct (tr_main ip ic c) as [x1|e] eqn:T1; cbn [bind] in L1; [|discriminate].
    destruct (tr_main ip' ic c') as [y1|e] eqn:T2; cbn [bind] in L2; [|discriminate].
    fold (tr_list ip ic cs) in L1. fold (tr_list ip' ic cs') in L2.
    destruct (tr_list ip ic cs) as [xs1|e]; cbn [bind] in L1; [|discriminate].
    destruct (tr_list ip' ic cs') as [ys1|e] eqn:L2'; cbn [bind] in L2; [|discriminate].
    injection L1 as <-. injection L2 as <-. constructor; [|eapply IH; [exact HL|reflexivity|exact L2']].
    exact (tr_main_E ip ip' ic c c' x1 y1 Hc T1 T2).
Qed.

Theorem tr_main_alignG ip ip' ic : forall g g' x,
  Grel g g' -> gwf g = true -> gwf g' = true -> ip' = false \/ gkv g' = true ->
  tr_main ip ic g = Ok x -> exists y, tr_main ip' ic g' = Ok y.
Proof.
  fix IH 1. intros g g' x HR HG HG' HK H.
  destruct g as [t|d cs m|v], g' as [t'|d' cs' m'|v']; try contradiction; try (eexists; reflexivity).
  rewrite Grel_node in HR. destruct HR as (<- & <- & HL).
  rewrite tr_main_node in *. cbn [gwf] in HG, HG'.
  destruct (tr_list ip ic cs) as [xs|e] eqn:L1; cbn [bind] in H; [|discriminate].
  assert (HLs : exists ys, tr_list ip' ic cs' = Ok ys).
  { assert (HK' : ip' = false \/ forallb gkv cs' = true).
    { destruct HK as [HK|HK]; [left; exact HK|right]. cbn [gkv] in HK. apply andb_true_iff in HK. apply HK. }
    clear H HK. revert cs' xs HL HG' HK' L1.
    induction cs as [|c cs IHcs]; intros [|c' cs'] xs HL HG' HK' L1; try contradiction; [eexists; reflexivity|].
    destruct HL as [Hc HL].
    cbn [forallb] in HG, HG'. apply andb_true_iff in HG, HG'. destruct HG as [Gc HG], HG' as [Gc' HG'].
    assert (HKc : ip' = false \/ gkv c' = true).
    { destruct HK' as [HK'|HK']; [left; exact HK'|right]. cbn [forallb] in HK'. apply andb_true_iff in HK'. apply HK'. }
    assert (HKs : ip' = false \/ forallb gkv cs' = true).
    { destruct HK' as [HK'|HK']; [left; exact HK'|right]. cbn [forallb] in HK'. apply andb_true_iff in HK'. apply HK'. }
    cbn [tr_list] in *.
    destruct (tr_main ip ic c) as [x1|e] eqn:T1; cbn [bind] in L1; [|discriminate].
    destruct (IH c c' x1 Hc Gc Gc' HKc T1) as [y1 ->]. cbn [bind].
    fold (tr_list ip ic cs) in L1. fold (tr_list ip' ic cs').
    destruct (tr_list ip ic cs) as [xs1|e] eqn:L1'; cbn [bind] in L1; [|discriminate].
    destruct (IHcs HG cs' xs1 HL HG' HKs eq_refl) as [ys1 ->]. cbn [bind]. eexists; reflexivity. }
  destruct HLs as [ys L2]. rewrite L2. cbn [bind].
  eapply callback_align; [exact (tr_list_EG ip ip' ic cs cs' xs ys HL L1 L2)| | | |exact H].
  - exact (tr_list_W ip ic cs xs HG L1).
  - exact (tr_list_W ip' ic cs' ys HG' L2).
  - destruct HK as [HK|HK]; [left; exact HK|right]. cbn [gkv] in HK. apply andb_true_iff in HK. destruct HK as [HK _].
    destruct (is_kv d); [left|right; reflexivity]. eapply tr_list_kv; eassumption.
Qed.

(* ================================================================ W through the comments callbacks *)
Lemma od_set_cons_other {A} k (v : A) k0 v0 l :
  str_eqb k k0 = false -> od_set k v ((k0, v0) :: l) = (k0, v0) :: od_set k v l.
Proof.
  intros H. unfold od_set. cbn [od_mem]. rewrite H. cbn [orb].
  destruct (od_mem k l); cbn [od_replace app]; rewrite ?H; reflexivity.
Qed.

Lemma nopos_replace k v (l : titems) : nopos_keys (od_replace k v l) = nopos_keys l.
Proof.
  unfold nopos_keys. induction l as [|[k1 v1] l IH]; [reflexivity|]. cbn [od_replace].
  destruct (str_eqb k k1); [reflexivity|]. cbn [forallb fst]. rewrite IH. reflexivity.
Qed.

Lemma nopos_od_set k v (l : titems) : is_pos k = false -> nopos_keys l = true -> nopos_keys (od_set k v l) = true.
Proof.
  intros Hk H. unfold od_set. destruct (od_mem k l); [rewrite nopos_replace; exact H|].
  unfold nopos_keys. rewrite forallb_app. fold (nopos_keys l). rewrite H. cbn [forallb fst]. rewrite Hk. reflexivity.
Qed.

Lemma cfg_ok_od_set k v (l : titems) : str_eqb s_config k = false -> cfg_ok (od_set k v l) = cfg_ok l.
Proof.
  intros H. unfold cfg_ok. rewrite get_set_other; [reflexivity|]. apply str_eqb_neq. exact H.
Qed.

Lemma attr_shaped_set_comments v items :
  attr_shaped items = true -> attr_shaped (od_set s_comments (TVal v) items) = true.
Proof.
  intros H. destruct (attr_shaped_inv _ H) as (p & rest & -> & N & C).
  rewrite od_set_cons_other by reflexivity. cbn [attr_shaped].
  change (is_pos s_position) with true. cbn [andb].
  rewrite nopos_od_set by (reflexivity || exact N). rewrite cfg_ok_od_set by reflexivity. exact C.
Qed.

Lemma typed_od_set k v items : typed items = true -> typed (od_set k v items) = true.
Proof. unfold typed. intros H. rewrite od_mem_set, H. apply orb_true_r. Qed.

Lemma W_set_comments c v items :
  W (TDict c items) = true -> W (TDict c (od_set s_comments (TVal v) items)) = true.
Proof.
  cbn [W]. intros H. apply orb_true_iff in H. destruct H as [H|H].
  - rewrite typed_od_set by exact H. reflexivity.
  - rewrite attr_shaped_set_comments by exact H. apply orb_true_r.
Qed.

Lemma W_setk_comments c v items :
  W (TDict c items) = true -> W (TDict c (cc_setk c s_comments (TVal v) items)) = true.
Proof.
  intros H. destruct c; cbn [cc_setk]; unfold ci_set; rewrite ?lower_comments; apply W_set_comments; exact H.
Qed.

Lemma comments_callback_cases ip g h : comments_callback ip g = Ok h -> h = g \/ exists v, h = GVal v.
Proof.
  rewrite comments_callback_stages. intros H. destruct g as [t|d cs m|v]; try (injection H as <-; left; reflexivity).
  destruct (d =? CB_attr).
  { destruct (tr_main ip true _) as [r|e]; cbn [bind] in H; [|discriminate].
    destruct r; try discriminate. injection H as <-. right. eexists; reflexivity. }
  destruct (d =? CB_projection).
  { destruct (tr_main ip true _) as [r|e]; cbn [bind] in H; [|discriminate].
    destruct r; try discriminate. cbn [cc_projection] in H.
    destruct (has_comments m); injection H as <-; right; eexists; reflexivity. }
  destruct (d =? CB_composite); [|injection H as <-; left; reflexivity].
  destruct (tr_main ip true _) as [r|e]; cbn [bind] in H; [|discriminate].
  destruct r as [| | |c items]; try discriminate. cbn [cc_composite] in H.
  destruct (cc_dictlike _).
  - unfold cc_dict in H. cbv zeta in H.
    destruct (cc_cm2 _ _ _); cbn [bind] in H; [|discriminate]. injection H as <-. right. eexists; reflexivity.
  - apply cc_nondict_inv in H. right. eexists; exact H.
Qed.

Lemma comments_callback_gwf ip g h : gwf g = true -> comments_callback ip g = Ok h -> gwf h = true.
Proof.
  intros HG H. rewrite comments_callback_stages in H.
  destruct g as [t|d cs m|v]; try (injection H as <-; exact HG).
  destruct (d =? CB_attr).
  { destruct (tr_main ip true _) as [r|e] eqn:T; cbn [bind] in H; [|discriminate].
    pose proof (tr_main_W ip true _ r HG T) as HW.
    destruct r; try discriminate. injection H as <-. cbn [gwf]. apply W_set_comments. exact HW. }
  destruct (d =? CB_projection).
  { destruct (tr_main ip true _) as [r|e] eqn:T; cbn [bind] in H; [|discriminate].
    pose proof (tr_main_W ip true _ r HG T) as HW.
    destruct r; try discriminate. cbn [cc_projection] in H.
    destruct (has_comments m); injection H as <-; cbn [gwf]; [apply W_set_comments|]; exact HW. }
  destruct (d =? CB_composite); [|injection H as <-; exact HG].
  destruct (tr_main ip true _) as [r|e] eqn:T; cbn [bind] in H; [|discriminate].
  pose proof (tr_main_W ip true _ r HG T) as HW.
  destruct r as [| | |c items]; try discriminate. cbn [cc_composite] in H.
  destruct (cc_dictlike _).
  - unfold cc_dict in H. cbv zeta in H.
    destruct (cc_cm2 _ _ _); cbn [bind] in H; [|discriminate]. injection H as <-.
    cbn [gwf]. apply W_setk_comments. exact HW.
  - apply cc_nondict_inv in H. subst h. exact HW.
Qed.

Theorem ctr_gwf ip : forall g h, gwf g = true -> ctr ip g = Ok h -> gwf h = true.
Proof.
  fix IH 1. intros g h HG H. destruct g as [t|d cs m|v]; try (cbn in H; injection H as <-; exact HG).
  rewrite ctr_node in H. destruct (ctr_list ip cs) as [cs'|e] eqn:L; cbn [bind] in H; [|discriminate].
  injection H as <-. cbn [gwf] in *. revert cs' L.
  induction cs as [|c cs IHcs]; intros cs' L.
  - cbn in L. injection L as <-. reflexivity.
  - cbn [forallb] in HG. apply andb_true_iff in HG. destruct HG as [Hc HG]. cbn [ctr_list] in L.
    destruct (ctr ip c) as [c1|e] eqn:T1; cbn [bind] in L; [|discriminate].
    destruct (comments_callback ip c1) as [c2|e] eqn:K1; cbn [bind] in L; [|discriminate].
    fold (ctr_list ip cs) in L. destruct (ctr_list ip cs) as [r|e]; cbn [bind] in L; [|discriminate].
    injection L as <-. cbn [forallb].
    rewrite (comments_callback_gwf ip c1 c2 (IH c c1 Hc T1) K1). apply IHcs; [exact HG|reflexivity].
Qed.

(* ================================================================ the shape guard survives the comments pass *)
Lemma len2_not_commented d :
  len2 d = true -> (d =? CB_attr) = false /\ (d =? CB_projection) = false /\ (d =? CB_composite) = false.
Proof.
  unfold len2. intros H.
  repeat (apply orb_true_iff in H; destruct H as [H|H]); apply N.eqb_eq in H; subst d; repeat split; reflexivity.
Qed.

Lemma kv_node_pass ip c c1 c2 :
  kv_node c = true -> ctr ip c = Ok c1 -> comments_callback ip c1 = Ok c2 -> kv_node c2 = true.
Proof.
  intros HK H1 H2. destruct c as [t|d cs m|v]; [| |discriminate].
  - cbn in H1. injection H1 as <-. cbn in H2. injection H2 as <-. reflexivity.
  - rewrite ctr_node in H1. destruct (ctr_list ip cs) as [cs'|e]; cbn [bind] in H1; [|discriminate].
    injection H1 as <-. cbn [kv_node] in HK. destruct (len2_not_commented d HK) as (E1 & E2 & E3).
    rewrite comments_callback_stages in H2. rewrite E1, E2, E3 in H2. injection H2 as <-. exact HK.
Qed.

Lemma comments_callback_gkv ip g h : gkv g = true -> comments_callback ip g = Ok h -> gkv h = true.
Proof.
  intros HK H. destruct (comments_callback_cases ip g h H) as [->|[v ->]]; [exact HK|reflexivity].
Qed.

Theorem ctr_gkv ip : forall g h, gkv g = true -> ctr ip g = Ok h -> gkv h = true.
Proof.
  fix IH 1. intros g h HK H. destruct g as [t|d cs m|v]; try (cbn in H; injection H as <-; exact HK).
  rewrite ctr_node in H. destruct (ctr_list ip cs) as [cs'|e] eqn:L; cbn [bind] in H; [|discriminate].
  injection H as <-. cbn [gkv] in *. apply andb_true_iff in HK. destruct HK as [HK1 HK2].
  assert (HA : (forallb kv_node cs = true -> forallb kv_node cs' = true) /\ forallb gkv cs' = true).
  { clear HK1. revert cs' L. induction cs as [|c cs IHcs]; intros cs' L.
    - cbn in L. injection L as <-. split; reflexivity.
    - cbn [forallb] in HK2. apply andb_true_iff in HK2. destruct HK2 as [Hc HK2]. cbn [ctr_list] in L.
      destruct (ctr ip c) as [c1|e] eqn:T1; cbn [bind] in L; [|discriminate].
      destruct (comments_callback ip c1) as [c2|e] eqn:K1; cbn [bind] in L; [|discriminate].
      fold (ctr_list ip cs) in L. destruct (ctr_list ip cs) as [r|e]; cbn [bind] in L; [|discriminate].
      injection L as <-. destruct (IHcs HK2 r eq_refl) as [A1 A2]. cbn [forallb]. split.
      + intros HN. apply andb_true_iff in HN. destruct HN as [N1 N2].
        rewrite (kv_node_pass ip c c1 c2 N1 T1 K1). apply A1. exact N2.
      + rewrite (comments_callback_gkv ip c1 c2 (IH c c1 Hc T1) K1). exact A2. }
  destruct HA as [A1 A2]. rewrite A2, andb_true_r.
  destruct (is_kv d); [apply A1; exact HK1|reflexivity].
Qed.

(* ================================================================ no node named __position__ for the metadata comments *)
Definition mck_ok (sp : gtree) : bool :=
  match metadata_comment_key sp with
  | Ok (key, _) => negb (is_pos key)
  | Err _ => true
  end.

Fixpoint gnp (g : gtree) : bool :=
  mck_ok g && match g with GNode _ cs _ => forallb gnp cs | _ => true end.

Lemma gnp_mck g : gnp g = true -> mck_ok g = true.
Proof. destruct g; cbn [gnp]; intros H; apply andb_true_iff in H; apply H. Qed.

Lemma gnp_children d cs m : gnp (GNode d cs m) = true -> forallb gnp cs = true.
Proof. cbn [gnp]. intros H. apply andb_true_iff in H. apply H. Qed.

(* the first child after the pass: a token stays, a node stays or becomes a value *)
Lemma pass_tok ip t c1 c2 : ctr ip (GTok t) = Ok c1 -> comments_callback ip c1 = Ok c2 -> c2 = GTok t.
Proof. cbn. intros [= <-]. cbn. intros [= <-]. reflexivity. Qed.

Lemma ctr_list_cons ip c cs r :
  ctr_list ip (c :: cs) = Ok r ->
  exists c1 c2 r', ctr ip c = Ok c1 /\ comments_callback ip c1 = Ok c2 /\ ctr_list ip cs = Ok r' /\ r = c2 :: r'.
Proof.
  cbn [ctr_list]. intros L.
  destruct (ctr ip c) as [c1|e] eqn:T1; cbn [bind] in L; [|discriminate].
  destruct (comments_callback ip c1) as [c2|e] eqn:K1; cbn [bind] in L; [|discriminate].
  fold (ctr_list ip cs) in L. destruct (ctr_list ip cs) as [r'|e]; cbn [bind] in L; [|discriminate].
  injection L as <-. exists c1, c2, r'. auto.
Qed.

Lemma mck_after_ctr ip g h : ctr ip g = Ok h -> mck_ok g = true -> mck_ok h = true.
Proof.
  intros H HM. destruct g as [t|d cs m|v]; try (cbn in H; injection H as <-; exact HM).
  rewrite ctr_node in H. destruct (ctr_list ip cs) as [cs'|e] eqn:L; cbn [bind] in H; [|discriminate].
  injection H as <-. destruct cs as [|c cs]; [cbn in L; injection L as <-; exact HM|].
  destruct (ctr_list_cons ip c cs cs' L) as (c1 & c2 & r' & T1 & K1 & _ & ->).
  destruct c as [t|d2 cs2 m2|v].
  - rewrite (pass_tok ip t c1 c2 T1 K1). exact HM.
  - rewrite ctr_node in T1. destruct (ctr_list ip cs2) as [cs2'|e] eqn:L2; cbn [bind] in T1; [|discriminate].
    injection T1 as <-.
    destruct (comments_callback_cases ip _ _ K1) as [->|[v ->]]; [|reflexivity].
    destruct cs2 as [|c3 cs3]; [cbn in L2; injection L2 as <-; exact HM|].
    destruct (ctr_list_cons ip c3 cs3 cs2' L2) as (c31 & c32 & r3 & T3 & K3 & _ & ->).
    destruct c3 as [t|d3 cs4 m3|v].
    + rewrite (pass_tok ip t c31 c32 T3 K3). exact HM.
    + rewrite ctr_node in T3. destruct (ctr_list ip cs4) as [cs4'|e]; cbn [bind] in T3; [|discriminate].
      injection T3 as <-. destruct (comments_callback_cases ip _ _ K3) as [->|[v ->]]; reflexivity.
    + cbn in T3. injection T3 as <-. cbn in K3. injection K3 as <-. reflexivity.
  - cbn in T1. injection T1 as <-. cbn in K1. injection K1 as <-. reflexivity.
Qed.

Lemma comments_callback_gnp ip g h : gnp g = true -> comments_callback ip g = Ok h -> gnp h = true.
Proof.
  intros HK H. destruct (comments_callback_cases ip g h H) as [->|[v ->]]; [exact HK|reflexivity].
Qed.

Theorem ctr_gnp ip : forall g h, gnp g = true -> ctr ip g = Ok h -> gnp h = true.
Proof.
  fix IH 1. intros g h HK H.
  pose proof (mck_after_ctr ip g h H (gnp_mck g HK)) as HM.
  destruct g as [t|d cs m|v]; try (cbn in H; injection H as <-; exact HK).
  pose proof (gnp_children d cs m HK) as HC. clear HK.
  rewrite ctr_node in H. destruct (ctr_list ip cs) as [cs'|e] eqn:L; cbn [bind] in H; [|discriminate].
  injection H as <-. cbn [gnp]. rewrite HM. cbn [andb]. clear HM. revert cs' L.
  induction cs as [|c cs IHcs]; intros cs' L.
  - cbn in L. injection L as <-. reflexivity.
  - cbn [forallb] in HC. apply andb_true_iff in HC. destruct HC as [Hc HC].
    destruct (ctr_list_cons ip c cs cs' L) as (c1 & c2 & r' & T1 & K1 & L' & ->).
    cbn [forallb]. rewrite (comments_callback_gnp ip c1 c2 (IH c c1 Hc T1) K1). apply IHcs; assumption.
Qed.

(* ================================================================ comments callbacks fail together *)
Lemma amc_align items items' l : forall l' acc r,
  Grel_list l l' -> forallb mck_ok l' = true -> SI items = SI items' ->
  fold_left (amc_step items) l acc = Ok r -> exists r', fold_left (amc_step items') l' acc = Ok r'.
Proof.
  induction l as [|sp l IH]; intros [|sp' l'] acc r HL HM HS H; try contradiction.
  - cbn in *. eexists; exact H.
  - destruct HL as [Hs HL]. cbn [forallb] in HM. apply andb_true_iff in HM. destruct HM as [M1 M2].
    cbn [fold_left] in *.
    destruct acc as [c|e]; [|cbn [amc_step bind] in H; rewrite amc_fold_err in H; discriminate].
    unfold amc_step at 2 in H. unfold amc_step at 2. cbn [bind] in *.
    unfold mck_ok in M1. rewrite (metadata_comment_key_G _ _ Hs) in *.
    destruct (metadata_comment_key sp) as [[key m]|e]; cbn [bind] in *;
      [|rewrite amc_fold_err in H; discriminate].
    apply negb_true_iff in M1.
    pose proof (SI_assoc_E key items items' M1 HS) as Ha.
    destruct (assoc key items), (assoc key items'); cbn [optE] in Ha; try contradiction.
    + eapply IH; eassumption.
    + unfold vfail in H. rewrite amc_fold_err in H. discriminate.
Qed.

Lemma forallb_removelast {A} (f : A -> bool) l : forallb f l = true -> forallb f (removelast l) = true.
Proof.
  induction l as [|a l IH]; [reflexivity|]. intros H. cbn [forallb] in H.
  apply andb_true_iff in H. destruct H as [H1 H2]. destruct l as [|b l]; [reflexivity|].
  change (forallb f (a :: removelast (b :: l)) = true). cbn [forallb]. rewrite H1. apply IH. exact H2.
Qed.

Lemma add_metadata_comments_align items items' cm md md' r :
  Grel_list md md' -> forallb mck_ok md' = true -> SI items = SI items' ->
  add_metadata_comments items cm md = Ok r -> exists r', add_metadata_comments items' cm md' = Ok r'.
Proof.
  intros HL HM HS H. rewrite add_metadata_comments_stages in *.
  destruct md as [|a [|b [|c l]]], md' as [|a' [|b' [|c' l']]]; cbn [Grel_list] in HL; try tauto;
    try (eexists; reflexivity).
  eapply amc_align; [| |exact HS|exact H].
  - apply Grel_list_removelast. cbn [Grel_list]. tauto.
  - apply forallb_removelast. cbn [forallb] in HM. apply andb_true_iff in HM. apply HM.
Qed.

Lemma gnp_forall_mck l : forallb gnp l = true -> forallb mck_ok l = true.
Proof.
  induction l as [|a l IH]; [reflexivity|]. cbn [forallb]. intros H. apply andb_true_iff in H.
  destruct H as [H1 H2]. rewrite (gnp_mck a H1). apply IH. exact H2.
Qed.

Lemma cc_cm2_align cs cs' items items' cm1 r :
  Grel_list cs cs' -> forallb gnp cs' = true -> SI items = SI items' ->
  cc_cm2 cs items cm1 = Ok r -> exists r', cc_cm2 cs' items' cm1 = Ok r'.
Proof.
  intros HL HN HS H. unfold cc_cm2 in *.
  pose proof (SI_assoc_E s_type items items' is_pos_type HS) as Ht.
  destruct (assoc s_type items) as [ty|]; [|discriminate].
  destruct (assoc s_type items') as [ty'|]; cbn [optE] in Ht; [|contradiction].
  destruct ty as [[| | | |k| |]| | |]; try discriminate.
  apply E_val_l in Ht. subst ty'.
  destruct (str_eqb k s_metadata); [|eexists; reflexivity].
  destruct cs as [|[t|d mdkids m|v] cs]; try discriminate.
  destruct cs' as [|c' cs']; [contradiction|]. destruct HL as [Hc _].
  destruct c' as [t'|d' mdkids' m'|v']; try contradiction.
  rewrite Grel_node in Hc. destruct Hc as (_ & _ & Hk).
  cbn [forallb] in HN. apply andb_true_iff in HN. destruct HN as [HN _].
  eapply add_metadata_comments_align; [exact Hk| |exact HS|exact H].
  apply gnp_forall_mck. eapply gnp_children. exact HN.
Qed.

(* the non-dict __comments__ branch looks at the comments of the node, the
   block type and the number of children of the block only *)
Lemma cc_nondict_align cs cs' m items items' r r' h :
  Grel_list cs cs' -> SI items = SI items' ->
  cc_nondict cs m items r = Ok h -> exists h', cc_nondict cs' m items' r' = Ok h'.
Proof.
  intros HL HS H. unfold cc_nondict in *. destruct (has_comments m); [discriminate|].
  pose proof (SI_assoc_E s_type items items' is_pos_type HS) as Ht.
  destruct (assoc s_type items) as [ty|]; [|discriminate].
  destruct (assoc s_type items') as [ty'|]; cbn [optE] in Ht; [|contradiction].
  destruct ty as [[| | | |k| |]| | |]; try discriminate.
  apply E_val_l in Ht. subst ty'.
  destruct (str_eqb k s_metadata); [|eexists; reflexivity].
  destruct cs as [|[t|d kids m0|v] cs]; try discriminate.
  destruct cs' as [|c' cs']; [contradiction|]. destruct HL as [Hc _].
  destruct c' as [t'|d' kids' m0'|v']; try contradiction.
  rewrite Grel_node in Hc. destruct Hc as (_ & _ & Hk).
  destruct kids as [|a [|b [|c0 l]]], kids' as [|a' [|b' [|c0' l']]]; cbn [Grel_list] in Hk; try tauto;
    try discriminate; eexists; reflexivity.
Qed.

Lemma comments_callback_align ip ip' g g' h :
  Grel g g' -> gwf g = true -> gwf g' = true -> ip' = false \/ gkv g' = true -> gnp g' = true ->
  comments_callback ip g = Ok h -> exists h', comments_callback ip' g' = Ok h'.
Proof.
  intros HR HG HG' HK HN H. rewrite comments_callback_stages in *.
  destruct g as [t|d cs m|v], g' as [t'|d' cs' m'|v']; try contradiction; try (eexists; reflexivity).
  pose proof HR as HR0. rewrite Grel_node in HR. destruct HR as (<- & <- & HL).
  destruct (d =? CB_attr).
  { destruct (tr_main ip true _) as [r|e] eqn:T1; cbn [bind] in H; [|discriminate].
    destruct (tr_main_alignG ip ip' true _ _ r HR0 HG HG' HK T1) as [r' T2]. rewrite T2. cbn [bind].
    pose proof (tr_main_E ip ip' true _ _ r r' HR0 T1 T2) as He.
    destruct r as [| | |c items]; try discriminate. apply E_dict_l in He. destruct He as (items' & -> & _).
    eexists; reflexivity. }
  destruct (d =? CB_projection).
  { destruct (tr_main ip true _) as [r|e] eqn:T1; cbn [bind] in H; [|discriminate].
    destruct (tr_main_alignG ip ip' true _ _ r HR0 HG HG' HK T1) as [r' T2]. rewrite T2. cbn [bind].
    pose proof (tr_main_E ip ip' true _ _ r r' HR0 T1 T2) as He.
    destruct r as [| | |c items]; try discriminate. apply E_dict_l in He. destruct He as (items' & -> & _).
    cbn [cc_projection]. destruct (has_comments m); eexists; reflexivity. }
  destruct (d =? CB_composite); [|eexists; reflexivity].
  destruct (tr_main ip true _) as [r|e] eqn:T1; cbn [bind] in H; [|discriminate].
  destruct (tr_main_alignG ip ip' true _ _ r HR0 HG HG' HK T1) as [r' T2]. rewrite T2. cbn [bind].
  pose proof (tr_main_E ip ip' true _ _ r r' HR0 T1 T2) as He.
  destruct r as [| | |c items]; try discriminate. apply E_dict_l in He. destruct He as (items' & -> & HS).
  cbn [cc_composite] in *.
  rewrite (cc_dictlike_E _ _ (cc_existing_E c items items' HS)).
  destruct (cc_dictlike (cc_existing c items)).
  - unfold cc_dict in *. cbv zeta in *. rewrite (cc_cm0_E c items items' HS).
    destruct (cc_cm2 cs items _) as [cm2|e] eqn:C1; cbn [bind] in H; [|discriminate].
    destruct (cc_cm2_align cs cs' items items' _ cm2 HL (gnp_children _ _ _ HN) HS C1) as [cm2' ->].
    cbn [bind]. eexists; reflexivity.
  - eapply cc_nondict_align; [exact HL|exact HS|exact H].
Qed.

Theorem ctr_align ip ip' : forall g g' h,
  Grel g g' -> gwf g = true -> gwf g' = true -> ip' = false \/ gkv g' = true -> gnp g' = true ->
  ctr ip g = Ok h -> exists h', ctr ip' g' = Ok h'.
Proof.
  fix IH 1. intros g g' h HR HG HG' HK HN H.
  destruct g as [t|d cs m|v], g' as [t'|d' cs' m'|v']; try contradiction; try (eexists; reflexivity).
  rewrite Grel_node in HR. destruct HR as (<- & <- & HL).
  rewrite ctr_node in *. cbn [gwf] in HG, HG'. pose proof (gnp_children _ _ _ HN) as HNc.
  assert (HK' : ip' = false \/ forallb gkv cs' = true).
  { destruct HK as [HK|HK]; [left; exact HK|right]. cbn [gkv] in HK. apply andb_true_iff in HK. apply HK. }
  destruct (ctr_list ip cs) as [xs|e] eqn:L1; cbn [bind] in H; [|discriminate].
  assert (HLs : exists ys, ctr_list ip' cs' = Ok ys).
  { clear H HK HN. revert cs' xs HL HG' HK' HNc L1.
    induction cs as [|c cs IHcs]; intros [|c' cs'] xs HL HG' HK' HNc L1; try contradiction; [eexists; reflexivity|].
    destruct HL as [Hc HL].
    cbn [forallb] in HG, HG', HNc. apply andb_true_iff in HG, HG', HNc.
    destruct HG as [Gc HG], HG' as [Gc' HG'], HNc as [Nc HNc].
    assert (HKc : ip' = false \/ gkv c' = true).
    { destruct HK' as [HK'|HK']; [left; exact HK'|right]. cbn [forallb] in HK'. apply andb_true_iff in HK'. apply HK'. }
    assert (HKs : ip' = false \/ forallb gkv cs' = true).
    { destruct HK' as [HK'|HK']; [left; exact HK'|right]. cbn [forallb] in HK'. apply andb_true_iff in HK'. apply HK'. }
    destruct (ctr_list_cons ip c cs xs L1) as (c1 & c2 & r' & T1 & K1 & L1' & ->).
    destruct (IH c c' c1 Hc Gc Gc' HKc Nc T1) as [c1' T2].
    assert (HKc1 : ip' = false \/ gkv c1' = true).
    { destruct HKc as [HKc|HKc]; [left; exact HKc|right]. eapply ctr_gkv; eassumption. }
    destruct (comments_callback_align ip ip' c1 c1' c2 (ctr_G ip ip' c c' c1 c1' Hc T1 T2)
                (ctr_gwf ip c c1 Gc T1) (ctr_gwf ip' c' c1' Gc' T2) HKc1 (ctr_gnp ip' c' c1' Nc T2) K1) as [c2' K2].
    destruct (IHcs HG cs' r' HL HG' HKs HNc L1') as [ys1 L2'].
    cbn [ctr_list]. rewrite T2. cbn [bind]. rewrite K2. cbn [bind].
    fold (ctr_list ip' cs'). rewrite L2'. cbn [bind]. eexists; reflexivity. }
  destruct HLs as [ys ->]. cbn [bind]. eexists; reflexivity.
Qed.

(* ================================================================ transform / loads with comments on *)
Theorem transform_align_comments ip ip' t x :
  ip' = false \/ gkv (canonize (gtree_of t)) = true -> gnp (canonize (gtree_of t)) = true ->
  transform ip true t = Ok x -> exists y, transform ip' true t = Ok y.
Proof.
  intros HK HN H. unfold transform in *.
  set (g := canonize (gtree_of t)) in *.
  assert (HG : gwf g = true) by (apply gwf_canonize, gwf_gtree_of).
  destruct (ctr ip g) as [g1|e] eqn:C1; cbn [bind] in H; [|discriminate].
  destruct (ctr_align ip ip' g g g1 (Grel_refl g) HG HG HK HN C1) as [g1' C2]. rewrite C2. cbn [bind].
  destruct (comments_callback ip g1) as [g2|e] eqn:K1; cbn [bind] in H; [|discriminate].
  assert (HK1 : ip' = false \/ gkv g1' = true).
  { destruct HK as [HK|HK]; [left; exact HK|right]. eapply ctr_gkv; eassumption. }
  pose proof (ctr_G ip ip' g g g1 g1' (Grel_refl g) C1 C2) as R1.
  pose proof (ctr_gwf ip g g1 HG C1) as G1. pose proof (ctr_gwf ip' g g1' HG C2) as G1'.
  pose proof (ctr_gnp ip' g g1' HN C2) as N1'.
  destruct (comments_callback_align ip ip' g1 g1' g2 R1 G1 G1' HK1 N1' K1) as [g2' K2]. rewrite K2. cbn [bind].
  assert (HK2 : ip' = false \/ gkv g2' = true).
  { destruct HK1 as [HK1|HK1]; [left; exact HK1|right]. eapply comments_callback_gkv; eassumption. }
  eapply tr_main_alignG; [| | |exact HK2|exact H].
  - eapply comments_callback_G; eassumption.
  - exact (comments_callback_gwf ip g1 g2 G1 K1).
  - exact (comments_callback_gwf ip' g1' g2' G1' K2).
Qed.

(* positions on succeeds => positions off succeeds, comments collected *)
Theorem position_alignment_transform_comments_on_to_off_guarded :
  forall t x, gnp (canonize (gtree_of t)) = true ->
  transform true true t = Ok x -> exists y, transform false true t = Ok y.
Proof. intros t x HN H. eapply transform_align_comments; [left; reflexivity|exact HN|exact H]. Qed.

Theorem position_alignment_transform_comments_off_to_on_guarded :
  forall t y, gkv (canonize (gtree_of t)) = true -> gnp (canonize (gtree_of t)) = true ->
  transform false true t = Ok y -> exists x, transform true true t = Ok x.
Proof. intros t y HK HN H. eapply transform_align_comments; [right; exact HK|exact HN|exact H]. Qed.

Theorem position_alignment_loads_comments_guarded :
  forall ip ip' text v,
  (forall t, parse_tree true text = Ok t ->
     (ip' = false \/ gkv (canonize (gtree_of t)) = true) /\ gnp (canonize (gtree_of t)) = true) ->
  loads ip true text = Ok v -> exists w, loads ip' true text = Ok w.
Proof.
  intros ip ip' text v HK H. unfold loads in *.
  destruct (parse_tree true text) as [t|e]; cbn [bind] in *; [|discriminate].
  destruct (HK t eq_refl) as [K1 K2].
  destruct (transform ip true t) as [x|e] eqn:T1; cbn [bind] in H; [|discriminate].
  destruct (transform_align_comments ip ip' t x K1 K2 T1) as [y ->]. cbn [bind]. apply tv_to_value_total.
Qed.

(* the guards hold on a real commented parse *)
Example guards_hold_on_a_commented_parse :
  match parse_tree true (Str "MAP # m
  NAME 'x' # n
  METADATA 'a' 'b' # kv
    ""c"" ""d""
  END
  LAYER TYPE POINT END
END") with
  | Ok t => gkv (canonize (gtree_of t)) && gnp (canonize (gtree_of t))
  | Err _ => false
  end = true.
Proof. vm_compute. reflexivity. Qed.

(* without gnp the first direction is FALSE on arbitrary trees (not on
   grammar-shaped ones): the metadata-comment key is read from the first token
   below the pair node, the dict key from the transformed value; a pair whose
   key is an attr_bind node around the token __position__ is stored under
   [__position__] but looked up under __position__, which only the positioned
   dict has *)
Definition cex_comment_tree : tree :=
  Node CB_composite
    [Node CB_metadata
       [Tok (cex_tok T_UNQUOTED_STRING "METADATA");
        Node CB_string_pair
          [Node CB_attr_bind [Tok (cex_tok T_UNQUOTED_STRING "__position__")] meta0;
           Tok (cex_tok T_UNQUOTED_STRING "v")] meta0;
        Tok (cex_tok T_UNQUOTED_STRING "END")] meta0] meta0.

Theorem position_alignment_comments_on_to_off_unguarded_refuted :
  exists t : tree, (exists x, transform true true t = Ok x) /\ transform false true t = Err LarkVisitError.
Proof. exists cex_comment_tree. split; [eexists; vm_compute; reflexivity|vm_compute; reflexivity]. Qed.

(* a key-value entry spelled __comments__ (corrected model: the non-dict entry is
   not replaced, the assignments into it raise): both position modes fail
   together, no further guard is needed since the key __comments__ is not
   __position__ and so is seen identically by the two runs *)
Example comments_key_fails_in_both_position_modes :
  let text := Str "MAP METADATA ""__comments__"" ""x"" ""a"" ""b"" END END" in
  loads true true text = Err LarkVisitError /\ loads false true text = Err LarkVisitError.
Proof. vm_compute. split; reflexivity. Qed.
