(* C02, universal part 4: SOURCE ORDER and LAST VALUE WINS.

   What composite() does with the results of a block's children, stated exactly:
     composite_is_fold_of_children   the children of the body are transformed in source order and
                                     handed, in that order, to the fold [comp_fold]
     block_fold_is_setall            over ordinary attributes the fold is Python's dict assignment
                                     d[k] = v, item by item ([od_setall] of Lib/PyDict.v)
     attribute_given_twice_keeps_last_value
                                     the value read back under k is that of the LAST occurrence
     attribute_keys_in_first_occurrence_order
                                     the key order is that of the FIRST occurrences (a repeated
                                     keyword keeps the place of its first occurrence)
     repeatable_block_appended / singleton_block_replaces / repeated_keyword_appended
                                     repeatable blocks and repeatable keywords are appended at the
                                     end of the list under their key, a singleton block is assigned
   [composite_is_fold_of_children] is for every gtree; the others are for every argument list
   (no bound on sizes).  They are partial with respect to loads only in that no closed formula of
   the whole result is given: each block of the result is obtained by these steps from the results
   of its children. *)
From MF Require Import Lib.Base Lib.PyDict Model.GrammarTypes Model.Case Model.Transformer
  Gen.Tokens Gen.Grammar Proofs.CaseFacts Proofs.C02 Proofs.C13U Proofs.C08U Proofs.C02U_Spec Proofs.C02U_Rel.
Open Scope N_scope.

(* ================================================================ dict assignment, item by item *)
Section SetAll.
  Context {A : Type}.
  Notation items := (list (str * A)).

  Lemma assoc_setall_last k (e : items) : forall d,
    assoc k (od_setall e d) = match assoc k (rev e) with Some v => Some v | None => assoc k d end.
  Proof.
    induction e as [|[k0 v0] e IH]; intros d; [reflexivity|].
    cbn [od_setall fold_left fst snd rev]. change (fold_left _ e ?x) with (od_setall e x). rewrite IH.
    destruct (assoc k (rev e)) as [v|] eqn:E.
    - rewrite (assoc_app_in _ _ _ _ E). reflexivity.
    - rewrite (assoc_app_notin _ _ _ E). cbn [assoc].
      destruct (str_eqb_spec k k0) as [->|Hne]; [apply get_set_same|apply get_set_other; exact Hne].
  Qed.

  Definition add_key (ks : list str) (k : str) : list str := if mem_str k ks then ks else ks ++ [k].

  Lemma od_mem_keys k (d : items) : od_mem k d = mem_str k (keys d).
  Proof. induction d as [|[k' v'] d IH]; [reflexivity|]. cbn [od_mem keys map fst mem_str]. rewrite IH. reflexivity. Qed.

  Lemma keys_setall_first (e : items) : forall d, keys (od_setall e d) = fold_left add_key (keys e) (keys d).
  Proof.
    induction e as [|[k0 v0] e IH]; intros d; [reflexivity|].
    cbn [od_setall fold_left fst snd]. change (fold_left _ e ?x) with (od_setall e x). rewrite IH.
    change (keys ((k0, v0) :: e)) with (k0 :: keys e). cbn [fold_left].
    f_equal. rewrite keys_set, od_mem_keys. reflexivity.
  Qed.
End SetAll.

(* ================================================================ one step of the fold *)
Definition plain_key (kn : str) : Prop :=
  lower kn = kn /\ str_eqb kn s_config = false /\ str_eqb kn s_points = false /\ mem_str kn REPEATED_KEYS = false.

(* d is the dict attr() returns for keyword kn with value v *)
Definition attr_of (kn : str) (v : tv) (d : tv) : Prop :=
  exists c items p, d = TDict c items /\ assoc s_type items = None /\
    assoc s_position items = Some (TVal p) /\ items2_of items = [(kn, v)].

Lemma composite_item_plain ic st d s kn v :
  attr_of kn v d -> plain_key kn -> composite_item ic st d = Ok s -> cs_dict s = od_set kn v (cs_dict st).
Proof.
  intros (c & items & p & -> & Et & Ep & E2) (Hl & Hc & Hp & Hr) H.
  rewrite composite_item_stages, Et, Ep in H. cbn [bind] in H. rewrite E2 in H.
  unfold ci_untyped in H. rewrite Hc, Hp, Hr in H. cbv zeta in H. injection H as <-.
  cbn [cs_dict]. unfold ci_set. rewrite Hl. reflexivity.
Qed.

Theorem block_fold_is_setall ic : forall l kvs st s,
  Forall2 (fun d kv => attr_of (fst kv) (snd kv) d /\ plain_key (fst kv)) l kvs ->
  comp_fold ic l (Ok st) = Ok s -> cs_dict s = od_setall kvs (cs_dict st).
Proof.
  induction l as [|d l IH]; intros kvs st s H2 H; inversion H2 as [|? kv ? kvs' [Ha Hk] H2']; subst.
  - cbn in H. injection H as <-. reflexivity.
  - cbn [comp_fold fold_left] in H. unfold comp_step at 2 in H. cbn [bind] in H.
    destruct (composite_item ic st d) as [st1|e] eqn:E1.
    + fold (comp_fold ic l (Ok st1)) in H. rewrite (IH _ _ _ H2' H).
      rewrite (composite_item_plain _ _ _ _ _ _ Ha Hk E1). destruct kv; reflexivity.
    + fold (comp_fold ic l (Err e)) in H. rewrite comp_fold_err in H. discriminate.
Qed.

Theorem attribute_given_twice_keeps_last_value ic l kvs st s k :
  Forall2 (fun d kv => attr_of (fst kv) (snd kv) d /\ plain_key (fst kv)) l kvs ->
  comp_fold ic l (Ok st) = Ok s ->
  assoc k (cs_dict s) = match assoc k (rev kvs) with Some v => Some v | None => assoc k (cs_dict st) end.
Proof. intros H2 H. rewrite (block_fold_is_setall ic l kvs st s H2 H). apply assoc_setall_last. Qed.

Theorem attribute_keys_in_first_occurrence_order ic l kvs st s :
  Forall2 (fun d kv => attr_of (fst kv) (snd kv) d /\ plain_key (fst kv)) l kvs ->
  comp_fold ic l (Ok st) = Ok s ->
  keys (cs_dict s) = fold_left add_key (keys kvs) (keys (cs_dict st)).
Proof. intros H2 H. rewrite (block_fold_is_setall ic l kvs st s H2 H). apply keys_setall_first. Qed.

(* ---------------------------------------------------------------- blocks and repeatable keywords *)
Definition cur_list (k : str) (d : titems) : tv := match ci_get k d with Some x => x | None => TSeq [] end.

Theorem repeatable_block_appended ic st c items k s :
  assoc s_type items = Some (TVal (VStr k)) -> mem_str k SINGLETON_COMPOSITE_NAMES = false ->
  composite_item ic st (TDict c items) = Ok s ->
  exists l, tvv (cur_list (plural k) (cs_dict st)) = VList l /\
            assoc (lower (plural k)) (tvi (cs_dict s)) = Some (VList (l ++ [tvv (TDict c items)])).
Proof.
  intros Ht Hs H. rewrite (block_placement ic st c items k Ht), Hs in H.
  destruct (tv_list_append _ (TDict c items)) as [cur'|e] eqn:A1; [|discriminate]. injection H as <-.
  destruct (tv_list_append_img _ _ _ A1) as (l & El & Er). exists l. split; [exact El|].
  cbn [cs_dict]. unfold ci_set. rewrite tvi_od_set, get_set_same, Er. reflexivity.
Qed.

Theorem singleton_block_replaces ic st c items k s :
  assoc s_type items = Some (TVal (VStr k)) -> mem_str k SINGLETON_COMPOSITE_NAMES = true ->
  composite_item ic st (TDict c items) = Ok s -> cs_dict s = od_set (lower k) (TDict c items) (cs_dict st).
Proof.
  intros Ht Hs H. rewrite (block_placement ic st c items k Ht), Hs in H. injection H as <-. reflexivity.
Qed.

Theorem repeated_keyword_appended ic st d s kn v :
  attr_of kn v d -> str_eqb kn s_config = false -> str_eqb kn s_points = false ->
  mem_str kn REPEATED_KEYS = true -> composite_item ic st d = Ok s ->
  exists l, tvv (cur_list kn (cs_dict st)) = VList l /\
            assoc (lower kn) (tvi (cs_dict s)) = Some (VList (l ++ [tvv v])).
Proof.
  intros (c & items & p & -> & Et & Ep & E2) Hc Hp Hr H.
  rewrite composite_item_stages, Et, Ep in H. cbn [bind] in H. rewrite E2 in H.
  unfold ci_untyped in H. rewrite Hc, Hp, Hr in H. cbv zeta in H.
  destruct (tv_list_append _ v) as [cur'|e] eqn:A1; cbn [bind] in H; [|discriminate]. injection H as <-.
  destruct (tv_list_append_img _ _ _ A1) as (l & El & Er). exists l. split; [exact El|].
  cbn [cs_dict]. unfold ci_set. rewrite tvi_od_set, get_set_same, Er. reflexivity.
Qed.

(* ================================================================ the children, in source order *)
Lemma tr_list_in_order ip ic cs : forall xs,
  tr_list ip ic cs = Ok xs -> Forall2 (fun c x => tr_main ip ic c = Ok x) cs xs.
Proof.
  induction cs as [|c cs IH]; intros xs L.
  - cbn in L. injection L as <-. constructor.
  - cbn [tr_list] in L. destruct (tr_main ip ic c) as [x1|e] eqn:T1; cbn [bind] in L; [|discriminate].
    fold (tr_list ip ic cs) in L. destruct (tr_list ip ic cs) as [xs1|e] eqn:L1; cbn [bind] in L; [|discriminate].
    injection L as <-. constructor; [exact T1|apply IH; reflexivity].
Qed.

(* a block node: the results of the body's children, in source order, are folded
   from the dict that holds only __type__; the finished dict is the fold's dict with
   the bookkeeping entries inserted right after __type__ *)
Theorem composite_is_fold_of_children ip ic key_node body_cs mb m x :
  tr_main ip ic (GNode CB_composite [key_node; GNode CB_composite_body body_cs mb] m) = Ok x ->
  exists key r xs kn pd st,
    tr_main ip ic key_node = Ok (TSeq (TTok key :: r)) /\
    Forall2 (fun c y => tr_main ip ic c = Ok y) body_cs xs /\
    key_name key = Ok kn /\ comp_pd ip key = Ok pd /\
    comp_fold ic xs (Ok (comp_init kn pd)) = Ok st /\ comp_finish ic st = Ok x.
Proof.
  intros H. rewrite tr_main_node in H. cbn [tr_list] in H.
  destruct (tr_main ip ic key_node) as [a|e] eqn:Ta; cbn [bind] in H; [|discriminate].
  rewrite tr_main_node in H.
  destruct (tr_list ip ic body_cs) as [xs|e] eqn:L; cbn [bind] in H; [|discriminate].
  change (callback ip ic CB_composite_body xs) with (@Ok tv (TSeq xs)) in H. cbn [bind] in H.
  change (callback ip ic CB_composite [a; TSeq xs]) with (cb_composite ip ic [a; TSeq xs]) in H.
  rewrite cb_composite_stages in H.
  destruct a as [| |[|[|key| |] r]|]; try discriminate. unfold comp_main in H. cbn [attrs_of] in H.
  destruct (key_name key) as [kn|e] eqn:En; cbn [bind] in H; [|discriminate].
  destruct (comp_pd ip key) as [pd|e] eqn:Ep; cbn [bind] in H; [|discriminate].
  destruct (comp_fold ic xs _) as [st|e] eqn:F; cbn [bind] in H; [|discriminate].
  exists key, r, xs, kn, pd, st. split; [reflexivity|]. split; [apply tr_list_in_order; exact L|].
  repeat split; assumption.
Qed.
