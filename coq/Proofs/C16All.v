(* C16: the lemmas stated exactly as the theorems of Props/C16.v. *)
From MF Require Import Lib.Base Lib.PyDict Gen.Tokens Model.Case Model.Quoter Model.PPrint
  Spec.Layout Proofs.PPrintFacts Proofs.C16 Proofs.C16Breaks Proofs.C16Align.

Lemma c16_aligned_column_formula_lemma :
  forall o L,
    compute_aligned_max_indent o L = (L / Nat.max 1 (indent o) + 1) * Nat.max 1 (indent o)
    /\ first_multiple_past (Nat.max 1 (indent o)) L (compute_aligned_max_indent o L)
    /\ (forall c, first_multiple_past (Nat.max 1 (indent o)) L c -> c = compute_aligned_max_indent o L).
Proof.
  intros o L. split; [exact (compute_aligned_formula o L)|]. split; [exact (compute_aligned_spec o L)|].
  intros c Hc. exact (first_multiple_past_unique _ L _ _ (Nat.le_max_l 1 (indent o)) Hc (compute_aligned_spec o L)).
Qed.

Lemma c16_end_matches_opener_lemma :
  forall o v lines v',
    quote_ok o = true -> roots_ok v = true ->
    pprint_lines o v = Ok (lines, v') ->
    laid_out (indent o) (spacer o) (end_comment o) lines.
Proof. intros o v lines v' Hq Hr H. exact (pprint_lines_laid_out o Hq v lines v' H Hr). Qed.

Lemma c16_indent_is_depth_times_indent_lemma :
  forall o v lines v',
    quote_ok o = true -> roots_ok v = true ->
    pprint_lines o v = Ok (lines, v') ->
    exists al, roots (indent o) (spacer o) (end_comment o) al /\ map snd al = lines
               /\ Forall (fun dl => at_depth (indent o) (spacer o) (fst dl) (snd dl)) al.
Proof.
  intros o v lines v' Hq Hr H.
  destruct (pprint_lines_laid_out o Hq v lines v' H Hr) as (al & Hal & Hm).
  exists al. split; [exact Hal|]. split; [exact Hm|]. exact (roots_depths _ _ _ al Hal).
Qed.

Lemma c16_end_comment_names_type_lemma :
  forall o v lines v',
    quote_ok o = true -> roots_ok v = true -> end_comment o = true ->
    pprint_lines o v = Ok (lines, v') ->
    exists al, roots (indent o) (spacer o) true al /\ map snd al = lines
    /\ (forall d b, block (indent o) (spacer o) true d b ->
          exists name body, b = (d, margin (indent o) (spacer o) d ++ name) :: body
                                  ++ [(d, margin (indent o) (spacer o) d ++ Str "END # " ++ name)]).
Proof.
  intros o v lines v' Hq Hr He H.
  destruct (pprint_lines_laid_out o Hq v lines v' H Hr) as (al & Hal & Hm).
  rewrite He in Hal. exists al. split; [exact Hal|]. split; [exact Hm|].
  intros d b Hb. inversion Hb as [d0 name body _ _ _]; subst. exists name, body. reflexivity.
Qed.

Lemma c16_root_keyvalue_refuted_lemma :
  exists v lines v',
    layout_doc v = true /\ pprint_lines default_opts v = Ok (lines, v')
    /\ ~ laid_out (indent default_opts) (spacer default_opts) (end_comment default_opts) lines.
Proof. exact root_keyvalue_counterexample. Qed.

Lemma c16_every_break_is_newlinechar_lemma :
  forall o v text v',
    quote_ok o = true -> no_break (spacer o) = true -> break_free_roots v = true ->
    pprint o v = Ok (text, v') ->
    breaks_are (newlinechar o) text.
Proof. intros o v text v' Hq Hs Hr H. exact (pprint_breaks o Hq Hs v text v' H Hr). Qed.

Lemma c16_aligned_column_lemma :
  forall o v lines v' x d c its,
    quote_ok o = true -> align_values o = true -> roots_ok v = true ->
    pprint_lines o v = Ok (lines, v') ->
    (x = v \/ exists l, v = VList l /\ In x l) ->
    object_in 0 x d (VDict c its) ->
    exists col,
      first_multiple_past (Nat.max 1 (indent o)) (max_length (simple_keys its)) col
      /\ forall k w, In (k, w) its ->
           match kind_of k w with
           | KKeyword =>
               exists line, In line lines /\ keyword_line (indent o) (spacer o) (S d) col (upper k) line
           | KRepeated =>
               forall l y, w = VList l -> In y l ->
                 exists line, In line lines /\ keyword_line (indent o) (spacer o) (S d) col (upper k) line
           | _ => True
           end.
Proof.
  intros o v lines v' x d c its Hq Ha Hr H Hx Hobj.
  exact (pprint_lines_aligned o Hq Ha v lines v' x d c its H Hr Hx Hobj).
Qed.

Lemma c16_keyvalue_alignment_refuted_lemma :
  exists lines v',
    roots_ok kv_align_doc = true
    /\ pprint_lines kv_align_opts kv_align_doc = Ok (lines, v')
    /\ first_multiple_past 4 12 16
    /\ ~ exists line, In line lines
                      /\ keyword_line 4 (Str " ") 2 16 (add_quotes 34%N (Str "projection")) line.
Proof. exact keyvalue_alignment_counterexample. Qed.
