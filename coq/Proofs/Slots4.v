(* Reflection shard 4 of the slot product: which slot documents of
   Gen/SlotDocs4.v fail through the whole model (computed by the kernel). *)
From MF Require Import Lib.Base Model.SlotDoc Model.SlotCheck Model.PPrint Model.Roundtrip Gen.SlotDocs4.

Definition failing_ids : list (str * str * str * str) :=
  Eval vm_compute in map slot_id (failing slotdocs).

Lemma failing_ids_spec : map slot_id (failing slotdocs) = failing_ids.
Proof. vm_compute. reflexivity. Qed.

Definition n_docs : nat := Eval vm_compute in length slotdocs.

Lemma bookkeeping_all : forallb (fun sd => bookkeeping_ok (sd_text sd)) slotdocs = true.
Proof. vm_compute. reflexivity. Qed.

(* ---- printer-side compositions (C01, C04, C06) on the root-level documents of the shard *)
Definition is_root_only (sd : slotdoc) : bool := str_eqb (sd_ctx sd) (Str "root/only").
Definition root_docs : list slotdoc := filter is_root_only slotdocs.

Definition rt_check (sd : slotdoc) : bool := roundtrip_ok default_opts (sd_text sd).
Definition idem_check (sd : slotdoc) : bool := idempotent_ok default_opts (sd_text sd).
Definition opts_check (sd : slotdoc) : bool := forallb (fun o => options_ok o (sd_text sd)) option_sets.

Definition rt_failing_ids : list (str * str * str * str) :=
  Eval vm_compute in map slot_id (filter (fun sd => negb (rt_check sd)) root_docs).
Lemma rt_failing_ids_spec : map slot_id (filter (fun sd => negb (rt_check sd)) root_docs) = rt_failing_ids.
Proof. vm_compute. reflexivity. Qed.

Definition idem_failing_ids : list (str * str * str * str) :=
  Eval vm_compute in map slot_id (filter (fun sd => negb (idem_check sd)) root_docs).
Lemma idem_failing_ids_spec : map slot_id (filter (fun sd => negb (idem_check sd)) root_docs) = idem_failing_ids.
Proof. vm_compute. reflexivity. Qed.

Definition opts_failing_ids : list (str * str * str * str) :=
  Eval vm_compute in map slot_id (filter (fun sd => negb (opts_check sd)) root_docs).
Lemma opts_failing_ids_spec : map slot_id (filter (fun sd => negb (opts_check sd)) root_docs) = opts_failing_ids.
Proof. vm_compute. reflexivity. Qed.

(* ---- purity of printing without separate_complex_types (C12): the dictionary after the call equals the argument *)
Definition print_pure (sd : slotdoc) : bool :=
  match Api.loads false false (sd_text sd) with
  | Ok d => match pprint default_opts d with
            | Ok (_, d') => value_eqb d d'
            | Err _ => true
            end
  | Err _ => true
  end.

Lemma print_pure_all : forallb print_pure root_docs = true.
Proof. vm_compute. reflexivity. Qed.
