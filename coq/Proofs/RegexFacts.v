(* Generic facts about the backtracking matcher: whatever it reports as matched
   is a prefix of the input (offsets consistent), and a pattern that cannot
   accept a line feed never matches one. *)
From MF Require Import Lib.Base Lib.Regex.
Open Scope N_scope.

(* s' is reached from s by consuming the lexeme lex *)
Definition consumed (s s' : inp) (lex : str) : Prop :=
  snd s = lex ++ snd s' /\ fst s' = fst s + N.of_nat (length lex).

Lemma consumed_refl s : consumed s s [].
Proof. split; [reflexivity|]. cbn. lia. Qed.

Lemma consumed_trans s1 s2 s3 a b :
  consumed s1 s2 a -> consumed s2 s3 b -> consumed s1 s3 (a ++ b).
Proof.
  intros [H1 H2] [H3 H4]. split.
  - rewrite H1, H3, app_assoc. reflexivity.
  - rewrite H4, H2, app_length, Nat2N.inj_add. lia.
Qed.

(* the property of lexemes we track: every character satisfies P *)
Section Tracked.
  Variable P : N -> bool.

  (* every character the pattern can consume satisfies P *)
  Fixpoint only_P (r : rx) : Prop :=
    match r with
    | REps | RBol | REol | RNotAhead _ => True
    | RSet neg rg => forall c, xorb neg (in_ranges c rg) = true -> P c = true
    | RSeq a b | RAlt a b => only_P a /\ only_P b
    | RRep _ _ _ r1 => only_P r1
    end.

  Definition good (s s' : inp) : Prop :=
    exists lex, consumed s s' lex /\ forallb P lex = true.

  Lemma good_refl s : good s s.
  Proof. exists []. split; [apply consumed_refl|reflexivity]. Qed.

  Lemma good_trans s1 s2 s3 : good s1 s2 -> good s2 s3 -> good s1 s3.
  Proof.
    intros (a & Ha & Pa) (b & Hb & Pb). exists (a ++ b). split.
    - eapply consumed_trans; eassumption.
    - rewrite forallb_app, Pa, Pb. reflexivity.
  Qed.

  (* a matcher is sound when every success comes from the continuation applied
     to a state reached by consuming a good lexeme *)
  Definition msound {A} (m : inp -> (inp -> option A) -> option A) : Prop :=
    forall s k a, m s k = Some a -> exists s', good s s' /\ k s' = Some a.

  Lemma rep_loop_sound {A} (m : inp -> (inp -> option A) -> option A) greedy mn mx :
    msound m ->
    forall fuel cnt s k a,
      rep_loop m greedy mn mx fuel cnt s k = Some a -> exists s', good s s' /\ k s' = Some a.
  Proof.
    intros Hm. induction fuel as [|fuel IH]; intros cnt s k a H; cbn [rep_loop] in H; [discriminate|].
    set (more := if match mx with Some x => Nat.ltb cnt x | None => true end
                 then m s (fun s' => if (fst s' =? fst s) && Nat.leb mn cnt then None
                                     else rep_loop m greedy mn mx fuel (S cnt) s' k)
                 else None) in *.
    assert (Hmore : forall a0, more = Some a0 -> exists s', good s s' /\ k s' = Some a0).
    { intros a0 Hm0. unfold more in Hm0.
      destruct (match mx with Some x => Nat.ltb cnt x | None => true end); [|discriminate].
      apply Hm in Hm0. destruct Hm0 as (s1 & G1 & K1).
      destruct ((fst s1 =? fst s) && Nat.leb mn cnt); [discriminate|].
      apply IH in K1. destruct K1 as (s2 & G2 & K2).
      exists s2. split; [eapply good_trans; eassumption|exact K2]. }
    destruct (Nat.ltb cnt mn).
    - apply Hmore. exact H.
    - destruct greedy.
      + destruct more as [x|] eqn:E.
        * injection H as <-. apply Hmore. reflexivity.
        * exists s. split; [apply good_refl|exact H].
      + destruct (k s) as [x|] eqn:E.
        * injection H as <-. exists s. split; [apply good_refl|exact E].
        * apply Hmore. exact H.
  Qed.

  Lemma rmatch_sound (r : rx) :
    only_P r -> forall A fuel, msound (fun s (k : inp -> option A) => rmatch r fuel s k).
  Proof.
    induction r as [| neg rg | a IHa b IHb | a IHa b IHb | greedy mn mx r1 IH | r1 IH | |];
      intros HP A fuel s k x H; cbn [rmatch] in H.
    - exists s. split; [apply good_refl|exact H].
    - destruct s as [pos [|c rest]]; cbn [snd fst] in H; [discriminate|].
      destruct (xorb neg (in_ranges c rg)) eqn:E; [|discriminate].
      exists (pos + 1, rest). split; [|exact H].
      exists [c]. split.
      + split; cbn; [reflexivity|lia].
      + cbn. rewrite (HP c E). reflexivity.
    - destruct HP as [Pa Pb].
      apply (IHa Pa) in H. destruct H as (s1 & G1 & H1).
      apply (IHb Pb) in H1. destruct H1 as (s2 & G2 & H2).
      exists s2. split; [eapply good_trans; eassumption|exact H2].
    - destruct HP as [Pa Pb].
      destruct (rmatch a fuel s k) as [y|] eqn:E.
      + injection H as <-. apply (IHa Pa) in E. exact E.
      + apply (IHb Pb) in H. exact H.
    - eapply rep_loop_sound; [|exact H].
      intros s0 k0 a0 H0. apply (IH HP) in H0. exact H0.
    - destruct (rmatch r1 fuel s (fun _ => Some tt)); [discriminate|].
      exists s. split; [apply good_refl|exact H].
    - destruct (fst s =? 0); [|discriminate]. exists s. split; [apply good_refl|exact H].
    - exists s. split; [apply good_refl|].
      destruct (snd s) as [|c [|c2 r]]; try exact H; try discriminate.
      destruct (c =? 10); [exact H|discriminate].
  Qed.

  Lemma rx_match_sound r fuel s s' :
    only_P r -> rx_match r fuel s = Some s' -> good s s'.
  Proof.
    intros HP H. unfold rx_match in H.
    apply (rmatch_sound r HP) in H. destruct H as (s1 & G & [= ->]). exact G.
  Qed.
End Tracked.

(* with the trivial predicate: a match consumes a prefix *)
Lemma only_P_true r : only_P (fun _ => true) r.
Proof.
  induction r; cbn; auto.
Qed.

Lemma rx_match_prefix r fuel s s' :
  rx_match r fuel s = Some s' -> exists lex, consumed s s' lex.
Proof.
  intros H. apply (rx_match_sound (fun _ => true) r fuel s s' (only_P_true r)) in H.
  destruct H as (lex & Hc & _). exists lex. exact Hc.
Qed.

(* decidable sufficient condition for "cannot consume a line feed" *)
Fixpoint no_lf (r : rx) : bool :=
  match r with
  | REps | RBol | REol | RNotAhead _ => true
  | RSet false rg => negb (in_ranges 10 rg)
  | RSet true rg => in_ranges 10 rg
  | RSeq a b | RAlt a b => no_lf a && no_lf b
  | RRep _ _ _ r1 => no_lf r1
  end.

Definition not_lf (c : N) : bool := negb (c =? 10).

Lemma no_lf_only r : no_lf r = true -> only_P not_lf r.
Proof.
  induction r as [| neg rg | a IHa b IHb | a IHa b IHb | g mn mx r1 IH | r1 IH | |]; cbn; auto.
  - intros H c Hc. unfold not_lf. destruct (N.eqb_spec c 10) as [->|]; [|reflexivity].
    destruct neg; cbn [xorb] in Hc.
    + rewrite H in Hc. discriminate.
    + destruct (in_ranges 10 rg); discriminate.
  - intros H. apply andb_true_iff in H. destruct H; split; auto.
  - intros H. apply andb_true_iff in H. destruct H; split; auto.
Qed.
