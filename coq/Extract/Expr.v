(* Extraction of the expression component (ExtrOcamlBasic only). *)
From MF Require Import Lib.Base Lib.Codec Model.ObsExpr.
Require Import ExtrOcamlBasic.
Definition dispatch (fn : Z) (t : toks) : toks :=
  if Z.eqb fn 10 then obs_norm t
  else if Z.eqb fn 11 then obs_builder t
  else if Z.eqb fn 12 then obs_literal t
  else if Z.eqb fn 13 then obs_format t
  else bad_input.
Extraction "../ocaml/expr/model.ml" dispatch.
