(* Extraction of the includes component (ExtrOcamlBasic only). *)
From MF Require Import Lib.Base Lib.Codec Model.ObsIncludes.
Require Import ExtrOcamlBasic.
Definition dispatch (fn : Z) (t : toks) : toks :=
  if Z.eqb fn 150 then obs_load_includes t
  else if Z.eqb fn 151 then obs_front t
  else if Z.eqb fn 152 then obs_path t
  else if Z.eqb fn 153 then obs_line t
  else if Z.eqb fn 154 then obs_whitespace t
  else if Z.eqb fn 155 then obs_spec_expanded t
  else bad_input.
Extraction "../ocaml/includes/model.ml" dispatch.
