(* Extraction of the validator component (ExtrOcamlBasic only). *)
From MF Require Import Lib.Base Lib.Codec Model.ObsValidator.
Require Import ExtrOcamlBasic.
Definition dispatch (fn : Z) (t : toks) : toks :=
  if Z.eqb fn 70 then obs_ver t
  else if Z.eqb fn 71 then obs_val t
  else if Z.eqb fn 72 then obs_hist t
  else if Z.eqb fn 73 then obs_rx t
  else if Z.eqb fn 74 then obs_vstr t
  else if Z.eqb fn 75 then obs_lower t
  else bad_input.
Extraction "../ocaml/validator/model.ml" dispatch.
