(* Extraction of the printer component (ExtrOcamlBasic only). *)
From MF Require Import Lib.Base Lib.Codec Model.ObsPrinter.
Require Import ExtrOcamlBasic.
Definition dispatch (fn : Z) (t : toks) : toks :=
  if Z.eqb fn 1 then obs_quot t
  else if Z.eqb fn 2 then obs_fmt t
  else if Z.eqb fn 3 then obs_lines t
  else if Z.eqb fn 4 then obs_str t
  else if Z.eqb fn 5 then obs_strip t
  else bad_input.
Extraction "../ocaml/printer/model.ml" dispatch.
