(* Extraction of the parser component (lexer, LR driver, tree builder). *)
From MF Require Import Lib.Base Lib.Codec Model.ObsParser.
Require Import ExtrOcamlBasic.
Definition dispatch (fn : Z) (t : toks) : toks :=
  if Z.eqb fn 1 then obs_parse t else if Z.eqb fn 2 then obs_loads t else bad_input.
Extraction "../ocaml/parser/model.ml" dispatch.
