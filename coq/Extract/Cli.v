(* Extraction of the cli component (ExtrOcamlBasic only; N, Z, positive and
   nat stay the extracted inductives). *)
From MF Require Import Lib.Base Lib.Codec Model.ObsCli.
Require Import ExtrOcamlBasic.
Definition dispatch (fn : Z) (t : toks) : toks :=
  if Z.eqb fn 1 then obs_utf8_encode t
  else if Z.eqb fn 2 then obs_utf8_decode t
  else if Z.eqb fn 3 then obs_universal_newlines t
  else if Z.eqb fn 4 then obs_unicode_escape t
  else if Z.eqb fn 5 then obs_validate t
  else if Z.eqb fn 6 then obs_file_roundtrip t
  else if Z.eqb fn 7 then obs_get_mapfiles t
  else if Z.eqb fn 8 then obs_exit_status t
  else bad_input.
Extraction "../ocaml/cli/model.ml" dispatch.
