(* Extraction of the dictutils component (ExtrOcamlBasic only). *)
From MF Require Import Lib.Base Lib.Codec Model.ObsDictutils.
Require Import ExtrOcamlBasic.
Definition dispatch (fn : Z) (t : toks) : toks :=
  if Z.eqb fn 1 then obs_update t
  else if Z.eqb fn 2 then obs_find t
  else if Z.eqb fn 3 then obs_findall t
  else if Z.eqb fn 4 then obs_findunique t
  else if Z.eqb fn 5 then obs_findkey t
  else bad_input.
Extraction "../ocaml/dictutils/model.ml" dispatch.
