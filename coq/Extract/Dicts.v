(* Extraction of the dict component (ExtrOcamlBasic only; N, Z, positive and
   nat stay the extracted inductives). *)
From MF Require Import Lib.Base Lib.Codec Model.ObsDicts.
Require Import ExtrOcamlBasic.
Definition dispatch (fn : Z) (t : toks) : toks :=
  if Z.eqb fn 17 then obs_c17 t else bad_input.
Extraction "../ocaml/dicts/model.ml" dispatch.
