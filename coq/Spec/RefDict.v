(* Reference specification for C17: "an ordinary ordered dict keyed by the
   lower-cased keys".  Written from the property text, not from the code:
   every operation folds its key once and then acts on a plain ordered dict
   (Lib/PyDict).  The default-factory clause (reading a missing key) and the
   copy/deepcopy/pickle clause (equal dictionary of the same class) are stated
   directly. *)
From MF Require Import Lib.Base Lib.PyDict Model.OrderedDict.

Section Ref.
  Variable fold : str -> str.
  Variable olk : list str.
  Notation items := (list (str * value)).

  Definition fold_items (e : items) : items := map (fun kv => (fold (fst kv), snd kv)) e.

  Definition fresh_value (k : str) : value :=
    if mem_str k olk then VList [] else VDict (DCI false) [].

  Definition ref_step (f : bool) (m : items) (o : op) : items * out :=
    match o with
    | OGet k =>
        let k' := fold k in
        match assoc k' m with
        | Some v => (m, OutV v)
        | None => if f then (od_set k' (fresh_value k') m, OutV (fresh_value k'))
                  else (m, OutKeyError)
        end
    | OSet k v => (od_set (fold k) v m, OutNone)
    | ODel k => if od_mem (fold k) m then (od_del (fold k) m, OutNone) else (m, OutKeyError)
    | OIn k | OHasKey k => (m, OutB (od_mem (fold k) m))
    | OGetD k d => (m, OutV (match assoc (fold k) m with Some v => v | None => d end))
    | OPop k d =>
        match assoc (fold k) m, d with
        | Some v, _ => (od_del (fold k) m, OutV v)
        | None, Some d => (m, OutV d)
        | None, None => (m, OutKeyError)
        end
    | OSetDefault k d =>
        match assoc (fold k) m with
        | Some v => (m, OutV v)
        | None => (od_set (fold k) d m, OutV d)
        end
    | OUpdate e | OUpdateKw e => (od_setall (fold_items e) m, OutNone)
    | OUpdateBoth e kw => (od_setall (fold_items kw) (od_setall (fold_items e) m), OutNone)
    | ORebuild | OCopy | ODeepCopy | OPickle => (m, OutB true)
    | OMoveToEnd k => if od_mem k m then (od_move_to_end k m, OutNone) else (m, OutKeyError)
    end.

  Fixpoint ref_run (f : bool) (m : items) (ops : list op) : items * list out :=
    match ops with
    | [] => (m, [])
    | o :: ops' =>
        let '(m1, r) := ref_step f m o in
        let '(m2, rs) := ref_run f m1 ops' in
        (m2, r :: rs)
    end.

  (* the representation invariant of the property: keys stored in lower case,
     no key twice *)
  Definition keys_folded (m : items) : Prop := Forall (fun k => fold k = k) (keys m).
  Definition Inv (m : items) : Prop := keys_folded m /\ NoDup (keys m).

End Ref.
