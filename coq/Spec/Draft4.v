(* JSON Schema Draft 4 validation, for the keyword census of the Mapfile
   schemas, written from the Draft-4 texts (json-schema-validation-00, sections
   5.1 - 5.5 and 8) and independently of Model/Schema.v:

     an instance conforms to a schema object when it satisfies every keyword of
     the object; a keyword constrains only instances of the primitive type it
     is about; annotations (default, description, metadata, ...) constrain
     nothing.

   "$ref" is resolved beforehand by [inline] (a reference object is replaced by
   the referenced schema; its other members are ignored).  Regular expressions
   are outside the Draft-4 text (ECMA 262): [matches p s] says that the regex p
   matches somewhere in s. Numbers are exact decimals. *)
From MF Require Import Lib.Base Lib.Json Spec.Versioned.
Open Scope Z_scope.

Section Draft4.
  Variable matches : str -> str -> bool.

  (* 3.5 primitive types; an integer is a number without fraction part, which
     in the parsed JSON is exactly the integer constructor *)
  Definition has_type (t : str) (j : json) : bool :=
    match j with
    | JNull => str_eqb t (Str "null")
    | JBool _ => str_eqb t (Str "boolean")
    | JInt _ => str_eqb t (Str "integer") || str_eqb t (Str "number")
    | JFloat _ _ => str_eqb t (Str "number")
    | JStr _ => str_eqb t (Str "string")
    | JArr _ => str_eqb t (Str "array")
    | JObj _ => str_eqb t (Str "object")
    end.

  (* equality of scalar JSON values: numbers mathematically, the rest literally *)
  Definition same_scalar (a b : json) : bool :=
    match json_dnum a, json_dnum b with
    | Some x, Some y => dle x y && dle y x
    | None, None =>
        match a, b with
        | JNull, JNull => true
        | JBool x, JBool y => Bool.eqb x y
        | JStr x, JStr y => str_eqb x y
        | _, _ => false
        end
    | _, _ => false
    end.

  Definition member (k : str) (obj : list (str * json)) : bool :=
    match assoc k obj with Some _ => true | None => false end.

  Definition is_true (j : option json) : bool :=
    match j with Some (JBool true) => true | _ => false end.

  (* 5.4.4: the members neither named by "properties" nor matched by a
     "patternProperties" regex *)
  Definition additional_members (schema obj : list (str * json)) : list (str * json) :=
    let names := match assoc (Str "properties") schema with Some (JObj p) => map fst p | _ => [] end in
    let regexes := match assoc (Str "patternProperties") schema with Some (JObj p) => map fst p | _ => [] end in
    filter (fun m => negb (mem_str (fst m) names) && negb (existsb (fun p => matches p (fst m)) regexes)) obj.

  Fixpoint count_true (l : list bool) : nat :=
    match l with [] => O | b :: l' => ((if b then 1 else 0) + count_true l')%nat end.

  Fixpoint conforms (s : json) (j : json) {struct s} : bool :=
    match s with
    | JObj schema =>
        forallb
          (fun kv =>
             match kv with
             | (k, v) =>
                 if str_eqb k (Str "type") then
                   match v with
                   | JStr t => has_type t j
                   | JArr ts => existsb (fun t => match t with JStr t => has_type t j | _ => false end) ts
                   | _ => true
                   end
                 else if str_eqb k (Str "enum") then
                   match v with JArr ms => existsb (fun m => same_scalar m j) ms | _ => true end
                 else if str_eqb k (Str "minimum") then
                   match json_dnum j, json_dnum v with
                   | Some x, Some m =>
                       if is_true (assoc (Str "exclusiveMinimum") schema) then negb (dle x m) else dle m x
                   | _, _ => true
                   end
                 else if str_eqb k (Str "maximum") then
                   match json_dnum j, json_dnum v with
                   | Some x, Some m =>
                       if is_true (assoc (Str "exclusiveMaximum") schema) then negb (dle m x) else dle x m
                   | _, _ => true
                   end
                 else if str_eqb k (Str "minItems") then
                   match j, v with JArr xs, JInt n => n <=? Z.of_nat (length xs) | _, _ => true end
                 else if str_eqb k (Str "maxItems") then
                   match j, v with JArr xs, JInt n => Z.of_nat (length xs) <=? n | _, _ => true end
                 else if str_eqb k (Str "minLength") then
                   match j, v with JStr cs, JInt n => n <=? Z.of_nat (length cs) | _, _ => true end
                 else if str_eqb k (Str "maxLength") then
                   match j, v with JStr cs, JInt n => Z.of_nat (length cs) <=? n | _, _ => true end
                 else if str_eqb k (Str "pattern") then
                   match j, v with JStr cs, JStr p => matches p cs | _, _ => true end
                 else if str_eqb k (Str "required") then
                   match j, v with
                   | JObj obj, JArr names =>
                       forallb (fun n => match n with JStr n => member n obj | _ => true end) names
                   | _, _ => true
                   end
                 else if str_eqb k (Str "properties") then
                   match j, v with
                   | JObj obj, JObj props =>
                       forallb (fun ps => match ps with
                                          | (p, sub) => match assoc p obj with
                                                        | Some x => conforms sub x
                                                        | None => true
                                                        end
                                          end) props
                   | _, _ => true
                   end
                 else if str_eqb k (Str "patternProperties") then
                   match j, v with
                   | JObj obj, JObj pps =>
                       forallb (fun ps => match ps with
                                          | (p, sub) =>
                                              forallb (fun m => negb (matches p (fst m)) || conforms sub (snd m)) obj
                                          end) pps
                   | _, _ => true
                   end
                 else if str_eqb k (Str "additionalProperties") then
                   match j with
                   | JObj obj =>
                       match v with
                       | JBool false => match additional_members schema obj with [] => true | _ => false end
                       | JObj _ => forallb (fun m => conforms v (snd m)) (additional_members schema obj)
                       | _ => true
                       end
                   | _ => true
                   end
                 else if str_eqb k (Str "items") then
                   match j with
                   | JArr xs =>
                       match v with
                       | JObj _ => forallb (fun x => conforms v x) xs
                       | JArr subs =>
                           (fix positional (subs : list json) (xs : list json) : bool :=
                              match subs, xs with
                              | sub :: subs', x :: xs' => conforms sub x && positional subs' xs'
                              | _, _ => true
                              end) subs xs
                       | _ => true
                       end
                   | _ => true
                   end
                 else if str_eqb k (Str "allOf") then
                   match v with JArr subs => forallb (fun sub => conforms sub j) subs | _ => true end
                 else if str_eqb k (Str "anyOf") then
                   match v with JArr subs => existsb (fun sub => conforms sub j) subs | _ => true end
                 else if str_eqb k (Str "oneOf") then
                   match v with
                   | JArr subs => Nat.eqb (count_true (map (fun sub => conforms sub j) subs)) 1
                   | _ => true
                   end
                 else if str_eqb k (Str "not") then negb (conforms v j)
                 else true
             end)
          schema
    | _ => true
    end.
End Draft4.

(* 7: a JSON Reference object {"$ref": file} stands for the schema in that
   file; nesting depth n *)
Fixpoint inline (n : nat) (files : list (str * json)) (s : json) {struct n} : json :=
  match n with
  | O => s
  | S n' =>
      (fix go (s : json) : json :=
         match s with
         | JObj l =>
             match assoc (Str "$ref") l with
             | Some (JStr f) => match assoc f files with Some t => inline n' files t | None => s end
             | _ => JObj (map (fun kv => (fst kv, go (snd kv))) l)
             end
         | JArr l => JArr (map go l)
         | _ => s
         end) s
  end.
