(* Vocabulary for the laws of C18, written from the property text (not from
   dictutils.py): how a dictionary of a given class is looked up, what it means
   for a patch to "speak" about a key, the delete markers, the index-by-index
   list merge, and the reference readings of find / findall / findunique /
   findkey.  Python's own notions (==, truthiness, string order) are the ones
   of Model/DictUtils.v (py_eqb, truthy, str_leb). *)
From MF Require Import Lib.Base Lib.PyDict Model.DictUtils.

Section Spec.
  Variable fold : str -> str.        (* str.lower *)
  Variable olk : list str.           (* tokens.OBJECT_LIST_KEYS *)
  Notation items := (list (str * value)).

  (* Mapfile dicts keep and look up keys in lower case, other dicts as given *)
  Definition key_of (c : dcls) (k : str) : str :=
    match c with DCI _ => fold k | _ => k end.

  (* d.get(k) as an option *)
  Definition lookup (d : value) (k : str) : option value :=
    match d with
    | VDict c s => assoc (key_of c k) s
    | _ => None
    end.

  (* representation invariant of a dictionary: no key twice; Mapfile dicts
     hold lower-case keys *)
  Definition wf_items (c : dcls) (s : items) : Prop :=
    NoDup (keys s) /\
    match c with DCI _ => Forall (fun k => fold k = k) (keys s) | _ => True end.

  (* ---------------------------------------------------------- update *)
  Definition marker : value := VStr (Str "__delete__").

  (* "a dict carrying __delete__" *)
  Definition carries_delete (v : value) : bool :=
    match v with
    | VDict _ _ => match lookup v (Str "__delete__") with Some x => truthy x | None => false end
    | _ => false
    end.

  (* "lists of dicts" (None placeholders allowed) *)
  Definition object_list (v : value) : bool :=
    match v with
    | VList l => forallb (fun x => match x with VNone | VDict _ _ => true | _ => false end) l
    | _ => false
    end.

  Definition is_dict (v : value) : bool := match v with VDict _ _ => true | _ => false end.

  (* "scalar and non-object-list values" *)
  Definition plain_value (v : value) : bool := negb (is_dict v) && negb (object_list v).

  (* the patch p (items of d2) speaks about the stored key k0 of a class-c dict *)
  Definition mentions (c : dcls) (p : items) (k0 : str) : bool :=
    mem_str k0 (map (key_of c) (keys p)).

  (* the patch names every key of d1 at most once *)
  Definition patch_keys_distinct (c : dcls) (p : items) : Prop :=
    NoDup (map (key_of c) (keys p)).

  (* the value held before, or a default when the key is absent *)
  Definition old_or (o : option value) (dflt : value) : value :=
    match o with Some x => x | None => dflt end.

  Definition ok_of {A} (r : res A) : option A := match r with Ok a => Some a | Err _ => None end.

  (* new objects: each patch dict merged into an empty dict *)
  Fixpoint each_new (merge : value -> value -> res value) (l : list value) : res (list value) :=
    match l with
    | [] => Ok []
    | n :: l' => do d <- merge n (VDict DPlain []); do r <- each_new merge l'; Ok (d :: r)
    end.

  (* index-by-index merge of a list of objects [orig] with a patch list:
     position i of the patch: None (or past the end) keeps the item, a dict
     carrying __delete__ drops it, any other dict is merged into it; a missing
     (or None) original item counts as an empty dict.  [merge n o] is the merge
     of patch dict n into object o (None if it fails). *)
  Definition zip_item (merge : value -> value -> option value) (orig patch : list value) (i : nat)
    : option (list value) :=
    let o := match nth_error orig i with
             | Some VNone | None => VDict DPlain []
             | Some o => o
             end in
    match nth_error patch i with
    | None | Some VNone => Some [o]
    | Some n => if carries_delete n then Some []
                else match merge n o with Some d => Some [d] | None => None end
    end.

  Fixpoint concat_opt (l : list (option (list value))) : option (list value) :=
    match l with
    | [] => Some []
    | None :: _ => None
    | Some x :: l' => match concat_opt l' with Some r => Some (x ++ r) | None => None end
    end.

  Definition zip_spec (merge : value -> value -> option value) (orig patch : list value)
    : option (list value) :=
    concat_opt (map (zip_item merge orig patch) (seq 0 (Nat.max (length orig) (length patch)))).

  (* a path of dictionary keys *)
  Fixpoint dict_path (d : value) (ks : list str) : option value :=
    match ks with
    | [] => Some d
    | k :: ks' => match lookup d k with Some x => dict_path x ks' | None => None end
    end.

  (* the patch d2 is silent about the key path ks of d1: at some depth along
     the path the patch dictionary does not mention the next key, and down to
     there it only holds (unflagged) dictionaries for the keys of the path *)
  Fixpoint silent (d2 d1 : value) (ks : list str) : Prop :=
    match ks with
    | [] => False
    | k :: ks' =>
        match d1, d2 with
        | VDict c1 m, VDict c2 p =>
            wf_items c1 m /\ patch_keys_distinct c1 p /\ carries_delete d2 = false /\
            (mentions c1 p (key_of c1 k) = false \/
             exists k' v sub, In (k', v) p /\ key_of c1 k' = key_of c1 k /\ is_dict v = true /\
                              carries_delete v = false /\ lookup d1 k = Some sub /\ silent v sub ks')
        | _, _ => False
        end
    end.

  (* shape compatibility of a patch with d1 (outside it Python raises and the
     text says nothing): where the patch holds a dict, d1 holds a dict or
     nothing; where it holds a list of objects, d1 holds a list (or nothing)
     whose items are compatible with the dicts patched onto them; objects to
     delete exist.  [comp] is the relation one level down. *)
  Section Compat.
    Variable comp : value -> value -> Prop.

    Fixpoint compat_items (lv lo : list value) {struct lv} : Prop :=
      match lv with
      | [] => True
      | n :: lv' =>
          (n = VNone \/ carries_delete n = true \/ comp n (none_to_empty (hd VNone lo)))
          /\ compat_items lv' (tl lo)
      end.

    Definition compat_entry (d1 : value) (k : str) (v : value) : Prop :=
      match v with
      | VDict _ _ =>
          if carries_delete v then lookup d1 k <> None
          else comp v (match lookup d1 k with Some sub => sub | None => VDict DPlain [] end)
      | VList lv =>
          if object_list v then
            exists lo, match lookup d1 k with Some x => x | None => VList [] end = VList lo /\
                       compat_items lv lo
          else True
      | _ => True
      end.

    Fixpoint compat_entries (d1 : value) (p : items) {struct p} : Prop :=
      match p with
      | [] => True
      | (k, v) :: p' => compat_entry d1 k v /\ compat_entries d1 p'
      end.
  End Compat.

  Fixpoint compatible (d2 d1 : value) {struct d2} : Prop :=
    match d2 with
    | VDict c2 p =>
        carries_delete d2 = true \/
        match d1 with
        | VDict c1 m => wf_items c1 m /\ patch_keys_distinct c1 p /\ compat_entries compatible d1 p
        | _ => p = []
        end
    | _ => False
    end.

  (* ---------------------------------------------------------- find* *)
  (* the value an item holds under the (lower-cased) searched key *)
  Definition item_value (key : str) (item : value) : option value := lookup item (fold key).

  Definition holds (key : str) (want : value) (item : value) : bool :=
    match item_value key item with Some v => py_eqb v want | None => false end.

  (* find: the first item whose key equals the value, or None *)
  Definition spec_find (lst : list value) (key : str) (want : value) : value :=
    match List.find (holds key want) lst with Some it => it | None => VNone end.

  (* findall: equality, or membership when a list of values is given *)
  Definition asked (want : value) (v : value) : bool :=
    match want with
    | VList ws => existsb (py_eqb v) ws
    | _ => py_eqb v want
    end.

  Definition spec_findall (lst : list value) (key : str) (want : value) : list value :=
    filter (fun it => match item_value key it with Some v => asked want v | None => false end) lst.

  (* where findall's test `item[key] and item[key] in value` means what the
     text says: the item's value is truthy, and the value asked for is a list
     of values, or a string of which the item's string value is not a proper
     substring *)
  Definition findall_in_domain (want : value) (v : value) : bool :=
    truthy v &&
    match want with
    | VList _ => true
    | VStr s => match v with VStr t => Bool.eqb (substr t s) (str_eqb t s) | _ => false end
    | _ => false
    end.

  (* dict classes whose item[key] raises KeyError for a missing key (no
     default factory); the others create the key *)
  Definition no_factory (c : dcls) : bool :=
    match c with DPlain | DDef false | DCI false => true | _ => false end.

  (* the value a Mapfile dict creates when a missing key is read *)
  Definition fresh (k : str) : value := if mem_str k olk then VList [] else VDict (DCI false) [].

  (* findunique: values that are None or a string; items that are dicts
     holding such a value (or nothing) under the key *)
  Definition simple (v : value) : Prop := v = VNone \/ exists s, v = VStr s.

  Definition findunique_item_ok (key : str) (it : value) : Prop :=
    is_dict it = true /\ match item_value key it with None => True | Some v => simple v end.

  (* findunique: strictly increasing strings *)
  Fixpoint increasing (l : list str) : Prop :=
    match l with
    | [] => True
    | x :: l' => match l' with [] => True | y :: _ => str_leb x y = true /\ x <> y end /\ increasing l'
    end.

  (* findkey: the element at a key/index path; Python's negative indexes count
     from the end.  DefaultOrderedDict proper is not covered. *)
  Definition index_of (i : Z) (n : nat) : option nat :=
    if (0 <=? i)%Z then (if (i <? Z.of_nat n)%Z then Some (Z.to_nat i) else None)
    else (if (- Z.of_nat n <=? i)%Z then Some (Z.to_nat (i + Z.of_nat n)) else None).

  Fixpoint get_path (d : value) (path : list pelt) : option value :=
    match path with
    | [] => Some d
    | PKey k :: rest =>
        match d with
        | VDict (DDef _) _ => None
        | VDict _ _ => match lookup d k with Some x => get_path x rest | None => None end
        | _ => None
        end
    | PIdx i :: rest =>
        match d with
        | VList l => match index_of i (length l) with
                     | Some n => match nth_error l n with Some x => get_path x rest | None => None end
                     | None => None
                     end
        | _ => None
        end
    end.

End Spec.
