(* Specification for C15: textual INCLUDE substitution.  Written from the
   property text (and MapServer's INCLUDE documentation), not from the code.

   - A text is a sequence of lines separated by LF.
   - An INCLUDE directive is a line that consists, between optional blanks, of
     the word INCLUDE in any letter case, at least one blank, a file name that
     is either enclosed in a pair of double quotes, enclosed in a pair of
     single quotes, or bare (a run of characters without blanks and hash
     signs that does not begin with a quote), optional blanks and optionally a
     comment introduced by a hash sign.  The name is what stands between the
     quotes (for a bare name: the run itself), whatever it contains.
   - A name denotes a location: an absolute name is walked from the root
     directory, any other name from the BASE folder, which is the folder of
     the root Mapfile (for a plain string: the working directory) and stays
     the same however deep the directive is nested.
   - Substitution replaces every directive line by the text of the file at
     that location, after substituting in that text in the same way.  Five
     nested files are expanded; a directive met below the fifth level is an
     error (ValueError), so cyclic inclusion is an error too; a directive
     naming a location without a file is an I/O error.  The first problem in
     reading order is the one reported.

   Parameters of the specification: [blank] (what a blank character is) and
   [read] (the text of the file at a location, None when there is none). *)
From MF Require Import Lib.Base.
Open Scope N_scope.

Fixpoint mapM {A B} (f : A -> res B) (l : list A) : res (list B) :=
  match l with
  | [] => Ok []
  | x :: r => do y <- f x; do ys <- mapM f r; Ok (y :: ys)
  end.

(* the pieces of [s] between occurrences of [sep] (always at least one) *)
Definition pieces (sep : N) (s : str) : list str :=
  let '(cur, done) :=
    fold_right (fun c '(cur, done) => if c =? sep then ([], cur :: done) else (c :: cur, done))
               ([], []) s in
  cur :: done.

Definition lines_of (s : str) : list str := pieces 10 s.

Definition unlines (ls : list str) : str :=
  match ls with
  | [] => []
  | l :: r => l ++ flat_map (fun x => 10 :: x) r
  end.

Section Directive.
  Variable blank : N -> bool.

  Definition is_quote (c : N) : bool := (c =? 34) || (c =? 39).
  Definition is_hash (c : N) : bool := c =? 35.

  Fixpoint skip (s : str) : str :=
    match s with
    | c :: s' => if blank c then skip s' else s
    | [] => []
    end.

  (* the longest prefix without a [stop] character, and the rest *)
  Fixpoint until (stop : N -> bool) (s : str) : str * str :=
    match s with
    | [] => ([], [])
    | c :: s' => if stop c then ([], s) else let '(a, b) := until stop s' in (c :: a, b)
    end.

  (* [w] is a lower-case ASCII word; Some rest when [s] begins with it in any letter case *)
  Fixpoint after_word (w s : str) : option str :=
    match w, s with
    | [], _ => Some s
    | x :: w', c :: s' => if (c =? x) || (c + 32 =? x) then after_word w' s' else None
    | _ :: _, [] => None
    end.

  (* nothing but blanks, or blanks and then a comment *)
  Definition comment_or_end (s : str) : bool :=
    match skip s with
    | [] => true
    | c :: _ => is_hash c
    end.

  (* the letters i n c l u d e *)
  Definition word_include : str := [105; 110; 99; 108; 117; 100; 101].

  (* Some name when the line is an INCLUDE directive *)
  Definition directive (line : str) : option str :=
    match after_word word_include (skip line) with
    | None => None
    | Some after =>
        match after with
        | [] => None
        | b :: _ =>
            if negb (blank b) then None
            else
              match skip after with
              | [] => None
              | q :: r =>
                  if is_quote q then
                    let '(name, rest) := until (N.eqb q) r in
                    match rest with
                    | _ :: rest' => if comment_or_end rest' then Some name else None
                    | [] => None
                    end
                  else if is_hash q then None
                  else
                    let '(name, rest) := until (fun c => blank c || is_hash c) (q :: r) in
                    if comment_or_end rest then Some name else None
              end
        end
    end.
End Directive.

(* ------------------------------------------------------------ locations *)
Definition place := list str.        (* folder / file names from the root directory down *)

(* the segments of a path text that matter: not empty, not a single dot *)
Definition steps (p : str) : list str :=
  filter (fun seg => negb (str_eqb seg []) && negb (str_eqb seg [46])) (pieces 47 p).

(* follow the segments: two dots lead to the parent folder (the root folder
   is its own parent), any other segment leads down *)
Fixpoint go (here : place) (st : list str) : place :=
  match st with
  | [] => here
  | s :: r => if str_eqb s [46; 46] then go (removelast here) r else go (here ++ [s]) r
  end.

Definition absolute (name : str) : bool :=
  match name with c :: _ => c =? 47 | [] => false end.

Definition locate (base : place) (name : str) : place :=
  go (if absolute name then [] else base) (steps name).

(* a file name without its last segment: everything up to the last slash *)
Fixpoint folder_text (fn : str) : str :=
  match fn with
  | [] => []
  | c :: r => if existsb (N.eqb 47) r then c :: folder_text r
              else if c =? 47 then [c] else []
  end.

(* the folder of the root Mapfile; the working directory for a plain string *)
Definition root_folder (cwd : str) (root : option str) : place :=
  match root with
  | None => locate [] cwd
  | Some fn => locate (locate [] cwd) (folder_text fn)
  end.

(* ------------------------------------------------------------ substitution *)
Section Subst.
  Variable read : place -> option str.
  (* how a line is read: None = not a directive, Some (Ok name) = directive,
     Some (Err e) = a directive whose name cannot be extracted *)
  Variable reader : str -> option (res str).
  Variable base : place.

  Fixpoint subst_by (budget : nat) (text : str) {struct budget} : res str :=
    do ls <- mapM (fun l =>
                     match reader l with
                     | None => Ok l
                     | Some r =>
                         match budget with
                         | O => Err PyValueError
                         | S b =>
                             do name <- r;
                             match read (locate base name) with
                             | None => Err PyIOError
                             | Some t => subst_by b t
                             end
                         end
                     end) (lines_of text);
    Ok (unlines ls).
End Subst.

(* the property's reading of lines *)
Definition spec_reader (blank : N -> bool) (l : str) : option (res str) :=
  match directive blank l with
  | Some name => Some (Ok name)
  | None => None
  end.

Definition subst (blank : N -> bool) (read : place -> option str) (base : place)
           (budget : nat) (text : str) : res str :=
  subst_by read (spec_reader blank) base budget text.

(* what open / load / loads must hand to the Mapfile parser *)
Definition expanded (blank : N -> bool) (read : place -> option str) (cwd : str)
           (root : option str) (text : str) : res str :=
  subst blank read (root_folder cwd root) 5 text.
