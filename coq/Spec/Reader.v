(* An independent reader of printed Mapfiles (property C03).  It knows nothing
   of mappyfile's grammar, parser or printer: one pass over the characters,
   splitting on blanks outside quotes, dropping # and C comments, and
   classifying each token by its delimiters:

     quoted string (either quote)      'abc'  "abc"      content between the quotes
     quoted string followed by i       'abc'i            (case-insensitive match)
     [binding]   balanced ( ... )   { ... }   /re/  /re/i   kept verbatim
     bare word / number                 ON  12.5

   The required lexical class of a value ("free strings quoted; enumerated
   keywords, numbers and booleans bare; bindings, expressions, regular
   expressions and list expressions unquoted") is stated on these classes. *)
From MF Require Import Lib.Base.
Open Scope N_scope.

Inductive tclass := TQuoted | TQuotedI | TWord | TNumber | TBinding | TParen | TBraces | TRegex.

Definition token : Type := tclass * str.

Definition tclass_eqb (a b : tclass) : bool :=
  match a, b with
  | TQuoted, TQuoted | TQuotedI, TQuotedI | TWord, TWord | TNumber, TNumber
  | TBinding, TBinding | TParen, TParen | TBraces, TBraces | TRegex, TRegex => true
  | _, _ => false
  end.

Definition is_blank (c : N) : bool := (c =? 32) || ((9 <=? c) && (c <=? 13)).
Definition is_quote (c : N) : bool := (c =? 34) || (c =? 39).
Definition is_eol (c : N) : bool := (c =? 10) || (c =? 13).
Definition is_digit (c : N) : bool := (48 <=? c) && (c <=? 57).

(* numeral: [sign] digits [. digits] [e [sign] digits]  (checked loosely: only
   digits, one leading sign, dots, e/E and signs after e) *)
Fixpoint numeral_tail (s : str) (seen_digit : bool) : bool :=
  match s with
  | [] => seen_digit
  | c :: s' =>
      if is_digit c then numeral_tail s' true
      else if (c =? 46) then numeral_tail s' seen_digit
      else if ((c =? 101) || (c =? 69)) && seen_digit then
        match s' with
        | d :: s'' => if (d =? 43) || (d =? 45) then numeral_tail s'' false else numeral_tail s' false
        | [] => false
        end
      else false
  end.

Definition is_numeral (s : str) : bool :=
  match s with
  | c :: s' => if (c =? 43) || (c =? 45) then numeral_tail s' false else numeral_tail s false
  | [] => false
  end.

Definition word_token (w : str) : token := (if is_numeral w then TNumber else TWord, w).

(* scanner state; accumulators are reversed *)
Inductive mode :=
| MBlank
| MLineComment
| MCComment (star : bool)
| MSlash                                  (* a token starts with '/' : regex, or comment when '*' follows *)
| MQuote (q : N) (acc : str)
| MQuoteEsc (q : N) (acc : str)           (* after a backslash inside quotes *)
| MAfterQuote (content : str)             (* the closing quote was read: an i may follow *)
| MAfterQuoteI (content : str)            (* ... and an i was read *)
| MWord (acc : str)
| MBracket (acc : str)
| MParen (depth : nat) (q : option N) (acc : str)
| MBrace (acc : str)
| MRegex (esc : bool) (acc : str)
| MAfterRegex (acc : str).

(* start of a token (or blank) in state MBlank *)
Definition start (c : N) : mode :=
  if is_blank c then MBlank
  else if c =? 35 then MLineComment
  else if c =? 47 then MSlash
  else if is_quote c then MQuote c []
  else if c =? 91 then MBracket [c]
  else if c =? 40 then MParen 1 None [c]
  else if c =? 123 then MBrace [c]
  else MWord [c].

(* one character; returns the tokens completed by it (at most one) and the next state, or None on a
   malformed text *)
Definition step (m : mode) (c : N) : option (list token * mode) :=
  match m with
  | MBlank => Some ([], start c)
  | MLineComment => Some ([], if is_eol c then MBlank else MLineComment)
  | MCComment star =>
      if star && (c =? 47) then Some ([], MBlank) else Some ([], MCComment (c =? 42))
  | MSlash =>
      if c =? 42 then Some ([], MCComment false)
      else if c =? 47 then Some ([], MAfterRegex [c; 47])
      else if is_eol c then None
      else Some ([], MRegex (c =? 92) [c; 47])
  | MQuote q acc =>
      if c =? q then Some ([], MAfterQuote (rev acc))
      else if c =? 92 then Some ([], MQuoteEsc q acc)
      else Some ([], MQuote q (c :: acc))
  | MQuoteEsc q acc =>
      if c =? q then Some ([], MQuote q (c :: acc)) else Some ([], MQuote q (c :: 92 :: acc))
  | MAfterQuote content =>
      if c =? 105 then Some ([], MAfterQuoteI content)
      else Some ([(TQuoted, content)], start c)
  | MAfterQuoteI content =>
      if is_blank c then Some ([(TQuotedI, content)], MBlank)
      else Some ([(TQuoted, content)], MWord [c; 105])
  | MWord acc =>
      if is_blank c then Some ([word_token (rev acc)], MBlank)
      else if is_quote c then Some ([word_token (rev acc)], MQuote c [])
      else Some ([], MWord (c :: acc))
  | MBracket acc =>
      if c =? 93 then Some ([(TBinding, rev (c :: acc))], MBlank) else Some ([], MBracket (c :: acc))
  | MParen depth q acc =>
      match q with
      | Some qc => Some ([], MParen depth (if c =? qc then None else q) (c :: acc))
      | None =>
          if is_quote c then Some ([], MParen depth (Some c) (c :: acc))
          else if c =? 40 then Some ([], MParen (S depth) None (c :: acc))
          else if c =? 41 then
            match depth with
            | 1%nat => Some ([(TParen, rev (c :: acc))], MBlank)
            | S d => Some ([], MParen d None (c :: acc))
            | O => None
            end
          else Some ([], MParen depth None (c :: acc))
      end
  | MBrace acc =>
      if c =? 125 then Some ([(TBraces, rev (c :: acc))], MBlank) else Some ([], MBrace (c :: acc))
  | MRegex esc acc =>
      if is_eol c then None
      else if esc then Some ([], MRegex false (c :: acc))
      else if c =? 47 then Some ([], MAfterRegex (c :: acc))
      else Some ([], MRegex (c =? 92) (c :: acc))
  | MAfterRegex acc =>
      if c =? 105 then Some ([(TRegex, rev (c :: acc))], MBlank)
      else Some ([(TRegex, rev acc)], start c)
  end.

(* end of text *)
Definition finish (m : mode) : option (list token) :=
  match m with
  | MBlank | MLineComment => Some []
  | MAfterQuote content => Some [(TQuoted, content)]
  | MAfterQuoteI content => Some [(TQuotedI, content)]
  | MWord acc => Some [word_token (rev acc)]
  | MAfterRegex acc => Some [(TRegex, rev acc)]
  | _ => None
  end.

Fixpoint scan (m : mode) (s : str) : option (list token) :=
  match s with
  | [] => finish m
  | c :: s' =>
      match step m c with
      | Some (out, m') => match scan m' s' with Some rest => Some (out ++ rest) | None => None end
      | None => None
      end
  end.

Definition tokenize (text : str) : option (list token) := scan MBlank text.

(* ------------------------------------------------------------ lexical class of a printed value *)
(* the class of a value text that is one token *)
Definition class_of (text : str) : option tclass :=
  match tokenize text with
  | Some [(c, _)] => Some c
  | _ => None
  end.

(* ------------------------------------------------------------ what a keyword slot offers, by its schema *)
From MF Require Import Lib.Json Gen.Schemas Model.SchemaStore.
Open Scope nat_scope.

Definition jarr_of (k : str) (j : json) : option (list json) :=
  match jget k j with Some (JArr l) => Some l | _ => None end.

(* leaf alternatives of a slot schema: oneOf / anyOf / allOf flattened, $ref followed *)
Fixpoint alternatives (fuel : nat) (j : json) : list json :=
  let j := deref j in
  match fuel with
  | O => [j]
  | S f =>
      let combs := match jarr_of (Str "oneOf") j with Some l => l | None => [] end
                   ++ match jarr_of (Str "anyOf") j with Some l => l | None => [] end
                   ++ match jarr_of (Str "allOf") j with Some l => l | None => [] end in
      if jhas (Str "oneOf") j || jhas (Str "anyOf") j || jhas (Str "allOf") j
      then flat_map (alternatives f) combs
      else [j]
  end.

Definition enum_words (a : json) : list str :=
  match jarr_of (Str "enum") a with
  | Some l => flat_map (fun e => match e with JStr s => [s] | _ => [] end) l
  | None => []
  end.

Definition is_type (t : str) (a : json) : bool :=
  match jget (Str "type") a with Some (JStr x) => str_eqb x t | _ => false end.

Definition pattern_of (a : json) : option str :=
  match jget (Str "pattern") a with Some (JStr p) => Some p | _ => None end.

(* what the slot offers to string values *)
Record offers := mk_offers {
  o_words : list str;        (* enumerated words *)
  o_free : bool;             (* a string alternative without pattern (and without enum) *)
  o_patterns : list str;     (* patterns of the other string alternatives *)
  o_number : bool;           (* number / integer alternative, or a numeric enum member *)
  o_array : bool;
  o_object : bool }.

Definition offers_of (alts : list json) : offers :=
  mk_offers
    (flat_map enum_words alts)
    (existsb (fun a => is_type (Str "string") a && negb (jhas (Str "enum") a)
                       && match pattern_of a with None => true | Some _ => false end) alts)
    (flat_map (fun a => if is_type (Str "string") a then match pattern_of a with Some p => [p] | None => [] end else []) alts)
    (existsb (fun a => is_type (Str "number") a || is_type (Str "integer") a
                       || match jarr_of (Str "enum") a with
                          | Some l => existsb (fun e => match e with JInt _ | JFloat _ _ => true | _ => false end) l
                          | None => false end) alts)
    (existsb (is_type (Str "array")) alts)
    (existsb (fun a => jhas (Str "properties") a || jhas (Str "patternProperties") a) alts).

(* every (object type, keyword) of the generated schema *)
Definition all_slots : list (str * str * json) :=
  flat_map (fun f =>
              match jget (Str "properties") (deref (snd f)) with
              | Some (JObj props) =>
                  map (fun kp => (firstn (length (fst f) - 5)%nat (fst f), fst kp, snd kp)) props
              | _ => []
              end) schema_files.

Definition slot_offers (slot : str * str * json) : offers := offers_of (alternatives 8 (snd slot)).

Definition binding_prefix : str := [94; 92; 91]%N.      (* ^\[ *)
Definition paren_prefix : str := [94; 92; 40]%N.        (* ^\( *)
Definition regex_prefix : str := [94; 47]%N.            (* ^/  *)

Definition offers_pattern (prefix : str) (o : offers) : bool :=
  existsb (fun p => startswith p prefix) (o_patterns o).

(* ------------------------------------------------------------ the lexical class the property requires *)
From MF Require Import Model.Case Model.Quoter.   (* str.lower / str.upper / str.strip: CPython primitives *)

(* s, blanks at both ends aside, starts with a and ends with b *)
Definition delimited (a b : N) (s : str) : bool :=
  let t := py_strip s in startswith t [a] && endswith t [b].

Definition paren_form : str -> bool := delimited 40 41.
Definition binding_form : str -> bool := delimited 91 93.
Definition brace_form : str -> bool := delimited 123 125.
Definition regex_form : str -> bool := delimited 47 47.

Inductive req :=
| RWord (w : str)                       (* bare word *)
| RQuoted (s : str)                     (* quoted, content s *)
| RVerbatim (c : tclass) (s : str)      (* unquoted group, verbatim *)
| RNone.                                (* the slot offers nothing to this string *)

(* "free strings quoted; enumerated keywords bare; attribute bindings,
   parenthesised expressions, regular expressions and list expressions
   unquoted" - where the schema of the slot offers that alternative.
   COMPOP and the GEOMTRANSFORM word "end" are strings for MapServer; TEXT
   takes its bindings inside a string. *)
Definition required_string (attr : str) (off : offers) (s : str) : req :=
  if mem_str (lower s) (o_words off) then
    if str_eqb attr (Str "compop") || str_eqb (lower s) (Str "end") then RQuoted s else RWord (upper s)
  else if paren_form s && offers_pattern paren_prefix off then RVerbatim TParen s
  else if binding_form s && offers_pattern binding_prefix off && negb (str_eqb attr (Str "text"))
  then RVerbatim TBinding s
  else if regex_form s && offers_pattern regex_prefix off then RVerbatim TRegex s
  else if brace_form s && str_eqb attr (Str "expression") then RVerbatim TBraces s
  else if o_free off || match o_patterns off with [] => false | _ => true end then RQuoted s
  else RNone.

(* plain enumerated word: ASCII letters, digits, - and _ *)
Definition word_ch (c : N) : bool :=
  ((48 <=? c) && (c <=? 57)) || ((65 <=? c) && (c <=? 90)) || ((97 <=? c) && (c <=? 122))
  || (c =? 45) || (c =? 95).
Definition plain_word (s : str) : bool :=
  match s with [] => false | _ => forallb word_ch s end.

(* a string that is none of the special forms *)
Definition no_form (s : str) : bool :=
  negb (paren_form s) && negb (binding_form s) && negb (brace_form s) && negb (regex_form s)
  && negb (startswith s (Str "NOT ")) && negb (endswith s (Str "'i")) && negb (endswith s [34; 105]).
