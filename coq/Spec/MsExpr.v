(* MapServer expression reading, written from the text of property C10 and the
   MapServer expression documentation - NOT from mappyfile's code.

   Operator table (loosest first):
       0  OR  ||
       1  AND &&
       2  NOT !            (prefix)
       3  comparisons      = == != < <= > >= ~ ~* =* IN EQ NE LT LE GT GE LIKE
       4  + -
       5  * / % ^
       6  unary minus      (prefix; unary plus is the identity)
   Binary operators associate to the left.  Explicit parentheses are
   respected: a parenthesised group is read on its own and is an operand.
   A function call name(arg, ...) is an operand.

   The reader works on an item list in which parenthesised groups are already
   nested.  It is "split at the loosest operator": split at OR; split every
   part at AND; in every part the first NOT takes everything to its right as
   its operand (every remaining binary operator binds tighter than NOT);
   split at comparison operators; at binary + -; at * / % ^; what is left is a
   single operand under prefix signs.  A "+" or "-" is a prefix sign exactly
   when it stands at the beginning or directly after another operator. *)
From MF Require Import Lib.Base.
Open Scope N_scope.

Inductive mop :=
| OOr | OAnd | ONot
| OCmp (sp : str)                 (* the spelling is kept: "=" and "EQ" are different spellings *)
| OAdd | OSub | OMul | ODiv | OMod | OPow
| ONeg | OPos                     (* prefix signs; produced by [mark] only *)
| OBad (sp : str).                (* not an operator of the table *)

Definition prec (o : mop) : nat :=
  match o with
  | OOr => 0 | OAnd => 1 | ONot => 2 | OCmp _ => 3
  | OAdd | OSub => 4
  | OMul | ODiv | OMod | OPow => 5
  | ONeg | OPos => 6
  | OBad _ => 7
  end%nat.

(* abstract expressions *)
Inductive aexpr :=
| AVal (s : str)                          (* operand: binding, number, string, regex, list *)
| AFun (name : str) (args : list str)     (* function call *)
| ANot (a : aexpr)
| ANeg (a : aexpr)
| ABin (o : mop) (a b : aexpr)
| AErr.                                   (* the item list is not an expression *)

(* items: operands, operator symbols, nested groups *)
Inductive item :=
| IVal (s : str)
| IFun (name : str) (args : list str)
| IGrp (g : list item)
| ISym (s : str).

(* ------------------------------------------------------------ operator spellings *)
Definition up_char (c : N) : N := if (97 <=? c) && (c <=? 122) then c - 32 else c.
Definition up (s : str) : str := map up_char s.

Definition cmp_spellings : list str :=
  [Str "="; Str "=="; Str "!="; Str "<"; Str "<="; Str ">"; Str ">="; Str "~"; Str "~*"; Str "=*";
   Str "IN"; Str "EQ"; Str "NE"; Str "LT"; Str "LE"; Str "GT"; Str "GE"; Str "LIKE"].

Definition classify (s : str) : mop :=
  let u := up s in
  if str_eqb u (Str "OR") || str_eqb s (Str "||") then OOr
  else if str_eqb u (Str "AND") || str_eqb s (Str "&&") then OAnd
  else if str_eqb u (Str "NOT") || str_eqb s (Str "!") then ONot
  else if mem_str u cmp_spellings then OCmp s
  else if str_eqb s (Str "+") then OAdd
  else if str_eqb s (Str "-") then OSub
  else if str_eqb s (Str "*") then OMul
  else if str_eqb s (Str "/") then ODiv
  else if str_eqb s (Str "%") then OMod
  else if str_eqb s (Str "^") then OPow
  else OBad s.

(* ------------------------------------------------------------ the reader *)
(* an item list after its groups have been read *)
Inductive ritem := RDone (a : aexpr) | ROp (o : mop).

Definition at_level (k : nat) (o : mop) : bool := Nat.eqb (prec o) k.

(* split at the operators satisfying p: first segment, then (operator, segment) pairs *)
Fixpoint segs (p : mop -> bool) (l : list ritem) : list ritem * list (mop * list ritem) :=
  match l with
  | [] => ([], [])
  | x :: l' =>
      let '(s0, rest) := segs p l' in
      match x with
      | ROp o => if p o then ([], (o, s0) :: rest) else (x :: s0, rest)
      | RDone _ => (x :: s0, rest)
      end
  end.

(* left-associative chain of the operators satisfying p over segments read by sub *)
Definition chain (p : mop -> bool) (sub : list ritem -> aexpr) (l : list ritem) : aexpr :=
  let '(s0, rest) := segs p l in
  fold_left (fun acc os => ABin (fst os) acc (sub (snd os))) rest (sub s0).

(* prefix signs are told apart from binary + - by position *)
Fixpoint mark (prefix : bool) (l : list ritem) : list ritem :=
  match l with
  | [] => []
  | ROp OSub :: l' => ROp (if prefix then ONeg else OSub) :: mark true l'
  | ROp OAdd :: l' => ROp (if prefix then OPos else OAdd) :: mark true l'
  | ROp o :: l' => ROp o :: mark true l'
  | RDone a :: l' => RDone a :: mark false l'
  end.

(* level 6: one operand under prefix signs *)
Fixpoint read_un (l : list ritem) : aexpr :=
  match l with
  | [RDone a] => a
  | ROp ONeg :: r => ANeg (read_un r)
  | ROp OPos :: r => read_un r
  | _ => AErr
  end.

Definition read_prod : list ritem -> aexpr := chain (at_level 5) read_un.
Definition read_sum : list ritem -> aexpr := chain (at_level 4) read_prod.
Definition read_cmp : list ritem -> aexpr := chain (at_level 3) read_sum.

(* level 2: the first NOT takes everything to its right *)
Fixpoint read_not (l acc : list ritem) : aexpr :=
  match l with
  | [] => read_cmp (rev acc)
  | ROp ONot :: rest => read_cmp (rev acc ++ [RDone (ANot (read_not rest []))])
  | x :: rest => read_not rest (x :: acc)
  end.

Definition read_and : list ritem -> aexpr := chain (at_level 1) (fun l => read_not l []).
Definition read_or : list ritem -> aexpr := chain (at_level 0) read_and.

Definition read_flat (l : list ritem) : aexpr := read_or (mark true l).

(* groups are read first, innermost first *)
Fixpoint ev (x : item) : ritem :=
  match x with
  | IVal s => RDone (AVal s)
  | IFun n a => RDone (AFun n a)
  | IGrp g => RDone (read_flat (map ev g))
  | ISym s => ROp (classify s)
  end.

Definition read (l : list item) : aexpr := read_flat (map ev l).

(* a reading without error and without unknown operators *)
Definition binop_ok (o : mop) : bool :=
  match o with
  | OOr | OAnd | OCmp _ | OAdd | OSub | OMul | ODiv | OMod | OPow => true
  | _ => false
  end.

Fixpoint aexpr_ok (a : aexpr) : bool :=
  match a with
  | AVal _ | AFun _ _ => true
  | ANot x | ANeg x => aexpr_ok x
  | ABin o x y => binop_ok o && aexpr_ok x && aexpr_ok y
  | AErr => false
  end.
