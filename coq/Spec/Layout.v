(* The layout contract of property C16, as predicates on the printed lines.
   Written from the property text and tokens.py, not from pprint.py:

     "every line break is newlinechar; comment lines aside, each block opener,
      keyword line and END sits on its own line indented by (nesting depth x
      indent) copies of spacer, each block opened is closed by an END at the
      opener's indentation, and with end_comment=True that END is followed by
      '# ' and the block's type.  With align_values=True the values of the
      simple keywords of one object all start in one column, the first
      multiple of indent past the longest such keyword."

   Nothing here mentions a function of the printer model. *)
From MF Require Import Lib.Base Lib.PyDict Gen.Tokens Model.Case.
Open Scope nat_scope.

Fixpoint copies (s : str) (n : nat) : str :=
  match n with O => [] | S n' => s ++ copies s n' end.

(* the text made of the given lines *)
Fixpoint join_lines (nl : str) (l : list str) : str :=
  match l with
  | [] => []
  | [x] => x
  | x :: l' => x ++ nl ++ join_lines nl l'
  end.

(* ------------------------------------------------------------ line breaks *)
Definition is_break (c : N) : bool := N.eqb c 10 || N.eqb c 13.
Definition no_break (s : str) : bool := forallb (fun c => negb (is_break c)) s.

(* every line break of [text] is an occurrence of [nl]: the text is a
   sequence of break-free segments joined by nl *)
Definition breaks_are (nl : str) (text : str) : Prop :=
  exists segs, text = join_lines nl segs /\ Forall (fun s => no_break s = true) segs.

(* ------------------------------------------------------------ blocks *)
Definition blank (c : N) : bool := N.eqb c 32 || (N.leb 9 c && N.leb c 13).

Definition starts_nonblank (s : str) : bool :=
  match s with c :: _ => negb (blank c) | [] => false end.

Definition end_word : str := Str "END".

(* what a line-oriented reader takes for a block terminator *)
Definition end_like (body : str) : bool :=
  str_eqb body end_word || startswith body (Str "END #").

(* the block openers: tokens.py COMPLEX_TYPES, "types that require an END" *)
Definition openers : list str := map upper COMPLEX_TYPES.
Definition opener_like (body : str) : bool := mem_str body openers.

Section Layout.
  Variable indent : nat.
  Variable spacer : str.
  Variable end_comment : bool.

  (* (nesting depth x indent) copies of spacer *)
  Definition margin (depth : nat) : str := copies spacer (depth * indent).

  Definition at_depth (depth : nat) (line : str) : Prop :=
    exists body, line = margin depth ++ body /\ starts_nonblank body = true.

  Definition end_line (depth : nat) (name : str) : str :=
    margin depth ++ end_word ++ (if end_comment then Str " # " ++ name else []).

  (* Lines annotated with their nesting depth.  A body element is either one
     line (keyword line, value line of a PROJECTION / POINTS / PATTERN /
     key-value block) that is neither END-like nor a bare opener word, or a
     block: opener, body one level deeper, END at the opener's indentation
     (followed by "# " and the opener's word when end_comment is set). *)
  Inductive item : nat -> list (nat * str) -> Prop :=
  | I_line : forall d body,
      starts_nonblank body = true -> end_like body = false -> opener_like body = false ->
      item d [(d, margin d ++ body)]
  | I_block : forall d b, block d b -> item d b
  with items : nat -> list (nat * str) -> Prop :=
  | Is_nil : forall d, items d []
  | Is_app : forall d a b, item d a -> items d b -> items d (a ++ b)
  with block : nat -> list (nat * str) -> Prop :=
  | Block : forall d name body,
      starts_nonblank name = true -> end_like name = false ->
      items (S d) body ->
      block d ((d, margin d ++ name) :: body ++ [(d, end_line d name)]).

  (* the document is a sequence of root blocks *)
  Inductive roots : list (nat * str) -> Prop :=
  | R_nil : roots []
  | R_app : forall b rest, block 0 b -> roots rest -> roots (b ++ rest).

  Definition laid_out (lines : list str) : Prop :=
    exists al, roots al /\ map snd al = lines.

  (* ---------------------------------------------------------- alignment *)
  (* col is the first multiple of i strictly past L *)
  Definition first_multiple_past (i L col : nat) : Prop :=
    Nat.modulo col i = 0 /\ L < col /\ col <= L + i.

  Definition spaces (n : nat) : str := copies [32%N] n.

  (* keyword at the margin of its depth, padded with spaces, value at column col *)
  Definition keyword_line (depth col : nat) (key : str) (line : str) : Prop :=
    exists value, line = margin depth ++ key ++ spaces (col - length key) ++ value
                  /\ length key < col.
End Layout.

(* ------------------------------------------------------------ documents *)
(* The dictionaries the contract quantifies over, and their block kinds. *)
Definition hidden_key (k : str) : bool := startswith k (Str "__") && endswith k (Str "__").

Definition has_type (v : value) : bool :=
  match v with VDict _ its => od_mem (Str "__type__") its | _ => false end.

Definition is_list (v : value) : bool := match v with VList _ => true | _ => false end.

Inductive kind :=
| KHidden | KChildren | KPairs | KKeyValue | KProjection | KRepeated | KPoints | KConfig
| KChild | KKeyword.

Definition key_value_blocks : list str :=
  [Str "metadata"; Str "validation"; Str "values"; Str "connectionoptions"].

Definition kind_of (k : str) (v : value) : kind :=
  if hidden_key k then KHidden
  else if mem_str k OBJECT_LIST_KEYS && is_list v then KChildren
  else if str_eqb k (Str "pattern") then KPairs
  else if mem_str k key_value_blocks then KKeyValue
  else if str_eqb k (Str "projection") then KProjection
  else if mem_str k REPEATED_KEYS then KRepeated
  else if str_eqb k (Str "points") then KPoints
  else if str_eqb k (Str "config") then KConfig
  else if has_type v then KChild
  else KKeyword.

(* a keyword that can head a line: its printed (upper-case) form starts with a
   non-blank, cannot be confused with END, and has the length of the key *)
Definition not_end_prefix (u : str) : bool :=
  negb (startswith u end_word) && negb (startswith end_word u).

Definition key_word (k : str) : bool :=
  starts_nonblank (upper k) && not_end_prefix (upper k) && (length (upper k) <=? length k).

Definition block_word (t : str) : bool :=
  starts_nonblank (upper t) && negb (end_like (upper t)).

(* numbers and lists of them (POINTS / PATTERN coordinates) *)
Fixpoint num_tree (v : value) : bool :=
  match v with
  | VInt _ | VFloat _ _ => true
  | VList l => forallb num_tree l
  | _ => false
  end.

Definition no_comments (its : list (str * value)) : bool := negb (od_mem (Str "__comments__") its).

(* well-formed object for the block-structure clauses: typed, without
   __comments__ (comment lines are outside the contract), keywords that can
   head a line, numeric coordinates *)
Fixpoint layout_doc (v : value) : bool :=
  match v with
  | VDict _ its =>
      no_comments its
      && match assoc (Str "__type__") its with Some (VStr t) => block_word t | _ => false end
      && forallb (fun kv =>
                    match kind_of (fst kv) (snd kv) with
                    | KHidden | KProjection | KConfig => true
                    | KRepeated => is_list (snd kv)
                    | KChildren => match snd kv with VList l => forallb layout_doc l | _ => false end
                    | KPairs | KPoints => num_tree (snd kv)
                    | KKeyValue => match snd kv with VDict _ kvs => no_comments kvs | _ => true end
                    | KChild => layout_doc (snd kv)
                    | KKeyword => key_word (fst kv)
                    end) its
  | _ => false
  end.

(* documents none of whose printed strings contains a line break, and whose
   values have a one-line text: scalars and flat lists of scalars *)
Definition scalar_nb (v : value) : bool :=
  match v with
  | VNone | VBool _ | VInt _ | VFloat _ _ => true
  | VStr s => no_break s
  | _ => false
  end.

Definition flat_nb (v : value) : bool :=
  scalar_nb v || match v with VList l => forallb scalar_nb l | _ => false end.

Definition kv_nb (v : value) : bool :=
  match v with
  | VDict _ kvs =>
      no_comments kvs
      && forallb (fun kv => no_break (fst kv) && scalar_nb (snd kv)) kvs
  | _ => false
  end.

Fixpoint break_free_doc (v : value) : bool :=
  match v with
  | VDict _ its =>
      no_comments its
      && forallb (fun kv =>
                    match kind_of (fst kv) (snd kv) with
                    | KHidden => true
                    | KChildren => match snd kv with VList l => forallb break_free_doc l | _ => false end
                    | KPairs | KPoints => num_tree (snd kv)
                    | KKeyValue | KConfig => kv_nb (snd kv)
                    | KProjection => flat_nb (snd kv)
                    | KRepeated => match snd kv with VList l => forallb scalar_nb l | _ => false end
                    | KChild => break_free_doc (snd kv)
                    | KKeyword => no_break (fst kv) && flat_nb (snd kv)
                    end) its
  | _ => false
  end.

(* root objects that are themselves key-value blocks are printed one level
   deep by the implementation (see C16_root_keyvalue_refuted) *)
Definition root_keyvalue_types : list str := [Str "metadata"; Str "validation"; Str "connectionoptions"].

Definition root_ok (v : value) : bool :=
  layout_doc v
  && match v with
     | VDict _ its => match assoc (Str "__type__") its with
                      | Some (VStr t) => negb (mem_str t root_keyvalue_types)
                      | _ => false
                      end
     | _ => false
     end.

Definition roots_ok (v : value) : bool :=
  match v with VList l => forallb root_ok l | _ => root_ok v end.

Definition is_root_keyvalue (v : value) : bool :=
  match v with
  | VDict _ its => match assoc (Str "__type__") its with
                   | Some (VStr t) => mem_str t root_keyvalue_types
                   | _ => false
                   end
  | _ => false
  end.

Definition break_free_root (v : value) : bool :=
  if is_root_keyvalue v then kv_nb v else break_free_doc v.

Definition break_free_roots (v : value) : bool :=
  match v with VList l => forallb break_free_root l | _ => break_free_root v end.

(* the simple keywords of an object: those printed on one keyword line *)
Definition simple_keys (its : list (str * value)) : list str :=
  map fst (filter (fun kv => match kind_of (fst kv) (snd kv) with
                             | KKeyword | KRepeated => true | _ => false end) its).

Fixpoint max_length (l : list str) : nat :=
  match l with [] => 0 | k :: l' => Nat.max (length k) (max_length l') end.

(* the objects of a document with their nesting depth: [object_in d v d' v']
   says that v' is an object d' levels deep in the document whose object v
   sits at depth d *)
Inductive object_in : nat -> value -> nat -> value -> Prop :=
| OI_here : forall d v, object_in d v d v
| OI_list : forall d c its k l x d' v',
    In (k, VList l) its -> kind_of k (VList l) = KChildren -> In x l ->
    object_in (S d) x d' v' -> object_in d (VDict c its) d' v'
| OI_child : forall d c its k x d' v',
    In (k, x) its -> kind_of k x = KChild ->
    object_in (S d) x d' v' -> object_in d (VDict c its) d' v'.
