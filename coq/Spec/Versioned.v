(* Declarative reading of property C09, written from the property text and the
   schema documentation, not from validator.py:

     a schema node annotated with metadata.minVersion / metadata.maxVersion is
     available exactly for  minVersion <= version <= maxVersion  (missing
     bounds default to 0.0 and 1000.0); the schema for a version is the fully
     expanded schema with every unavailable keyword, object and alternative
     removed EVERYWHERE (any depth, below lists too), everything else
     untouched.

   Numbers are exact decimals m * 10^e; the order is defined here on its own. *)
From MF Require Import Lib.Base Lib.Json.
Open Scope Z_scope.

Definition dnum := (Z * Z)%type.

(* a <= b on decimals: compare after scaling both to the smaller exponent *)
Definition dle (a b : dnum) : bool :=
  let k := Z.min (snd a) (snd b) in
  fst a * 10 ^ (snd a - k) <=? fst b * 10 ^ (snd b - k).

Definition json_dnum (j : json) : option dnum :=
  match j with JInt z => Some (z, 0) | JFloat m e => Some (m, e) | _ => None end.

Definition bound_or (md : list (str * json)) (key : str) (dflt : dnum) : dnum :=
  match assoc key md with
  | Some x => match json_dnum x with Some n => n | None => dflt end
  | None => dflt
  end.

(* the documented range of a schema node; unannotated nodes are always available *)
Definition in_range (v : dnum) (node : json) : bool :=
  match jget (Str "metadata") node with
  | Some (JObj md) =>
      dle (bound_or md (Str "minVersion") (0, 0)) v && dle v (bound_or md (Str "maxVersion") (1, 3))
  | _ => true
  end.

Definition is_obj (j : json) : bool := match j with JObj _ => true | _ => false end.

(* the schema tree for version v *)
Fixpoint tprune (v : dnum) (j : json) : json :=
  match j with
  | JObj l =>
      JObj ((fix go (l : list (str * json)) : list (str * json) :=
               match l with
               | [] => []
               | (k, x) :: l' =>
                   if is_obj x && negb (in_range v x) then go l' else (k, tprune v x) :: go l'
               end) l)
  | JArr l =>
      JArr ((fix go (l : list json) : list json :=
               match l with
               | [] => []
               | x :: l' =>
                   if is_obj x && negb (in_range v x) then go l' else tprune v x :: go l'
               end) l)
  | _ => j
  end.

(* ------------------------------------------------------------------ per-file reading *)
(* The same pruning, described file by file for a schema kept as separate
   files with {"$ref": file} leaves (one shared object per file): a file that
   can be reached from the root's "properties" through object values only is
   pruned locally (its unavailable object-valued entries and list members are
   dropped; references themselves are kept or dropped as a whole); every other
   file is untouched.  No order of visits is mentioned. *)
Section Local.
  Variable files : list (str * json).

  Definition ref_of (x : json) : option str :=
    match x with
    | JObj l => match assoc (Str "$ref") l with Some (JStr f) => Some f | _ => None end
    | _ => None
    end.

  (* what a value stands for: the content of the referenced file, else itself *)
  Definition target_of (x : json) : json :=
    match ref_of x with
    | Some f => match assoc f files with Some c => c | None => x end
    | None => x
    end.

  Definition available (v : dnum) (x : json) : bool := in_range v (target_of x).

  Fixpoint lprune (v : dnum) (j : json) : json :=
    match j with
    | JObj l =>
        match ref_of j with
        | Some _ => j
        | None =>
            JObj ((fix go (l : list (str * json)) : list (str * json) :=
                     match l with
                     | [] => []
                     | (k, x) :: l' =>
                         match target_of x with
                         | JObj _ => if available v x then (k, lprune v x) :: go l' else go l'
                         | JArr ms =>
                             (k, JArr (filter (fun m => negb (is_obj (target_of m)) || available v m) ms)) :: go l'
                         | _ => (k, x) :: go l'
                         end
                     end) l)
        end
    | _ => j
    end.

  (* files referenced from [j] through object values only *)
  Fixpoint dict_refs (j : json) : list str :=
    match j with
    | JObj l =>
        match ref_of j with
        | Some f => [f]
        | None => (fix go (l : list (str * json)) : list str :=
                     match l with [] => [] | (_, x) :: l' => dict_refs x ++ go l' end) l
        end
    | _ => []
    end.

  Fixpoint reach (n : nat) (todo seen : list str) : list str :=
    match n with
    | O => seen
    | S n' =>
        match todo with
        | [] => seen
        | f :: todo' =>
            if mem_str f seen then reach n' todo' seen
            else match assoc f files with
                 | Some c => reach n' (dict_refs c ++ todo') (f :: seen)
                 | None => reach n' todo' seen
                 end
        end
    end.

  (* the store after pruning for version v from a root "properties" object *)
  Definition pruned_store (v : dnum) (properties : json) (fuel : nat) : list (str * json) :=
    let r := reach fuel (dict_refs properties) [] in
    map (fun kv => (fst kv, if mem_str (fst kv) r then lprune v (snd kv) else snd kv)) files.
End Local.
