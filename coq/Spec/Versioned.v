(* Declarative reading of property C09, written from the property text and the
   schema documentation, not from validator.py:

     a schema node annotated with metadata.minVersion / metadata.maxVersion is
     available exactly for  minVersion <= version <= maxVersion  (missing
     bounds default to 0.0 and 1000.0); the schema for a version is the fully
     expanded schema with every unavailable keyword, object and alternative
     removed EVERYWHERE (any depth, below lists too), everything else
     untouched.

   Numbers are exact decimals m * 10^e; the order is defined here on its own. *)
From MF Require Import Lib.Base Lib.Json.
Open Scope Z_scope.

Definition dnum := (Z * Z)%type.

(* a <= b on decimals: compare after scaling both to the smaller exponent *)
Definition dle (a b : dnum) : bool :=
  let k := Z.min (snd a) (snd b) in
  fst a * 10 ^ (snd a - k) <=? fst b * 10 ^ (snd b - k).

Definition json_dnum (j : json) : option dnum :=
  match j with JInt z => Some (z, 0) | JFloat m e => Some (m, e) | _ => None end.

Definition bound_or (md : list (str * json)) (key : str) (dflt : dnum) : dnum :=
  match assoc key md with
  | Some x => match json_dnum x with Some n => n | None => dflt end
  | None => dflt
  end.

(* the documented range of a schema node; unannotated nodes are always available *)
Definition in_range (v : dnum) (node : json) : bool :=
  match jget (Str "metadata") node with
  | Some (JObj md) =>
      dle (bound_or md (Str "minVersion") (0, 0)) v && dle v (bound_or md (Str "maxVersion") (1, 3))
  | _ => true
  end.

Definition is_obj (j : json) : bool := match j with JObj _ => true | _ => false end.

(* the schema tree for version v *)
Fixpoint tprune (v : dnum) (j : json) : json :=
  match j with
  | JObj l =>
      JObj ((fix go (l : list (str * json)) : list (str * json) :=
               match l with
               | [] => []
               | (k, x) :: l' =>
                   if is_obj x && negb (in_range v x) then go l' else (k, tprune v x) :: go l'
               end) l)
  | JArr l =>
      JArr ((fix go (l : list json) : list json :=
               match l with
               | [] => []
               | x :: l' =>
                   if is_obj x && negb (in_range v x) then go l' else tprune v x :: go l'
               end) l)
  | _ => j
  end.
