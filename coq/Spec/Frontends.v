(* Independent reading of property C20 (written from the property text and the
   command's documentation, not from the code).

   - A Unicode string is a list of Unicode scalar values.
   - `mappyfile validate FILES` prints one line per validation message and
     exits with status 0 if and only if every matched file parsed and
     validated; otherwise the status is non-zero and equals the number of
     problems when that fits an exit status (< 256). *)
From MF Require Import Lib.Base Model.Utf8 Model.Cli.

Definition all_scalar (s : str) : bool := forallb is_scalar s.

(* a matched file is fine when it parsed and validation returned no message *)
Definition file_ok (o : outcome) : bool :=
  match o with Validated [] => true | _ => false end.

Definition all_ok (files : list (str * outcome)) : bool :=
  forallb (fun f => file_ok (snd f)) files.

Definition is_parse_failure (o : outcome) : bool :=
  match o with ParseFailed => true | _ => false end.

Definition no_parse_failure (files : list (str * outcome)) : bool :=
  forallb (fun f => negb (is_parse_failure (snd f))) files.

Fixpoint total_messages (files : list (str * outcome)) : nat :=
  match files with
  | [] => O
  | f :: files' => n_messages (snd f) + total_messages files'
  end.

Fixpoint parse_failures (files : list (str * outcome)) : nat :=
  match files with
  | [] => O
  | f :: files' => (if is_parse_failure (snd f) then 1 else 0) + parse_failures files'
  end.

(* every validation message and every file that failed to parse is a problem *)
Definition problems (files : list (str * outcome)) : nat :=
  total_messages files + parse_failures files.

(* what is printed for one file: one line per message in the documented
   format, or the one-line verdict *)
Definition file_lines (f : str * outcome) : list str :=
  match snd f with
  | ParseFailed => [parse_failed_line (fst f)]
  | Validated [] => [validated_line (fst f)]
  | Validated msgs => map (message_line (fst f)) msgs
  end.

Fixpoint count_ok (files : list (str * outcome)) : nat :=
  match files with
  | [] => O
  | f :: files' => (if file_ok (snd f) then 1 else 0) + count_ok files'
  end.

Definition expected_lines (files : list (str * outcome)) : list str :=
  flat_map file_lines files ++ [summary_line (length files) (count_ok files)].

(* the exit status the property asks for *)
Definition status_meets_property (files : list (str * outcome)) (status : N) : Prop :=
  (status = 0%N <-> all_ok files = true) /\
  (problems files < 256 -> status = N.of_nat (problems files))%nat.
