(* The schema files as a store name -> json with $ref leaves, as jsonref builds
   it: one object per referenced file; a {"$ref": F, ...} object stands for the
   whole content of file F (its sibling keys are ignored, as jsonref 1.1 does
   with the default merge_props=False). *)
From MF Require Import Lib.Base Lib.Json Gen.Schemas.

Definition ref_key : str := Str "$ref".

Definition schema_of (name : str) : option json := assoc name schema_files.

(* name as used by Validator.get_schema_file: ".json" appended when missing *)
Definition json_ext : str := Str ".json".
Definition schema_file_name (name : str) : str :=
  if endswith name json_ext then name else name ++ json_ext.

(* one step of $ref resolution (refs in these schemas are plain file names) *)
Definition deref1 (j : json) : json :=
  match jget ref_key j with
  | Some (JStr f) => match schema_of f with Some s => s | None => j end
  | _ => j
  end.

(* follow chains of refs; the fuel is the number of files *)
Fixpoint deref_n (n : nat) (j : json) : json :=
  match n with
  | O => j
  | S n' => match jget ref_key j with
            | Some (JStr f) => match schema_of f with Some s => deref_n n' s | None => j end
            | _ => j
            end
  end.

Definition deref (j : json) : json := deref_n (length schema_files) j.
