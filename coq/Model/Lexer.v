(* Lark 1.3 run-time lexing: Scanner.match (ordered alternatives, first match
   wins), BasicLexer.next_token, LineCounter.feed, UnlessCallback,
   ContextualLexer.lex (per-parser-state scanner, root-lexer fallback for the
   error class).  Definitions only. *)
From MF Require Import Lib.Base Lib.Regex Model.GrammarTypes.
Open Scope N_scope.

(* LineCounter *)
Record linectr := mk_lc { lc_pos : N; lc_line : N; lc_col : N; lc_line_start : N }.
Definition lc0 : linectr := mk_lc 0 1 1 0.

(* number of newlines in a lexeme and offset just after the last one *)
Fixpoint nl_scan (s : str) (i : N) (cnt : N) (last : option N) : N * option N :=
  match s with
  | [] => (cnt, last)
  | c :: s' => if c =? 10 then nl_scan s' (i + 1) (cnt + 1) (Some (i + 1))
               else nl_scan s' (i + 1) cnt last
  end.

Definition lc_feed (lc : linectr) (value : str) (len : N) (test_newline : bool) : linectr :=
  let '(line, ls) :=
    if test_newline then
      match nl_scan value 0 0 None with
      | (cnt, Some off) => (lc_line lc + cnt, lc_pos lc + off)
      | (_, None) => (lc_line lc, lc_line_start lc)
      end
    else (lc_line lc, lc_line_start lc) in
  let pos := lc_pos lc + len in
  mk_lc pos line (pos - ls + 1) ls.

(* Scanner.match: alternatives in order *)
Fixpoint scan (terms : list (N * rx)) (fuel : nat) (s : inp) : option (N * inp) :=
  match terms with
  | [] => None
  | (ty, r) :: terms' =>
      match rx_match r fuel s with
      | Some s' => Some (ty, s')
      | None => scan terms' fuel s
      end
  end.

(* UnlessCallback: Scanner.fullmatch over the keyword strings *)
Fixpoint unless_retype (l : list (rx * N)) (v : str) : option N :=
  match l with
  | [] => None
  | (r, ty) :: l' => if rx_fullmatch r v then Some ty else unless_retype l' v
  end.

Record lexstate := mk_ls {
  ls_lc : linectr;
  ls_rest : str;
  ls_comments : list token;        (* parser._comments, most recent first *)
  ls_last : option token }.

Definition ls0 (text : str) : lexstate := mk_ls lc0 text [] None.

Inductive lexres :=
| LTok (t : token) (st : lexstate)
| LEof (st : lexstate)
| LBad (st : lexstate).             (* UnexpectedCharacters at the position of [st] *)

(* BasicLexer.next_token; [fuel] bounds the number of ignored tokens skipped
   and is also handed to the matcher (>= remaining length) *)
Fixpoint next_token (g : grammar) (with_comments : bool) (lx : lexer_info)
         (fuel : nat) (st : lexstate) : lexres :=
  match fuel with
  | O => LEof st    (* unreachable when fuel > remaining length *)
  | S fuel' =>
      match ls_rest st with
      | [] => LEof st
      | _ =>
          let lc := ls_lc st in
          match scan (lx_terms lx) fuel (lc_pos lc, ls_rest st) with
          | None => LBad st
          | Some (ty, (endpos, rest')) =>
              let len := endpos - lc_pos lc in
              let value := firstn (N.to_nat len) (ls_rest st) in
              let ignored := memN ty (lx_ignore lx) in
              let has_unless := match assocN ty (lx_unless lx) with Some _ => true | None => false end in
              let has_user := with_comments && memN ty (g_comment_types g) in
              let lc' := lc_feed lc value len (memN ty (lx_newline lx)) in
              let ty' := match assocN ty (lx_unless lx) with
                         | Some l => match unless_retype l value with Some t => t | None => ty end
                         | None => ty
                         end in
              let t := mk_token ty' value (lc_pos lc) (lc_line lc) (lc_col lc)
                                (lc_line lc') (lc_col lc') (lc_pos lc') in
              let comments' :=
                if has_user && (ty' =? ty) then t :: ls_comments st else ls_comments st in
              if ignored then
                next_token g with_comments lx fuel'
                           (mk_ls lc' rest' comments' (ls_last st))
              else
                LTok t (mk_ls lc' rest' comments' (Some t))
          end
      end
  end.

(* one step of ContextualLexer.lex for the parser state on top of the stack *)
Inductive ctxres :=
| CTok (t : token) (st : lexstate)
| CEof (st : lexstate)
| CErrChars (line col : N)          (* UnexpectedCharacters *)
| CErrToken (t : token).            (* UnexpectedToken raised by the lexer *)

Definition ctx_next (g : grammar) (with_comments : bool) (state : N) (fuel : nat) (st : lexstate) : ctxres :=
  match nth_N (g_lexer_of_state g) state with
  | None => CErrChars 0 0
  | Some li =>
      match nth_N (g_lexers g) li with
      | None => CErrChars 0 0
      | Some lx =>
          match next_token g with_comments lx fuel st with
          | LTok t st' => CTok t st'
          | LEof st' => CEof st'
          | LBad st_bad =>
              (* the root lexer continues from the state the contextual lexer
                 reached (after the ignored tokens it had consumed) *)
              match next_token g with_comments (g_root_lexer g) fuel st_bad with
              | LTok t _ => CErrToken t
              | _ => CErrChars (lc_line (ls_lc st_bad)) (lc_col (ls_lc st_bad))
              end
          end
      end
  end.
