(* Observation points for the printer component: decode a case, run the model,
   encode what the harness compares with the implementation.
     fn 1  O-quot   every Quoter method on one string
     fn 2  O-fmt    get_attribute_properties + format_value
     fn 3  O-lines  PrettyPrinter(opts).pprint(d): text (or exception) and d afterwards
     fn 4  O-str    str(v), repr(v)
     fn 5  O-strip  str.strip *)
From MF Require Import Lib.Base Lib.Codec Lib.Json Model.Case Model.Quoter Model.PPrint.
Open Scope Z_scope.

Definition enc_b (b : bool) : toks := [if b then 1 else 0].

(* payload: quote, string *)
Definition obs_quot (t : toks) : toks :=
  match dec_z t with
  | Some (qz, t1) =>
      match dec_str t1 with
      | Some (s, _) =>
          let q := Z.to_N qz in
          enc_str (add_quotes q s) ++ enc_str (add_altquotes q s) ++ enc_b (in_quotes q s)
          ++ enc_str (escape_quotes_s q s) ++ enc_str (remove_quotes_s q s)
          ++ enc_b (in_brackets s) ++ enc_b (in_parenthesis s) ++ enc_b (in_braces s)
          ++ enc_b (in_slashes s) ++ enc_str (standardise_quotes q s)
      | None => bad_input
      end
  | None => bad_input
  end.

Definition enc_res {A} (f : A -> toks) (r : res A) : toks :=
  match r with Ok a => 0 :: f a | Err e => [1; exn_code e] end.

Definition opts_of_quote (q : N) : opts :=
  mk_opts 4 (Str " ") q [10%N] false false false.

(* payload: quote, type_, attr, value *)
Definition obs_fmt (t : toks) : toks :=
  match dec_z t with
  | Some (qz, t1) =>
      match dec_pair dec_str (dec_pair dec_str dec_val) t1 with
      | Some ((type_, (attr, v)), _) =>
          let o := opts_of_quote (Z.to_N qz) in
          enc_res enc_value
            (do props <- get_attribute_properties type_ attr; format_value o attr props v)
      | None => bad_input
      end
  | None => bad_input
  end.

Definition dec_opts (t : toks) : option (opts * toks) :=
  match dec_z t with
  | Some (ind, t1) =>
      match dec_str t1 with
      | Some (sp, t2) =>
          match dec_z t2 with
          | Some (qz, t3) =>
              match dec_str t3 with
              | Some (nl, t4) =>
                  match dec_bool t4 with
                  | Some (ec, t5) =>
                      match dec_bool t5 with
                      | Some (al, t6) =>
                          match dec_bool t6 with
                          | Some (sc, t7) =>
                              Some (mk_opts (Z.to_nat ind) sp (Z.to_N qz) nl ec al sc, t7)
                          | None => None
                          end
                      | None => None
                      end
                  | None => None
                  end
              | None => None
              end
          | None => None
          end
      | None => None
      end
  | None => None
  end.

(* payload: opts, value *)
Definition obs_lines (t : toks) : toks :=
  match dec_opts t with
  | Some (o, t1) =>
      match dec_val t1 with
      | Some (v, _) =>
          enc_res (fun r => enc_str (fst r) ++ enc_value (snd r)) (pprint o v)
      | None => bad_input
      end
  | None => bad_input
  end.

Definition obs_str (t : toks) : toks :=
  match dec_val t with
  | Some (v, _) => enc_str (py_str v) ++ enc_str (py_repr v)
  | None => bad_input
  end.

Definition obs_strip (t : toks) : toks :=
  match dec_str t with
  | Some (s, _) => enc_str (py_strip s)
  | None => bad_input
  end.
