(* Observation points of the validator component: decode a case, run the
   model on the generated schema files, encode what the harness compares with
   the implementation.
     70 O-ver   get_versioned_schema(version, name) on a fresh Validator, walked
     71 O-val   Validator().validate(value, schema_name=name, version=version)
     72 O-hist  a call history on ONE Validator (digests of the schema answers)
     73 O-rx    re.search(pattern, string) for a schema pattern
     74         str(version)
     75         Validator().convert_lowercase(value) *)
From MF Require Import Lib.Base Lib.Json Lib.PyDict Lib.Codec Gen.Schemas Model.Case
  Model.SchemaStore Model.Schema Model.Validator.
Open Scope Z_scope.

Fixpoint json_to_value (j : json) : value :=
  match j with
  | JNull => VNone
  | JBool b => VBool b
  | JInt z => VInt z
  | JFloat m e => VFloat m e
  | JStr s => VStr s
  | JArr l => VList (map json_to_value l)
  | JObj l => VDict DPlain ((fix go (l : list (str * json)) : list (str * value) :=
                               match l with
                               | [] => []
                               | (k, x) :: l' => (k, json_to_value x) :: go l'
                               end) l)
  end.

Definition dec_vnum (t : toks) : option (vnum * toks) :=
  match t with
  | 0 :: z :: r => Some (NInt z, r)
  | 1 :: m :: e :: r => Some (NFloat m e, r)
  | _ => None
  end.

Definition enc_err (e : exn) : toks := [1; exn_code e].

(* a cheap digest of a token list (the harness computes the same) *)
Definition digest (t : toks) : Z :=
  fold_left (fun h x => Z.land (h * 31 + x + 7) 1073741823) t 17.

Definition enc_tree (full : bool) (j : json) : toks :=
  let t := enc_value (json_to_value j) in
  if full then t else [digest t].

Definition obs_ver (t : toks) : toks :=
  match dec_pair dec_str (dec_opt dec_vnum) t with
  | Some ((name, ver), _) =>
      match get_versioned_schema schema_files ver name init_state with
      | (Ok e, _) => 0 :: enc_tree true (entry_tree e)
      | (Err x, _) => enc_err x
      end
  | None => bad_input
  end.

Definition enc_msgs (r : res (list value)) : toks :=
  match r with
  | Ok msgs => 0 :: enc_list enc_value msgs
  | Err x => enc_err x
  end.

Definition obs_val (t : toks) : toks :=
  match dec_val t with
  | Some (v, t1) =>
      match dec_pair dec_str (dec_opt dec_vnum) t1 with
      | Some ((name, ver), _) => enc_msgs (fst (validate schema_files v name ver init_state))
      | None => bad_input
      end
  | None => bad_input
  end.

Definition dec_call (t : toks) : option (call * toks) :=
  match t with
  | 0 :: r =>
      match dec_val r with
      | Some (v, r1) =>
          match dec_pair dec_str (dec_opt dec_vnum) r1 with
          | Some ((name, ver), r2) => Some (CValidate v name ver, r2)
          | None => None
          end
      | None => None
      end
  | 1 :: r =>
      match dec_pair dec_str (dec_opt dec_vnum) r with
      | Some ((name, ver), r2) => Some (CVersioned ver name, r2)
      | None => None
      end
  | 2 :: r =>
      match dec_pair dec_str (dec_opt dec_vnum) r with
      | Some ((name, ver), r2) => Some (CExpanded name ver, r2)
      | None => None
      end
  | _ => None
  end.

Definition enc_answer (a : answer) : toks :=
  match a with
  | AMsgs r => enc_msgs r
  | ASchema (Ok t) => 0 :: enc_tree false t
  | ASchema (Err x) => enc_err x
  end.

Fixpoint enc_answers (l : list answer) : toks :=
  match l with
  | [] => []
  | a :: l' => let r := enc_answer a in (Z.of_nat (length r) :: r) ++ enc_answers l'
  end.

Definition obs_hist (t : toks) : toks :=
  match dec_list dec_call t with
  | Some (cs, _) => enc_answers (run schema_files init_state cs)
  | None => bad_input
  end.

Definition obs_rx (t : toks) : toks :=
  match dec_pair dec_str dec_str t with
  | Some ((p, s), _) =>
      match rx_lookup p with
      | Some f => [if f s then 1 else 0]
      | None => [2]
      end
  | None => bad_input
  end.

Definition obs_vstr (t : toks) : toks :=
  match dec_vnum t with
  | Some (v, _) => enc_str (vnum_str v)
  | None => bad_input
  end.

Definition obs_lower (t : toks) : toks :=
  match dec_val t with
  | Some (v, _) => enc_value (convert_lowercase v)
  | None => bad_input
  end.
