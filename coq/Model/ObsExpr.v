(* Observation points for the expression component: decode a case, run the
   model, encode what the harness compares with the implementation.

   Wire code of trees (prefix code, integers; strings as in Lib/Codec.v):
     leaf : 0 name | 1 int-spelling | 2 float-spelling | 3 spelling b | 4 raw
            | 5 n (0 raw | 1 name)*n
     tree : 0 leaf | 1 name n leaf*n | 2 t | 3 sp t | 4 t | 5 t | 6 o l r
            | 7 op l r | 8 sp l r | 9 sp l r          (o: 0 + 1 - 2 * 3 / 4 ^)
   The value of a numeric leaf is computed here from its spelling with
   [int_of_lit] / [float_of_lit], so those are exercised by every case. *)
From MF Require Import Lib.Base Lib.Json Lib.Codec Gen.Schemas Model.Case Model.SchemaStore Model.Expr.
Open Scope Z_scope.

Definition dec_lelem (t : toks) : option (lelem * toks) :=
  match t with
  | 0 :: r => match dec_str r with Some (s, r') => Some (LEVerb s, r') | None => None end
  | 1 :: r => match dec_str r with Some (s, r') => Some (LEBind s, r') | None => None end
  | _ => None
  end.

Definition dec_leaf (t : toks) : option (leaf * toks) :=
  match t with
  | 0 :: r => match dec_str r with Some (s, r') => Some (LBind s, r') | None => None end
  | 1 :: r => match dec_str r with Some (s, r') => Some (LInt s (int_of_lit s), r') | None => None end
  | 2 :: r => match dec_str r with
              | Some (s, r') => let '(m, e) := float_of_lit s in Some (LFloat s m e, r')
              | None => None end
  | 3 :: r => match dec_str r with
              | Some (s, b :: r') => Some (LBool s (negb (b =? 0)), r')
              | _ => None end
  | 4 :: r => match dec_str r with Some (s, r') => Some (LVerb s, r') | None => None end
  | 5 :: r => match dec_list dec_lelem r with Some (es, r') => Some (LList es, r') | None => None end
  | _ => None
  end.

Definition aop_of_code (z : Z) : aop :=
  if z =? 0 then Add else if z =? 1 then Sub else if z =? 2 then Mul else if z =? 3 then Div else Pow.

Fixpoint dec_tree (fuel : nat) (t : toks) : option (etree * toks) :=
  match fuel with
  | O => None
  | S f =>
      let un (k : etree -> etree) (r : toks) :=
        match dec_tree f r with Some (x, r') => Some (k x, r') | None => None end in
      let bin (k : etree -> etree -> etree) (r : toks) :=
        match dec_tree f r with
        | Some (x, r1) => match dec_tree f r1 with Some (y, r2) => Some (k x y, r2) | None => None end
        | None => None
        end in
      match t with
      | 0 :: r => match dec_leaf r with Some (l, r') => Some (ELeaf l, r') | None => None end
      | 1 :: r => match dec_str r with
                  | Some (n, r1) => match dec_list dec_leaf r1 with
                                    | Some (ps, r2) => Some (EFunc n ps, r2)
                                    | None => None end
                  | None => None end
      | 2 :: r => un EGroup r
      | 3 :: r => match dec_str r with Some (sp, r1) => un (ENot sp) r1 | None => None end
      | 4 :: r => un ENeg r
      | 5 :: r => un EPos r
      | 6 :: o :: r => bin (EArith (aop_of_code o)) r
      | 7 :: r => match dec_str r with Some (op, r1) => bin (ECmp op) r1 | None => None end
      | 8 :: r => match dec_str r with Some (sp, r1) => bin (EAnd sp) r1 | None => None end
      | 9 :: r => match dec_str r with Some (sp, r1) => bin (EOr sp) r1 | None => None end
      | _ => None
      end
  end.

Definition enc_bool (b : bool) : Z := if b then 1 else 0.

(* fn 10: tree -> stored string, source text, token/space account, guards *)
Definition obs_norm (t : toks) : toks :=
  match dec_tree (S (length t)) t with
  | Some (T, _) =>
      0 :: enc_str (norm T) ++ enc_str (source T) ++ enc_str (flat (norm_pieces T))
        ++ [enc_bool (wf T); enc_bool (percent_free T); enc_bool (paren_safe T);
            enc_bool (neg_safe T); enc_bool (lists_ok T)]
        ++ enc_str (source (renorm T)) ++ enc_str (norm (renorm T)) ++ [enc_bool (wf (renorm T))]
  | None => bad_input
  end.

(* fn 11: one builder applied to strings.  code: 0 comparison 1 and 2 or 3 not
   4 expression 5 add 6 sub 7 mul 8 div 9 power 10 neg 11 func_params
   12 func_call 13 attr_bind 14 list *)
Definition nth_str (l : list str) (n : nat) : str := nth n l [].

Definition obs_builder (t : toks) : toks :=
  match t with
  | code :: r =>
      match dec_list dec_str r with
      | Some (a, _) =>
          let x := nth_str a 0 in let y := nth_str a 1 in let z := nth_str a 2 in
          enc_str
            (if code =? 0 then b_comparison x y z
             else if code =? 1 then b_and x y
             else if code =? 2 then b_or x y
             else if code =? 3 then b_not x
             else if code =? 4 then b_expression a
             else if code =? 5 then b_add x y
             else if code =? 6 then b_sub x y
             else if code =? 7 then b_mul x y
             else if code =? 8 then b_div x y
             else if code =? 9 then b_power x y
             else if code =? 10 then b_neg x
             else if code =? 11 then b_func_params a
             else if code =? 12 then b_func_call x y
             else if code =? 13 then b_attr_bind x
             else b_list a)
      | None => bad_input
      end
  | [] => bad_input
  end.

(* fn 12: str(int(s)) / str(float(s)) *)
Definition obs_literal (t : toks) : toks :=
  match t with
  | k :: r =>
      match dec_str r with
      | Some (s, _) =>
          if k =? 0 then enc_str (py_int_repr (int_of_lit s))
          else let '(m, e) := float_of_lit s in enc_str (py_float_repr m e) ++ [m; e]
      | None => bad_input
      end
  | [] => bad_input
  end.

(* PrettyPrinter.get_attribute_properties: properties[attr] of the expanded
   schema of the object type (a $ref entry stands for the referenced file) *)
Definition attribute_properties (type_ attr : str) : option json :=
  match schema_of (schema_file_name type_) with
  | Some s =>
      match jget (Str "properties") s with
      | Some props => match jget attr props with Some p => Some (deref p) | None => None end
      | None => None
      end
  | None => None
  end.

(* fn 13: format_value(attr, get_attribute_properties(type, attr), value) for a str value *)
Definition obs_format (t : toks) : toks :=
  match dec_str t with
  | Some (ty, r1) =>
      match dec_str r1 with
      | Some (attr, r2) =>
          match dec_str r2 with
          | Some (v, _) =>
              match attribute_properties ty attr with
              | Some p => 0 :: enc_str (format_value_str lower upper attr p v)
              | None => [1]
              end
          | None => bad_input
          end
      | None => bad_input
      end
  | None => bad_input
  end.
