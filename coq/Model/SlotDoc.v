(* One element of the finite slot product (C19 / C02): a mini document written
   by the independent renderer and the structure it is intended to have. *)
From MF Require Import Lib.Base.

Record slotdoc := mk_slotdoc {
  sd_type : str; sd_key : str; sd_shape : str; sd_ctx : str; sd_text : str; sd_want : value }.

Definition hidden_key (k : str) : bool :=
  startswith k (Str "__") && endswith k (Str "__") && negb (str_eqb k (Str "__type__")).

(* the visible content of a loaded dictionary: hidden keys other than __type__
   dropped at every depth (dict classes are not compared by value_eqb) *)
Fixpoint visible (v : value) : value :=
  match v with
  | VList l => VList (map visible l)
  | VDict c items =>
      VDict c ((fix go (l : list (str * value)) : list (str * value) :=
                  match l with
                  | [] => []
                  | (k, x) :: l' => if hidden_key k then go l' else (k, visible x) :: go l'
                  end) items)
  | _ => v
  end.
