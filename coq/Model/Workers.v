(* The four worker objects of the public API as explicit state machines, and a
   generic scheduler for independent threads.  Definitions only. *)
From MF Require Import Lib.Base Model.GrammarTypes Model.Lexer Model.LR Model.Transformer Model.Api
  Gen.Grammar.
Open Scope N_scope.

(* ---- mappyfile.parser.Parser: the comment buffer shared with the lexer
   callbacks and the comments_dict of the last parse *)
Record parser_obj := mk_parser_obj { po_buffer : list token; po_dict : list (N * str) }.

(* the lexer callbacks append to the SAME list object, so a parse starts from
   whatever the buffer holds after `self._comments[:] = []` *)
Definition clear_buffer (buf : list token) : list token := [].

Definition parse_from_buffer (ic : bool) (buf : list token) (text : str) : list token * res parse_out :=
  parse_loop the_grammar the_hook ic (S (length text)) (mk_ls lc0 text buf None) [g_start the_grammar] [] [].

(* Parser.parse(text) on include-free text: new object state and result *)
Definition parser_parse (ic : bool) (p : parser_obj) (text : str) : parser_obj * res tree :=
  let buf0 := clear_buffer (po_buffer p) in
  match snd (parse_from_buffer ic buf0 text) with
  | Ok po =>
      if ic then
        let cd := comments_dict (po_comments po) in
        (mk_parser_obj (rev (po_comments po)) cd, Ok (assign_comments (po_comments po) (po_tree po)))
      else (mk_parser_obj (po_buffer p) (po_dict p), Ok (po_tree po))
  | Err e => (mk_parser_obj buf0 (po_dict p), Err e)
  end.

(* ---- a scheduler for threads that share nothing: each thread is a list of
   calls on its own local state; a schedule picks which thread runs next *)
Section Threads.
  Variables (St Call Res : Type).
  Variable step : St -> Call -> St * Res.

  Definition thread := (St * list Call * list Res)%type.      (* state, remaining calls, results so far (reversed) *)

  Definition run_one (t : thread) : thread :=
    match t with
    | (s, c :: cs, rs) => let '(s', r) := step s c in (s', cs, r :: rs)
    | (_, [], _) => t
    end.

  Fixpoint update_nth {A} (n : nat) (f : A -> A) (l : list A) : list A :=
    match l, n with
    | [], _ => []
    | x :: l', O => f x :: l'
    | x :: l', S n' => x :: update_nth n' f l'
    end.

  (* run the pool under a schedule (thread indices) *)
  Fixpoint run_schedule (sched : list nat) (pool : list thread) : list thread :=
    match sched with
    | [] => pool
    | i :: sched' => run_schedule sched' (update_nth i run_one pool)
    end.

  (* run one thread alone for n steps *)
  Fixpoint run_alone (n : nat) (t : thread) : thread :=
    match n with O => t | S n' => run_alone n' (run_one t) end.
End Threads.
