(* Observation points for the dict component: decode a case, run the model,
   encode what the harness compares with the implementation. *)
From MF Require Import Lib.Base Lib.PyDict Lib.Codec Gen.Tokens Model.Case Model.OrderedDict.
Open Scope Z_scope.

Definition dec_op (t : toks) : option (op * toks) :=
  match t with
  | 0 :: r => match dec_str r with Some (k, r') => Some (OGet k, r') | None => None end
  | 1 :: r => match dec_pair dec_str dec_val r with Some ((k, v), r') => Some (OSet k v, r') | None => None end
  | 2 :: r => match dec_str r with Some (k, r') => Some (ODel k, r') | None => None end
  | 3 :: r => match dec_str r with Some (k, r') => Some (OIn k, r') | None => None end
  | 4 :: r => match dec_str r with Some (k, r') => Some (OHasKey k, r') | None => None end
  | 5 :: r => match dec_pair dec_str dec_val r with Some ((k, v), r') => Some (OGetD k v, r') | None => None end
  | 6 :: r => match dec_pair dec_str (dec_opt dec_val) r with Some ((k, v), r') => Some (OPop k v, r') | None => None end
  | 7 :: r => match dec_pair dec_str dec_val r with Some ((k, v), r') => Some (OSetDefault k v, r') | None => None end
  | 8 :: r => match dec_items r with Some (e, r') => Some (OUpdate e, r') | None => None end
  | 9 :: r => match dec_items r with Some (e, r') => Some (OUpdateKw e, r') | None => None end
  | 10 :: r => Some (ORebuild, r)
  | 11 :: r => Some (OCopy, r)
  | 12 :: r => Some (ODeepCopy, r)
  | 13 :: r => Some (OPickle, r)
  | 14 :: r => match dec_str r with Some (k, r') => Some (OMoveToEnd k, r') | None => None end
  | 15 :: r => match dec_pair dec_items dec_items r with Some ((e, kw), r') => Some (OUpdateBoth e kw, r') | None => None end
  | _ => None
  end.

Definition enc_out (o : out) : toks :=
  match o with
  | OutV v => 0 :: enc_value v
  | OutB b => [1; if b then 1 else 0]
  | OutNone => [2]
  | OutKeyError => [3]
  end.

Fixpoint trace (d : cid) (ops : list op) : toks :=
  match ops with
  | [] => []
  | o :: ops' =>
      let '(d1, r) := step lower OBJECT_LIST_KEYS d o in
      enc_out r ++ enc_items (store d1) ++ trace d1 ops'
  end.

(* payload: factory flag, initial pairs, op list *)
Definition obs_c17 (t : toks) : toks :=
  match dec_bool t with
  | Some (f, t1) =>
      match dec_items t1 with
      | Some (e, t2) =>
          match dec_list dec_op t2 with
          | Some (ops, _) =>
              match ci_new lower OBJECT_LIST_KEYS f e with
              | Ok d => 0 :: enc_items (store d) ++ trace d ops
              | Err e => [1; exn_code e]
              end
          | None => bad_input
          end
      | None => bad_input
      end
  | None => bad_input
  end.
