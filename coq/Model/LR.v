(* Lark 1.3 LALR run-time: ParserState.feed_token, the parse-tree builder
   (ChildFilterLALR_NoPlaceholders, ExpandSingleChild, PropagatePositions) and
   mappyfile's interactive parse loop with its token-retyping hook
   (parser.py: Parser.parse).  Definitions only. *)
From MF Require Import Lib.Base Lib.Regex Model.GrammarTypes Model.Lexer.
Open Scope N_scope.

(* ---------------------------------------------------------------- tree builder *)
Fixpoint apply_filter (inc : list (nat * bool)) (children : list tree) : res (list tree) :=
  match inc with
  | [] => Ok []
  | (i, expand) :: inc' =>
      match nth_error children i with
      | None => Err PyIndexError
      | Some c =>
          do rest <- apply_filter inc' children;
          if expand then
            match c with
            | Node _ cs _ => Ok (cs ++ rest)
            | Tok _ => Err PyAttributeError
            end
          else Ok (c :: rest)
      end
  end.

(* PropagatePositions._pp_get_meta: first child that is a token or a tree with
   non-empty meta; returns (line, container_line-or-line) resp. end versions *)
Fixpoint first_meta_start (cs : list tree) : option N :=
  match cs with
  | [] => None
  | Tok t :: _ => Some (tline t)
  | Node _ _ m :: cs' =>
      if m_empty m then first_meta_start cs'
      else match m_cline m with Some l => Some l | None => m_line m end
  end.

Fixpoint first_meta_end (cs : list tree) : option N :=
  match cs with
  | [] => None
  | Tok t :: _ => Some (tend_line t)
  | Node _ _ m :: cs' =>
      if m_empty m then first_meta_end cs'
      else match m_cend_line m with Some l => Some l | None => m_end_line m end
  end.

Definition propagate (children : list tree) (res0 : tree) : tree :=
  match res0 with
  | Tok _ => res0
  | Node d cs m =>
      let m1 :=
        match first_meta_start children with
        | Some l =>
            mk_meta (match m_line m with Some _ => m_empty m | None => false end)
                    (match m_line m with Some x => Some x | None => Some l end)
                    (m_end_line m) (Some l) (m_cend_line m) (m_comments m)
        | None => m
        end in
      let m2 :=
        match first_meta_end (rev children) with
        | Some l =>
            mk_meta (match m_end_line m1 with Some _ => m_empty m1 | None => false end)
                    (m_line m1)
                    (match m_end_line m1 with Some x => Some x | None => Some l end)
                    (m_cline m1) (Some l) (m_comments m1)
        | None => m1
        end in
      Node d cs m2
  end.

Definition build (pp : bool) (r : rule_info) (children : list tree) : res tree :=
  do filtered <- match r_filter r with
                 | Some inc => apply_filter inc children
                 | None => Ok children
                 end;
  let node :=
    match r_expand1 r, filtered with
    | true, [c] => c
    | _, _ => Node (r_name r) filtered meta0
    end in
  Ok (if pp then propagate children node else node).

(* ---------------------------------------------------------------- LR driver *)
Definition lookup_action (g : grammar) (state sym : N) : option action :=
  match nth_N (g_table g) state with
  | Some row => assocN sym row
  | None => None
  end.

Fixpoint pop_n {A} (n : nat) (l : list A) : option (list A * list A) :=   (* popped (top first), rest *)
  match n, l with
  | O, _ => Some ([], l)
  | S n', x :: l' => match pop_n n' l' with Some (p, r) => Some (x :: p, r) | None => None end
  | S _, [] => None
  end.

Inductive feedres :=
| FShift (ss : list N) (vs : list tree)
| FDone (v : tree)
| FErr (e : exn).

(* ParserState.feed_token; stacks have their top at the head *)
Fixpoint feed (g : grammar) (pp : bool) (fuel : nat) (tok : token) (is_end : bool)
         (ss : list N) (vs : list tree) : feedres :=
  match fuel with
  | O => FErr OutOfFuel
  | S fuel' =>
      match ss with
      | [] => FErr PyIndexError
      | state :: _ =>
          match lookup_action g state (ttype tok) with
          | None => FErr (LarkUnexpectedToken (tline tok) (tcol tok))
          | Some (Shift ns) =>
              if is_end then FErr PyAssertionError
              else FShift (ns :: ss) (Tok tok :: vs)
          | Some (Reduce ri) =>
              match nth_N (g_rules g) ri with
              | None => FErr PyKeyError
              | Some r =>
                  let size := length (r_expansion r) in
                  match pop_n size ss, pop_n size vs with
                  | Some (_, ss1), Some (popped, vs1) =>
                      match build pp r (rev popped) with
                      | Err e => FErr e
                      | Ok value =>
                          match ss1 with
                          | [] => FErr PyIndexError
                          | top :: _ =>
                              match lookup_action g top (r_origin r) with
                              | Some (Shift ns) =>
                                  if is_end && (ns =? g_end g) then FDone value
                                  else feed g pp fuel' tok is_end (ns :: ss1) (value :: vs1)
                              | _ => FErr PyKeyError
                              end
                          end
                      end
                  | _, _ => FErr PyIndexError
                  end
              end
          end
      end
  end.

(* ---------------------------------------------------------------- mappyfile's hook *)
Record hook_conf := mk_hook {
  h_unquoted : N; h_grid : N; h_value : N;     (* UNQUOTED_STRING, GRID, UNQUOTED_STRING_VALUE *)
  h_symbol_attrs : list str;
  h_upper : str -> str }.

Definition str_SYMBOL : str := Str "SYMBOL".
Definition str_NAME : str := Str "NAME".

(* Parser._previous_keyword(ip) == s : the text of the token on top of the value
   stack, upper-cased (keywords are case-insensitive since the fix recorded in
   known_findings.json); an empty stack or a Tree on top gives None *)
Definition top_is (up : str -> str) (vs : list tree) (s : str) : res bool :=
  match vs with
  | [] => Ok false
  | Tok t :: _ => Ok (str_eqb (up (tval t)) s)
  | Node _ _ _ :: _ => Ok false
  end.

Definition retype (t : token) (ty : N) : token :=
  mk_token ty (tval t) (tpos t) (tline t) (tcol t) (tend_line t) (tend_col t) (tend_pos t).

Definition hook (h : hook_conf) (t : token) (vs : list tree) : res token :=
  if ttype t =? h_unquoted h then
    do b <- top_is (h_upper h) vs str_SYMBOL;
    if b && negb (mem_str (h_upper h (tval t)) (h_symbol_attrs h)) then Ok (retype t (h_value h))
    else Ok t
  else if ttype t =? h_grid h then
    do b <- top_is (h_upper h) vs str_NAME;
    if b then Ok (retype t (h_value h)) else Ok t
  else Ok t.

(* ---------------------------------------------------------------- parse loop *)
Record parse_out := mk_pout { po_tree : tree; po_comments : list token (* in source order *) }.

Definition reduce_fuel (g : grammar) (ss : list N) : nat :=
  S (length (g_rules g)) * S (length ss).

(* returns the tokens fed so far (after the hook, most recent first) together
   with the outcome, so that the token stream can be observed even when the
   parse fails *)
Fixpoint parse_loop (g : grammar) (h : hook_conf) (wc : bool) (fuel : nat)
         (st : lexstate) (ss : list N) (vs : list tree) (acc : list token)
  : list token * res parse_out :=
  match fuel with
  | O => (acc, Err OutOfFuel)
  | S fuel' =>
      match ss with
      | [] => (acc, Err PyIndexError)
      | state :: _ =>
          match ctx_next g wc state fuel st with
          | CErrChars l c => (acc, Err (LarkUnexpectedCharacters l c))
          | CErrToken t => (acc, Err (LarkUnexpectedToken (tline t) (tcol t)))
          | CTok t st' =>
              match hook h t vs with
              | Err e => (acc, Err e)
              | Ok t' =>
                  match feed g wc (reduce_fuel g ss) t' false ss vs with
                  | FShift ss' vs' => parse_loop g h wc fuel' st' ss' vs' (t' :: acc)
                  | FDone _ => (t' :: acc, Err PyAssertionError)
                  | FErr e => (t' :: acc, Err e)
                  end
              end
          | CEof st' =>
              let endtok :=
                match ls_last st' with
                | Some lt => mk_token (g_end_term g) [] (tpos lt) (tline lt) (tcol lt)
                                      (tend_line lt) (tend_col lt) (tend_pos lt)
                | None => mk_token (g_end_term g) [] 0 1 1 1 1 0
                end in
              match feed g wc (reduce_fuel g ss) endtok true ss vs with
              | FDone v => (acc, Ok (mk_pout v (rev (ls_comments st'))))
              | FShift _ _ => (acc, Err PyAssertionError)
              | FErr e => (acc, Err e)
              end
          end
      end
  end.

(* Parser.parse after include expansion: text -> tree (+ comment tokens) *)
Definition parse_text_tr (g : grammar) (h : hook_conf) (wc : bool) (text : str)
  : list token * res parse_out :=
  parse_loop g h wc (S (length text)) (ls0 text) [g_start g] [] [].

Definition parse_text (g : grammar) (h : hook_conf) (wc : bool) (text : str) : res parse_out :=
  snd (parse_text_tr g h wc text).
