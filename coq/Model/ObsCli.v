(* Observation points of the "cli" component (O-cli): decode a case, run the
   model, encode what the harness compares with the implementation. *)
From MF Require Import Lib.Base Lib.Codec Model.Utf8 Model.Cli.
Open Scope Z_scope.

Definition enc_res_str (r : res str) : toks :=
  match r with
  | Ok s => 0 :: enc_str s
  | Err e => [1; exn_code e]
  end.

(* fn 1: str.encode("utf-8") *)
Definition obs_utf8_encode (t : toks) : toks :=
  match dec_str t with
  | Some (s, _) => enc_res_str (utf8_encode s)
  | None => bad_input
  end.

(* fn 2: bytes.decode("utf-8") *)
Definition obs_utf8_decode (t : toks) : toks :=
  match dec_str t with
  | Some (b, _) => enc_res_str (utf8_decode b)
  | None => bad_input
  end.

(* fn 3: text-mode read of already decoded characters *)
Definition obs_universal_newlines (t : toks) : toks :=
  match dec_str t with
  | Some (s, _) => enc_str (universal_newlines s)
  | None => bad_input
  end.

(* fn 4: codecs.decode(x, "unicode_escape") on the modelled domain *)
Definition obs_unicode_escape (t : toks) : toks :=
  match dec_str t with
  | Some (s, _) =>
      match unicode_escape_decode s with
      | Some r => 1 :: enc_str r
      | None => [0]
      end
  | None => bad_input
  end.

Definition dec_vmsg (t : toks) : option (vmsg * toks) :=
  match dec_pair (dec_pair (dec_opt dec_z) (dec_opt dec_z)) (dec_pair dec_str dec_str) t with
  | Some (((l, c), (m, e)), r) => Some (mk_vmsg l c m e, r)
  | None => None
  end.

Definition dec_outcome (t : toks) : option (outcome * toks) :=
  match t with
  | 0 :: r => Some (ParseFailed, r)
  | 1 :: r => match dec_list dec_vmsg r with
              | Some (msgs, r') => Some (Validated msgs, r')
              | None => None
              end
  | _ => None
  end.

(* fn 5: the validate command.  payload: mapfiles arguments, matched files
   with outcomes.  result: echoed lines, validation_count, errors, the
   argument of sys.exit (0 when the command returns without it), status *)
Definition obs_validate (t : toks) : toks :=
  match dec_list dec_str t with
  | Some (mapfiles, t1) =>
      match dec_list (dec_pair dec_str dec_outcome) t1 with
      | Some (files, _) =>
          let '(lines, status) := validate_cmd mapfiles files in
          let st := validate_loop files in
          enc_list enc_str lines
            ++ [Z.of_nat (validation_count st); Z.of_nat (errors st);
                Z.of_N (match files with [] => 0%N | _ => validate_exit_arg st end); Z.of_N status]
      | None => bad_input
      end
  | None => bad_input
  end.

(* fn 6: utils._save then Parser.open_file, at the level of the text *)
Definition obs_file_roundtrip (t : toks) : toks :=
  match dec_str t with
  | Some (s, _) => enc_res_str (file_roundtrip s)
  | None => bad_input
  end.

(* fn 7: get_mapfiles over an explicit glob table: patterns, then the table
   pattern -> list of (path, isdir) *)
Definition obs_get_mapfiles (t : toks) : toks :=
  match dec_list dec_str t with
  | Some (pats, t1) =>
      match dec_list (dec_pair dec_str (dec_list (dec_pair dec_str dec_bool))) t1 with
      | Some (table, _) =>
          let entries (p : str) := match assoc p table with Some l => l | None => [] end in
          let all := flat_map (fun kv => snd kv) table in
          let glob (p : str) := map fst (entries p) in
          let isdir (f : str) := match assoc f all with Some b => b | None => false end in
          enc_list enc_str (get_mapfiles glob isdir pats)
      | None => bad_input
      end
  | None => bad_input
  end.

(* fn 8: the OS side of sys.exit(n) *)
Definition obs_exit_status (t : toks) : toks :=
  match t with
  | n :: _ => [Z.of_N (exit_status (Z.to_N n))]
  | [] => bad_input
  end.
