(* Model of mappyfile/transformer.py (MapfileTransformer, CommentsTransformer,
   Canonize, MapfileToDict) and parser.py's _assign_comments, over the parse
   trees of Model/LR.v.  Lark's Transformer / Transformer_InPlace drivers are
   modelled as the recursions below; every exception raised inside a callback
   surfaces as lark.exceptions.VisitError (Err LarkVisitError).
   Definitions only. *)
From MF Require Import Lib.Base Lib.PyDict Lib.PyNum Model.GrammarTypes Model.Case
  Gen.Tokens Gen.Grammar.
Open Scope N_scope.

(* a lark Token as the transformer sees it: immutable text (str(token)),
   mutable .value, position (None for the synthetic symbolset token) *)
Record ptok := mk_ptok { pk_type : N; pk_orig : str; pk_val : value; pk_line : value; pk_col : value }.

(* values flowing between callbacks *)
Inductive tv :=
| TVal (v : value)                       (* plain Python data *)
| TTok (t : ptok)
| TSeq (l : list tv)                     (* list or tuple *)
| TDict (c : dcls) (items : list (str * tv)).

(* a tree whose children may already have been replaced by callback results
   (Transformer_InPlace) *)
Inductive gtree :=
| GTok (t : ptok)
| GNode (d : N) (cs : list gtree) (m : meta)
| GVal (v : tv).

Definition vfail {A} : res A := Err LarkVisitError.

Definition ptok_of (t : token) : ptok :=
  mk_ptok (ttype t) (tval t) (VStr (tval t)) (VInt (Z.of_N (tline t))) (VInt (Z.of_N (tcol t))).

Fixpoint gtree_of (t : tree) : gtree :=
  match t with
  | Tok tk => GTok (ptok_of tk)
  | Node d cs m => GNode d (map gtree_of cs) m
  end.

(* ------------------------------------------------------------ small helpers *)
Definition py_str (v : value) : res str :=
  match v with
  | VStr s => Ok s
  | VInt z => Ok (py_str_int z)
  | VFloat m e => Ok (py_float_repr m e)
  | VBool b => Ok (py_str_bool b)
  | VNone => Ok (Str "None")
  | _ => Err PyTypeError       (* str() of lists / dicts never reaches a stored value here *)
  end.

Definition tok_of (x : tv) : res ptok := match x with TTok t => Ok t | _ => vfail end.

Definition tok_str (t : ptok) : res str := match pk_val t with VStr s => Ok s | _ => vfail end.

Definition set_val (t : ptok) (v : value) : ptok :=
  mk_ptok (pk_type t) (pk_orig t) v (pk_line t) (pk_col t).

Fixpoint last_opt {A} (l : list A) : option A :=
  match l with [] => None | [x] => Some x | _ :: l' => last_opt l' end.

Definition quote_dq : N := 34.
Definition quote_sq : N := 39.

(* Quoter._in_quotes / in_quotes / remove_quotes (default quoter) *)
Definition in_quotes_ch (s : str) (q : N) : bool :=
  match s with
  | c :: _ => (c =? q) && match last_opt s with Some l => l =? q | None => false end
  | [] => false
  end.

Definition in_quotes (s : str) : bool := in_quotes_ch s quote_dq || in_quotes_ch s quote_sq.

Definition strip_ends (s : str) : str := removelast (tl s).      (* val[1:-1] *)

Definition clean_string_s (s : str) : str := if in_quotes s then strip_ends s else s.

(* clean_string on an arbitrary Python value: lists are mapped, non-strings kept *)
Fixpoint clean_string (v : value) : value :=
  match v with
  | VStr s => VStr (clean_string_s s)
  | VList l => VList (map clean_string l)
  | _ => v
  end.

Definition is_ws (c : N) : bool :=
  (c =? 32) || ((9 <=? c) && (c <=? 13)) || ((28 <=? c) && (c <=? 31)) || (c =? 133) || (c =? 160)
  || (c =? 5760) || ((8192 <=? c) && (c <=? 8202)) || (c =? 8232) || (c =? 8233) || (c =? 8239)
  || (c =? 8287) || (c =? 12288).

Fixpoint lstrip (s : str) : str :=
  match s with c :: s' => if is_ws c then lstrip s' else s | [] => [] end.
Definition strip (s : str) : str := rev (lstrip (rev (lstrip s))).

(* Quoter.in_parenthesis *)
Definition in_parenthesis (s : str) : bool :=
  let t := strip s in
  match t with
  | c :: _ => (c =? 40) && match last_opt t with Some l => l =? 41 | None => false end
  | [] => false
  end.

Fixpoint join (sep : str) (l : list str) : str :=
  match l with
  | [] => []
  | [x] => x
  | x :: l' => x ++ sep ++ join sep l'
  end.

Fixpoint mapM {A B} (f : A -> res B) (l : list A) : res (list B) :=
  match l with
  | [] => Ok []
  | x :: l' => do y <- f x; do ys <- mapM f l'; Ok (y :: ys)
  end.

(* int(text) for SIGNED_INT lexemes, float(text) for SIGNED_FLOAT lexemes *)
Fixpoint digits_val (s : str) (acc : N) : option N :=
  match s with
  | [] => Some acc
  | c :: s' => if (48 <=? c) && (c <=? 57) then digits_val s' (acc * 10 + (c - 48)) else None
  end.

Definition parse_int (s : str) : option Z :=
  match s with
  | 45 :: ((_ :: _) as d) => option_map (fun n => (- Z.of_N n)%Z) (digits_val d 0)
  | 43 :: ((_ :: _) as d) => option_map Z.of_N (digits_val d 0)
  | _ :: _ => option_map Z.of_N (digits_val s 0)
  | [] => None
  end.

Fixpoint span_digits (s : str) : str * str :=
  match s with
  | c :: s' => if (48 <=? c) && (c <=? 57) then let '(a, b) := span_digits s' in (c :: a, b) else ([], s)
  | [] => ([], [])
  end.

Fixpoint strip_trailing_zeros_fuel (fuel : nat) (m e : Z) : Z * Z :=
  match fuel with
  | O => (m, e)
  | S f => if (m =? 0)%Z then (0%Z, 0%Z)
           else if (m mod 10 =? 0)%Z then strip_trailing_zeros_fuel f (m / 10)%Z (e + 1)%Z else (m, e)
  end.

(* mantissa digits [. digits] [e[+-]digits] -> canonical decimal *)
Definition parse_float (s : str) : option (Z * Z) :=
  let '(neg, body) := match s with 45 :: r => (true, r) | 43 :: r => (false, r) | _ => (false, s) end in
  let '(ip, r1) := span_digits body in
  let '(fp, r2) := match r1 with 46 :: r => span_digits r | _ => ([], r1) end in
  match ip ++ fp with
  | [] => None
  | ds =>
      match digits_val ds 0 with
      | None => None
      | Some mant =>
          let ex := match r2 with
                    | [] => Some 0%Z
                    | c :: r => if (c =? 101) || (c =? 69) then parse_int r else None
                    end in
          match ex with
          | None => None
          | Some x =>
              let m := (if neg then - Z.of_N mant else Z.of_N mant)%Z in
              Some (strip_trailing_zeros_fuel (S (length ds)) m (x - Z.of_nat (length fp))%Z)
          end
      end
  end.

(* ------------------------------------------------------------ dict helpers *)
Notation titems := (list (str * tv)).

Definition ci_set (k : str) (v : tv) (d : titems) : titems := od_set (lower k) v d.
Definition ci_get (k : str) (d : titems) : option tv := assoc (lower k) d.

Definition s_type : str := Str "__type__".
Definition s_position : str := Str "__position__".
Definition s_tokens : str := Str "__tokens__".
Definition s_comments : str := Str "__comments__".
Definition s_line : str := Str "line".
Definition s_column : str := Str "column".
Definition s_values : str := Str "values".
Definition s_config : str := Str "config".
Definition s_points : str := Str "points".
Definition s_end : str := Str "end".
Definition s_symbolset : str := Str "symbolset".
Definition s_metadata : str := Str "metadata".

(* MapfileTransformer.plural *)
Definition plural (s : str) : str :=
  match last_opt s with
  | Some 115 => s ++ Str "es"
  | _ => s ++ Str "s"
  end.

(* flatten: tokens, lists/tuples (spliced one level), dicts via __tokens__ *)
Fixpoint flatten (vs : list tv) : res (list tv) :=
  match vs with
  | [] => Ok []
  | v :: vs' =>
      do rest <- flatten vs';
      match v with
      | TTok _ => Ok (v :: rest)
      | TSeq l => Ok (l ++ rest)
      | TDict _ items =>
          match assoc s_tokens items with
          | Some (TSeq l) => Ok (l ++ rest)
          | _ => vfail
          end
      | TVal _ => vfail
      end
  end.

Definition pos_pair (x : tv) : res value :=
  match x with
  | TTok t => Ok (VList [pk_line t; pk_col t])
  | _ => vfail                         (* .line on a non-token *)
  end.

(* create_position_dict(key_token, values); [values = None] is [None] *)
Definition create_position_dict (key : ptok) (values : option (list tv)) : res value :=
  let base := [(s_line, pk_line key); (s_column, pk_col key)] in
  match values with
  | Some ((_ :: _) as vs) =>
      do flat <- flatten vs;
      do ps <- mapM pos_pair flat;
      Ok (VDict DPlain (base ++ [(s_values, VList ps)]))
  | _ => Ok (VDict DPlain base)
  end.

(* ------------------------------------------------------------ callbacks *)
Definition clean_top (v : value) : value :=
  match v with VStr s => VStr (clean_string_s s) | _ => v end.

Definition key_name (t : ptok) : res str := do s <- tok_str t; Ok (lower s).

Definition tv_dot_value (x : tv) : res value :=
  match x with TTok t => Ok (pk_val t) | _ => vfail end.      (* v.value *)

Definition s_style : str := Str "style".
Definition s_symbol : str := Str "symbol".

(* attr(tokens) *)
Definition cb_attr (tokens : list tv) : res tv :=
  match tokens with
  | [] => vfail
  | k0 :: value_tokens0 =>
      do key_token <- match k0 with
                      | TSeq (TTok t :: _) =>
                          do kn <- key_name t;
                          if str_eqb kn s_style || str_eqb kn s_symbol then Ok t else vfail
                      | TTok t => Ok t
                      | _ => vfail
                      end;
      do kn <- key_name key_token;
      do value_tokens <- match value_tokens0 with
                         | [] => vfail
                         | TSeq l :: rest => match rest with [] => Ok l | _ => vfail end
                         | _ => Ok value_tokens0
                         end;
      do pd <- create_position_dict key_token (Some value_tokens);
      let d0 : titems := [(s_position, TVal pd)] in
      match value_tokens with
      | [] => vfail         (* value_tokens[0] on an empty tuple *)
      | [vt] =>
          do t <- tok_of vt;
          let d1 := od_set s_tokens (TSeq [TTok key_token; vt]) d0 in
          Ok (TDict DPlain (od_set kn (TVal (clean_top (pk_val t))) d1))
      | a :: b :: rest =>
          if str_eqb kn s_config then
            match rest with
            | [] =>
                do ta <- tok_of a; do tb <- tok_of b;
                do ka <- match pk_val ta with VStr s => Ok s | _ => vfail end;
                Ok (TDict DPlain (od_set kn (TVal (VDict DPlain [(ka, pk_val tb)])) d0))
            | _ => vfail
            end
          else
            do vals <- mapM tv_dot_value value_tokens;
            let d1 := od_set s_tokens (TSeq (TTok key_token :: value_tokens)) d0 in
            Ok (TDict DPlain (od_set kn (TVal (VList vals)) d1))
      end
  end.

(* check_composite_tokens(name, tokens) -> key, body_tokens *)
Definition check_composite_tokens (name : str) (tokens : list tv) : res (ptok * list tv) :=
  match tokens with
  | k :: ((_ :: _) as rest) =>
      do key <- tok_of k;
      do ks <- tok_str key;
      do lastt <- match last_opt rest with Some x => tok_of x | None => vfail end;
      do ls <- tok_str lastt;
      if str_eqb (lower ks) name && str_eqb (lower ls) s_end then
        let body := removelast rest in
        do body_tokens <- mapM (fun t => match t with
                                         | TDict _ items => match assoc s_tokens items with
                                                            | Some x => Ok x
                                                            | None => vfail
                                                            end
                                         | _ => Ok t
                                         end) body;
        Ok (key, body_tokens)
      else vfail
  | _ => vfail
  end.

Definition nth_tv (l : list tv) (n : nat) : res tv :=
  match nth_error l n with Some x => Ok x | None => vfail end.

(* t[i].value for a list/tuple t *)
Definition seq_item_value (x : tv) (i : nat) : res value :=
  match x with
  | TSeq l => do e <- nth_tv l i; tv_dot_value e
  | _ => vfail
  end.

Definition value_as_str (v : value) : res str := match v with VStr s => Ok s | _ => vfail end.

(* process_value_pairs(tokens, type_) *)
Definition process_value_pairs (include_position : bool) (tokens : list tv) (type_ : str) : res tv :=
  do (key, body) <- check_composite_tokens type_ tokens;
  do kn <- key_name key;
  do d <- fold_left (fun acc t =>
                       do d <- acc;
                       do kv <- seq_item_value t 0; do vv <- seq_item_value t 1;
                       do ks <- value_as_str (clean_top kv);
                       Ok (ci_set (lower ks) (TVal (clean_top vv)) d))
                    body (Ok []);
  do d1 <- (if include_position then
              do pd <- create_position_dict key (Some body);
              Ok (ci_set s_position (TVal pd) d)
            else Ok d);
  Ok (TDict (DCI true) (ci_set s_type (TVal (VStr kn)) d1)).

(* config(t) *)
Definition cb_config (t : list tv) : res tv :=
  match t with
  | [k; a; b] =>
      do ta <- tok_of a; do tb <- tok_of b;
      do ks <- tok_str ta;
      let key := lower ks in
      let ta' := set_val ta (VStr (clean_string_s key)) in
      let tb' := set_val tb (clean_top (pk_val tb)) in
      cb_attr [k; TTok ta'; TTok tb']
  | _ => vfail
  end.

(* projection(tokens) *)
Definition cb_projection (tokens : list tv) : res tv :=
  do (_, body) <- check_composite_tokens (Str "projection") tokens;
  do strs <- mapM (fun v => do x <- tv_dot_value v; Ok (clean_string x)) body;
  match tokens with
  | k :: v1 :: _ =>
      do vt <- tok_of v1;
      cb_attr [k; TTok (set_val vt (VList strs))]
  | _ => vfail
  end.

(* process_pair_lists(key_name, tokens) *)
Definition process_pair_lists (name : str) (tokens : list tv) : res tv :=
  do (_, body) <- check_composite_tokens name tokens;
  do pairs <- mapM (fun v => do a <- seq_item_value v 0; do b <- seq_item_value v 1; Ok (VList [a; b])) body;
  match tokens with
  | k :: TSeq (TTok vt :: _) :: _ => cb_attr [k; TTok (set_val vt (VList pairs))]
  | _ => vfail          (* tokens[1][0] is a str or absent: .value fails *)
  end.

(* ---- expressions: str() of .value, f-strings *)
Definition tok_pystr (x : tv) : res str :=
  do v <- tv_dot_value x; match py_str v with Ok s => Ok s | Err _ => vfail end.

Definition sp : str := [32].

Definition set_first (t : list tv) (s : str) : res tv :=
  match t with TTok a :: _ => Ok (TTok (set_val a (VStr s))) | _ => vfail end.

Definition cb_binary (t : list tv) (pre mid post : str) : res tv :=
  match t with
  | [a; b] => do sa <- tok_pystr a; do sb <- tok_pystr b; set_first t (pre ++ sa ++ mid ++ sb ++ post)
  | _ => vfail
  end.

Definition cb_comparison (t : list tv) : res tv :=
  match t with
  | [a; b; c] =>
      do sa <- tok_pystr a; do sb <- tok_pystr b; do sc <- tok_pystr c;
      set_first t (Str "( " ++ join sp [sa; sb; sc] ++ Str " )")
  | _ => vfail
  end.

Definition cb_expression (t : list tv) : res tv :=
  do parts <- mapM tok_pystr t;
  let exp := join sp parts in
  match t with
  | TTok a :: _ => if in_parenthesis exp then Ok (TTok a) else Ok (TTok (set_val a (VStr ([40] ++ exp ++ [41]))))
  | _ => vfail
  end.

Definition cb_prefix (t : list tv) (pre : str) (arity1 : bool) : res tv :=
  match t with
  | a :: rest =>
      if arity1 && negb (match rest with [] => true | _ => false end) then vfail
      else do sa <- tok_pystr a; set_first t (pre ++ sa)
  | [] => vfail
  end.

Definition cb_func_call (t : list tv) : res tv :=
  match t with
  | [TTok f; TVal (VStr params)] =>
      do fs <- match py_str (pk_val f) with Ok s => Ok s | Err _ => vfail end;
      Ok (TTok (set_val f (VStr ([40] ++ fs ++ [40] ++ params ++ [41; 41]))))
  | [TTok f; p] => vfail       (* params is always the str built by func_params *)
  | _ => vfail
  end.

Definition cb_func_params (t : list tv) : res tv :=
  do parts <- mapM tok_pystr t; Ok (TVal (VStr (join [44] parts))).

Definition cb_attr_bind (t : list tv) : res tv :=
  match t with
  | [TTok a] => do s <- match py_str (pk_val a) with Ok s => Ok s | Err _ => vfail end;
                Ok (TTok (set_val a (VStr ([91] ++ s ++ [93]))))
  | _ => vfail
  end.

(* list(t): str(token) is the token's ORIGINAL text, not its .value *)
Definition cb_list (t : list tv) : res tv :=
  match t with
  | TTok v :: _ =>
      do parts <- mapM (fun x => match x with TTok a => Ok (pk_orig a) | _ => vfail end) t;
      Ok (TTok (set_val v (VStr ([123] ++ join [44] parts ++ [125]))))
  | _ => vfail
  end.

Definition first_tok (t : list tv) : res ptok :=
  match t with TTok a :: _ => Ok a | _ => vfail end.

Definition cb_first (t : list tv) : res tv :=            (* return t[0] *)
  match t with x :: _ => Ok x | [] => vfail end.

Definition cb_int (t : list tv) : res tv :=
  do a <- first_tok t; do s <- tok_str a;
  match parse_int s with Some z => Ok (TTok (set_val a (VInt z))) | None => vfail end.

Definition cb_float (t : list tv) : res tv :=
  do a <- first_tok t; do s <- tok_str a;
  match parse_float s with Some (m, e) => Ok (TTok (set_val a (VFloat m e))) | None => vfail end.

Definition cb_bool (b : bool) (t : list tv) : res tv :=
  do a <- first_tok t; Ok (TTok (set_val a (VBool b))).

Definition cb_hexcolor (t : list tv) : res tv :=
  do a <- first_tok t; do s <- tok_str a;
  Ok (TTok (set_val a (VStr (lower (clean_string_s s))))).

Definition cb_len (n : nat) (t : list tv) : res tv :=
  if Nat.eqb (length t) n then Ok (TSeq t) else vfail.

(* calculate_depth; [None] = False *)
Fixpoint depth_fuel (fuel : nat) (v : value) : res Z :=
  match fuel with
  | O => vfail
  | S f =>
      match v with
      | VList [] => vfail                       (* max() of an empty sequence *)
      | VList l =>
          do ds <- mapM (depth_fuel f) l;
          Ok (fold_left Z.max ds 0%Z + 1)%Z
      | _ => Ok 0%Z
      end
  end.

Fixpoint value_size (v : value) : nat :=
  match v with
  | VList l => S (fold_left (fun a x => a + value_size x)%nat l O)
  | _ => 1%nat
  end.

Definition calculate_depth (v : value) : res Z := depth_fuel (S (value_size v)) v.

(* ---- composite(t) *)
Definition tv_list_append (x : tv) (e : tv) : res tv :=
  match x with
  | TSeq l => Ok (TSeq (l ++ [e]))
  | TVal (VList l) => match e with TVal v => Ok (TVal (VList (l ++ [v]))) | _ => Ok (TSeq (map TVal l ++ [e])) end
  | _ => vfail
  end.

Definition pos_get (pd : option value) : option (list (str * value)) :=
  match pd with Some (VDict _ items) => Some items | _ => None end.

Record cstate := mk_cs { cs_dict : titems; cs_pos : option (list (str * value)); cs_comments : list (str * value) }.

Definition process_config (st : cstate) (attr_items : titems) (pos : value) : res cstate :=
  match assoc s_config attr_items with
  | Some (TVal (VDict _ cfg)) =>
      let cur := match ci_get s_config (cs_dict st) with
                 | Some (TDict _ items) => items
                 | _ => []
                 end in
      let cur' := fold_left (fun d kv => ci_set (fst kv) (TVal (snd kv)) d) cfg cur in
      let d' := ci_set s_config (TDict (DCI true) cur') (cs_dict st) in
      do p' <- match cs_pos st with
               | Some pitems =>
                   match cfg with
                   | [(sub, _)] =>
                       let curp := match assoc s_config pitems with Some (VDict _ x) => x | _ => [] end in
                       Ok (Some (od_set s_config (VDict DPlain (od_set sub pos curp)) pitems))
                   | _ => vfail
                   end
               | None => Ok None
               end;
      Ok (mk_cs d' p' (cs_comments st))
  | _ => vfail
  end.

Definition process_points (st : cstate) (attr_items : titems) (pos : value) : res cstate :=
  match assoc s_points attr_items with
  | Some (TVal newv) =>
      do d' <- match ci_get s_points (cs_dict st) with
               | None => Ok (ci_set s_points (TVal newv) (cs_dict st))
               | Some (TVal existing) =>
                   do dep <- calculate_depth existing;
                   let base := if (dep =? 2)%Z then VList [existing] else existing in
                   match base with
                   | VList l => Ok (ci_set s_points (TVal (VList (l ++ [newv]))) (cs_dict st))
                   | _ => vfail
                   end
               | Some _ => vfail
               end;
      let p' := match cs_pos st with
                | Some pitems =>
                    match assoc s_points pitems with
                    | None => Some (od_set s_points pos pitems)
                    | Some (VDict c x) => Some (od_set s_points (VList [VDict c x; pos]) pitems)
                    | Some (VList l) => Some (od_set s_points (VList (l ++ [pos])) pitems)
                    | Some _ => Some pitems
                    end
                | None => None
                end in
      Ok (mk_cs d' p' (cs_comments st))
  | _ => vfail
  end.

Definition composite_item (include_comments : bool) (st : cstate) (d : tv) : res cstate :=
  match d with
  | TDict c items =>
      match assoc s_type items with
      | Some ty =>
          do k <- match ty with TVal (VStr k) => Ok k | _ => vfail end;
          if mem_str k SINGLETON_COMPOSITE_NAMES then
            Ok (mk_cs (ci_set k d (cs_dict st)) (cs_pos st) (cs_comments st))
          else
            let pk := plural k in
            let cur := match ci_get pk (cs_dict st) with Some x => x | None => TSeq [] end in
            do cur' <- tv_list_append cur d;
            Ok (mk_cs (ci_set pk cur' (cs_dict st)) (cs_pos st) (cs_comments st))
      | None =>
          do pos <- match assoc s_position items with Some (TVal p) => Ok p | _ => vfail end;
          let items1 := od_del s_tokens (od_del s_position items) in
          let comments := assoc s_comments items1 in
          let items2 := od_del s_comments items1 in
          match items2 with
          | [(kn, v)] =>
              if str_eqb kn s_config then process_config st items2 pos
              else if str_eqb kn s_points then process_points st items2 pos
              else if mem_str kn REPEATED_KEYS then
                let cur := match ci_get kn (cs_dict st) with Some x => x | None => TSeq [] end in
                do cur' <- tv_list_append cur v;
                let p' := match cs_pos st with
                          | Some pitems =>
                              let curp := match assoc kn pitems with Some (VList l) => l | _ => [] end in
                              Some (od_set kn (VList (curp ++ [pos])) pitems)
                          | None => None
                          end in
                Ok (mk_cs (ci_set kn cur' (cs_dict st)) p' (cs_comments st))
              else
                let p' := match cs_pos st with
                          | Some pitems => Some (od_set kn pos pitems)
                          | None => None
                          end in
                let cm' := match comments with
                           | Some (TVal ((VList (_ :: _)) as cv)) =>
                               if include_comments then od_set kn cv (cs_comments st) else cs_comments st
                           | _ => cs_comments st
                           end in
                Ok (mk_cs (ci_set kn v (cs_dict st)) p' cm')
          | _ => vfail        (* get_single_key assertion *)
          end
      end
  | _ => vfail                (* d.keys() on a non-dict *)
  end.

Definition cb_composite (include_position include_comments : bool) (t : list tv) : res tv :=
  match t with
  | [x] => Ok x
  | TSeq (TTok key_token :: _) :: second :: _ =>
      let attribute_dicts := match second with TSeq l => l | other => [other] end in
      do kn <- key_name key_token;
      do pd <- (if include_position then do p <- create_position_dict key_token None; Ok (Some p) else Ok None);
      let d0 := ci_set s_type (TVal (VStr kn)) [] in
      do st <- fold_left (fun acc d => do st <- acc; composite_item include_comments st d)
                         attribute_dicts (Ok (mk_cs d0 (pos_get pd) []));
      (* the position / comments dicts are stored right after __type__ and
         mutated afterwards: rebuild in that order *)
      let with_pos := match cs_pos st with
                      | Some p => [(s_position, TVal (VDict DPlain p))]
                      | None => []
                      end in
      let with_cm := if include_comments then [(s_comments, TVal (VDict DPlain (cs_comments st)))] else [] in
      match cs_dict st with
      | ty :: rest => Ok (TDict (DCI true) (ty :: with_pos ++ with_cm ++ rest))
      | [] => vfail
      end
  | _ => vfail
  end.

Definition cb_start (t : list tv) : res tv :=
  match t with [x] => Ok x | _ => Ok (TSeq t) end.

(* ------------------------------------------------------------ dispatch by rule name *)
Definition callback (ip ic : bool) (d : N) (t : list tv) : res tv :=
  if d =? CB_start then cb_start t
  else if d =? CB_composite then cb_composite ip ic t
  else if d =? CB_composite_body then Ok (TSeq t)
  else if d =? CB_composite_type then Ok (TSeq t)
  else if d =? CB_attr then cb_attr t
  else if d =? CB_projection then cb_projection t
  else if d =? CB_config then cb_config t
  else if d =? CB_points then process_pair_lists s_points t
  else if d =? CB_pattern then process_pair_lists (Str "pattern") t
  else if d =? CB_values then process_value_pairs ip t s_values
  else if d =? CB_metadata then process_value_pairs ip t s_metadata
  else if d =? CB_validation then process_value_pairs ip t (Str "validation")
  else if d =? CB_connectionoptions then process_value_pairs ip t (Str "connectionoptions")
  else if d =? CB_comparison then cb_comparison t
  else if d =? CB_and_test then cb_binary t (Str "( ") (Str " AND ") (Str " )")
  else if d =? CB_or_test then cb_binary t (Str "( ") (Str " OR ") (Str " )")
  else if d =? CB_compare_op then cb_first t
  else if d =? CB_not_expression then cb_prefix t (Str "NOT ") false
  else if d =? CB_expression then cb_expression t
  else if d =? CB_add then cb_binary t [] (Str " + ") []
  else if d =? CB_sub then cb_binary t [] (Str " - ") []
  else if d =? CB_div then cb_binary t [] (Str " / ") []
  else if d =? CB_mul then cb_binary t [] (Str " * ") []
  else if d =? CB_power then cb_binary t [] (Str " ^ ") []
  else if d =? CB_neg then cb_prefix t [45] true
  else if d =? CB_runtime_var then cb_first t
  else if d =? CB_regexp then cb_first t
  else if d =? CB_func_call then cb_func_call t
  else if d =? CB_func_params then cb_func_params t
  else if d =? CB_attr_bind then cb_attr_bind t
  else if d =? CB_extent then cb_len 4 t
  else if d =? CB_true then cb_bool true t
  else if d =? CB_false then cb_bool false t
  else if d =? CB_int then cb_int t
  else if d =? CB_float then cb_float t
  else if d =? CB_string then cb_first t
  else if d =? CB_path then cb_first t
  else if d =? CB_string_pair then cb_len 2 t
  else if d =? CB_rgb then cb_len 3 t
  else if d =? CB_attr_bind_pair then cb_len 2 t
  else if d =? CB_attr_mixed_pair then cb_len 2 t
  else if d =? CB_colorrange then cb_len 6 t
  else if d =? CB_hexcolorrange then cb_len 2 t
  else if d =? CB_hexcolor then cb_hexcolor t
  else if d =? CB_num_pair then cb_len 2 t
  else if d =? CB_list then cb_list t
  else vfail.   (* a rule without callback would leave a Tree behind (none in this grammar) *)

(* ------------------------------------------------------------ Transformer driver *)
(* Transformer._transform_tree over a tree whose children may already be
   callback results; token callbacks do not exist (token types are upper case,
   callback names lower case) *)
Fixpoint tr_main (ip ic : bool) (g : gtree) {struct g} : res tv :=
  match g with
  | GTok t => Ok (TTok t)
  | GVal v => Ok v
  | GNode d cs _ =>
      do cs' <- (fix go (l : list gtree) : res (list tv) :=
                   match l with
                   | [] => Ok []
                   | c :: l' => do x <- tr_main ip ic c; do xs <- go l'; Ok (x :: xs)
                   end) cs;
      callback ip ic d cs'
  end.

(* ------------------------------------------------------------ parser._assign_comments *)
(* comments_dict: line -> stripped comment text; later comments on one line overwrite *)
Definition comments_dict (cs : list token) : list (N * str) :=
  fold_left (fun d c =>
               let v := strip (tval c) in
               if match assocN (tline c) d with Some _ => true | None => false end
               then map (fun kv => if fst kv =? tline c then (fst kv, v) else kv) d
               else d ++ [(tline c, v)]) cs [].

Fixpoint insert_sorted (kv : N * str) (l : list (N * str)) : list (N * str) :=
  match l with
  | [] => [kv]
  | x :: l' => if fst kv <=? fst x then kv :: l else x :: insert_sorted kv l'
  end.

Definition sort_by_line (l : list (N * str)) : list (N * str) := fold_right insert_sorted [] l.

Definition takes_comments (d : N) : bool :=
  (d =? CB_composite) || (d =? CB_attr) || (d =? CB_projection) || (d =? CB_string_pair).

Definition set_comments (m : meta) (c : list str) : meta :=
  mk_meta (m_empty m) (m_line m) (m_end_line m) (m_cline m) (m_cend_line m) (Some c).

(* returns the remaining comments dict and the annotated children *)
Fixpoint assign_children (fuel : nat) (cd : list (N * str)) (cs : list tree) : list (N * str) * list tree :=
  match fuel with
  | O => (cd, cs)
  | S f =>
      match cs with
      | [] => (cd, [])
      | Tok t :: cs' => let '(cd', r) := assign_children f cd cs' in (cd', Tok t :: r)
      | Node d kids m :: cs' =>
          match m_line m with
          | None => let '(cd', r) := assign_children f cd cs' in (cd', Node d kids m :: r)
          | Some line0 =>
              let '(cd1, m1) :=
                if takes_comments d then
                  let line := if d =? CB_projection
                              then match m_end_line m with Some l => l | None => line0 end
                              else line0 in
                  let srt := sort_by_line cd in
                  let taken := filter (fun kv => fst kv <=? line) srt in
                  let rest := filter (fun kv => negb (fst kv <=? line)) cd in
                  match taken with
                  | [] => (cd, m)
                  | _ => (rest, set_comments m (map snd taken))
                  end
                else (cd, m) in
              let '(cd2, kids') := assign_children f cd1 kids in
              let '(cd3, r) := assign_children f cd2 cs' in
              (cd3, Node d kids' m1 :: r)
          end
      end
  end.

Fixpoint tree_size (t : tree) : nat :=
  match t with
  | Tok _ => 1%nat
  | Node _ cs _ => S (fold_left (fun a c => a + tree_size c)%nat cs O)
  end.

Definition assign_comments (comments : list token) (t : tree) : tree :=
  match t with
  | Node d cs m => Node d (snd (assign_children (S (tree_size t)) (comments_dict comments) cs)) m
  | Tok _ => t
  end.

(* ------------------------------------------------------------ Canonize *)
Definition T_SYNTH : N := 1000000.    (* type of the synthetic Token("symbolset", "symbolset") *)

Definition canonize (g : gtree) : gtree :=
  match g with
  | GNode d cs m =>
      if d =? CB_symbolset then
        GNode CB_composite
              (GNode CB_composite_type [GTok (mk_ptok T_SYNTH s_symbolset (VStr s_symbolset) VNone VNone)] meta0 :: cs) m
      else g
  | _ => g
  end.

(* ------------------------------------------------------------ CommentsTransformer *)
Definition get_comments (m : meta) : value :=
  VList (map VStr (match m_comments m with Some c => c | None => [] end)).

Definition has_comments (m : meta) : bool :=
  match m_comments m with Some (_ :: _) => true | _ => false end.

(* add_metadata_comments(d, metadata children) *)
Definition metadata_comment_key (sp : gtree) : res (str * meta) :=
  match sp with
  | GNode _ (GTok t :: _) m =>
      if pk_type t =? T_UNQUOTED_STRING then do s <- tok_str t; Ok (lower (clean_string_s s), m) else vfail
  | GNode _ (GNode _ (GTok t :: _) _ :: _) m => do s <- tok_str t; Ok (lower (clean_string_s s), m)
  | _ => vfail
  end.

Definition add_metadata_comments (items : titems) (cm : list (str * value)) (md : list gtree)
  : res (list (str * value)) :=
  match md with
  | _ :: ((_ :: _ :: _) as rest) =>           (* len(metadata) > 2 *)
      fold_left (fun acc sp =>
                   do c <- acc;
                   do (key, m) <- metadata_comment_key sp;
                   match assoc key items with
                   | Some _ => Ok (od_set key (get_comments m) c)
                   | None => vfail
                   end) (removelast rest) (Ok cm)
  | _ => Ok cm
  end.

Definition comments_callback (ip : bool) (g : gtree) : res gtree :=
  match g with
  | GNode d cs m =>
      if d =? CB_attr then
        do r <- tr_main ip true g;
        match r with
        | TDict c items => Ok (GVal (TDict c (od_set s_comments (TVal (get_comments m)) items)))
        | _ => vfail
        end
      else if d =? CB_projection then
        do r <- tr_main ip true g;
        match r with
        | TDict c items =>
            if has_comments m then Ok (GVal (TDict c (od_set s_comments (TVal (get_comments m)) items)))
            else Ok (GVal r)
        | _ => vfail
        end
      else if d =? CB_composite then
        do r <- tr_main ip true g;
        match r with
        | TDict c items =>
            let setk := match c with DCI _ | DDef _ => ci_set | DPlain => od_set end in
            let existing := match c with DPlain => assoc s_comments items | _ => ci_get s_comments items end in
            match existing with
            | Some (TVal (VDict _ _)) | None =>
                let cm0 := match existing with Some (TVal (VDict _ x)) => x | _ => [] end in
                let cm1 := if has_comments m then od_set s_type (get_comments m) cm0 else cm0 in
                do cm2 <- match assoc s_type items with
                          | Some (TVal (VStr ty)) =>
                              if str_eqb ty s_metadata then
                                match cs with
                                | GNode _ mdkids _ :: _ => add_metadata_comments items cm1 mdkids
                                | _ => vfail
                                end
                              else Ok cm1
                          | _ => vfail
                          end;
                Ok (GVal (TDict c (setk s_comments (TVal (VDict DPlain cm2)) items)))
            | Some _ =>
                (* a key-value entry spelled __comments__ (a string): "__comments__" in d, so no
                   dict is created; every d["__comments__"][k] = ... then raises TypeError *)
                if has_comments m then vfail
                else
                  match assoc s_type items with
                  | Some (TVal (VStr ty)) =>
                      if str_eqb ty s_metadata then
                        match cs with
                        | GNode _ (_ :: _ :: _ :: _) _ :: _ => vfail      (* at least one pair: the loop assigns *)
                        | GNode _ _ _ :: _ => Ok (GVal r)
                        | _ => vfail
                        end
                      else Ok (GVal r)
                  | _ => vfail
                  end
            end
        | _ => vfail
        end
      else Ok g
  | _ => Ok g
  end.

(* Transformer_InPlace.transform: children first, each child replaced by its
   callback result; finally the callback of the root *)
Fixpoint ctr (ip : bool) (t : gtree) {struct t} : res gtree :=
  match t with
  | GNode d cs m =>
      do cs' <- (fix go (l : list gtree) : res (list gtree) :=
                   match l with
                   | [] => Ok []
                   | c :: l' =>
                       do c1 <- ctr ip c;
                       do c2 <- comments_callback ip c1;
                       do r <- go l'; Ok (c2 :: r)
                   end) cs;
      Ok (GNode d cs' m)
  | _ => Ok t
  end.

(* ------------------------------------------------------------ MapfileToDict.transform *)
Definition transform (ip ic : bool) (t : tree) : res tv :=
  let g := canonize (gtree_of t) in
  if ic then
    do g1 <- ctr ip g;
    do g2 <- comments_callback ip g1;
    tr_main ip ic g2
  else tr_main ip ic g.

(* final Python data: no token may be left *)
Fixpoint tv_to_value (x : tv) : res value :=
  match x with
  | TVal v => Ok v
  | TTok t => Ok (VStr (pk_orig t))     (* a leftover Token is a str subclass carrying its original text *)
  | TSeq l => do vs <- (fix go (l : list tv) : res (list value) :=
                          match l with
                          | [] => Ok []
                          | y :: l' => do v <- tv_to_value y; do r <- go l'; Ok (v :: r)
                          end) l;
              Ok (VList vs)
  | TDict c items =>
      do vs <- (fix go (l : list (str * tv)) : res (list (str * value)) :=
                  match l with
                  | [] => Ok []
                  | (k, y) :: l' => do v <- tv_to_value y; do r <- go l'; Ok ((k, v) :: r)
                  end) items;
      Ok (VDict c vs)
  end.
