(* Model of mappyfile/dictutils.py: find, findall, findunique, findkey, update,
   transcribed function by function.  Definitions only.

   Containers are Python objects that the functions mutate in place; here a
   read that can mutate (item[key] on a dict with a default factory calls
   __missing__) returns the possibly changed container explicitly, and the
   find helpers return the list of items as it is after the call together
   with the result.  [update] returns the updated d1 (the same object in
   Python) or the exception; d2 is only read.

   [fold] is str.lower, [olk] is tokens.OBJECT_LIST_KEYS (both instantiated
   with the generated tables for execution). *)
From MF Require Import Lib.Base Lib.PyDict Model.OrderedDict.
Open Scope Z_scope.

(* ------------------------------------------------------------------ *)
(* Python primitives on values (language semantics, not mappyfile code) *)

(* "__delete__" as code points (a String literal would drag the string type
   into the extracted code); Proofs/C18.v shows DELETE = Str "__delete__" *)
Definition DELETE : str := [95;95;100;101;108;101;116;101;95;95]%N.

(* numbers as m * 10^e; bool is an int *)
Definition num_of (v : value) : option (Z * Z) :=
  match v with
  | VBool b => Some ((if b then 1 else 0), 0)
  | VInt z => Some (z, 0)
  | VFloat m e => Some (m, e)
  | _ => None
  end.

Definition num_cmp (a b : Z * Z) : comparison :=
  let e := Z.min (snd a) (snd b) in
  Z.compare (fst a * 10 ^ (snd a - e)) (fst b * 10 ^ (snd b - e)).

Definition num_eqb (a b : Z * Z) : bool :=
  match num_cmp a b with Eq => true | _ => false end.

Definition num_leb (a b : Z * Z) : bool :=
  match num_cmp a b with Gt => false | _ => true end.

(* OrderedDict subclasses compare order-sensitively with each other *)
Definition ordered (c : dcls) : bool :=
  match c with DPlain => false | _ => true end.

(* Python == *)
Fixpoint py_eqb (a b : value) {struct a} : bool :=
  match a with
  | VNone => match b with VNone => true | _ => false end
  | VBool _ | VInt _ | VFloat _ _ =>
      match num_of a, num_of b with
      | Some x, Some y => num_eqb x y
      | _, _ => false
      end
  | VStr x => match b with VStr y => str_eqb x y | _ => false end
  | VList x =>
      match b with
      | VList y =>
          (fix go (x y : list value) {struct x} : bool :=
             match x, y with
             | [], [] => true
             | u :: x', v :: y' => py_eqb u v && go x' y'
             | _, _ => false
             end) x y
      | _ => false
      end
  | VDict ca x =>
      match b with
      | VDict cb y =>
          if ordered ca && ordered cb then
            (fix go (x y : list (str * value)) {struct x} : bool :=
               match x, y with
               | [], [] => true
               | (k, u) :: x', (k', v) :: y' => str_eqb k k' && py_eqb u v && go x' y'
               | _, _ => false
               end) x y
          else
            Nat.eqb (length x) (length y) &&
            (fix all (x : list (str * value)) {struct x} : bool :=
               match x with
               | [] => true
               | (k, u) :: x' =>
                   match assoc k y with
                   | Some v => py_eqb u v
                   | None => false
                   end && all x'
               end) x
      | _ => false
      end
  end.

(* bool(v) *)
Definition truthy (v : value) : bool :=
  match v with
  | VNone => false
  | VBool b => b
  | VInt z => negb (z =? 0)
  | VFloat m _ => negb (m =? 0)
  | VStr s => match s with [] => false | _ => true end
  | VList l => match l with [] => false | _ => true end
  | VDict _ items => match items with [] => false | _ => true end
  end.

(* t in s for strings *)
Fixpoint substr (t s : str) : bool :=
  startswith s t || match s with [] => false | _ :: s' => substr t s' end.

(* lexicographic order on code points *)
Fixpoint str_leb (a b : str) : bool :=
  match a, b with
  | [], _ => true
  | _ :: _, [] => false
  | x :: a', y :: b' => if N.ltb x y then true else if N.eqb x y then str_leb a' b' else false
  end.

Definition hashable (v : value) : bool :=
  match v with VList _ | VDict _ _ => false | _ => true end.

Section DU.
  Variable fold : str -> str.
  Variable olk : list str.
  Notation items := (list (str * value)).

  (* -------------------------------------------------------------- *)
  (* dict methods by class.  DPlain: dict; DDef: DefaultOrderedDict (only
     __getitem__ folds the key); DCI: CaseInsensitiveOrderedDict (every
     method folds the key). *)
  Definition nk (c : dcls) (k : str) : str :=
    match c with DCI _ => fold k | _ => k end.

  (* d.get(k, dflt): never calls __missing__ *)
  Definition d_get (c : dcls) (k : str) (dflt : value) (s : items) : value :=
    match assoc (nk c k) s with Some v => v | None => dflt end.

  Definition d_contains (c : dcls) (k : str) (s : items) : bool := od_mem (nk c k) s.

  Definition d_set (c : dcls) (k : str) (v : value) (s : items) : items := od_set (nk c k) v s.

  Definition d_del (c : dcls) (k : str) (s : items) : res items :=
    if od_mem (nk c k) s then Ok (od_del (nk c k) s) else Err PyKeyError.

  (* DefaultOrderedDict.__missing__ on a DefaultOrderedDict proper: the
     assignment self[key] = value is OrderedDict.__setitem__ (raw key) *)
  Definition dd_missing (f : bool) (k : str) (s : items) : res (value * items) :=
    if f then
      if mem_str k olk then Ok (VList [], od_set k (VList []) s)
      else Ok (VDict (DCI false) [], od_set k (VDict (DCI false) []) s)
    else Err PyKeyError.

  (* d[k] *)
  Definition d_getitem (c : dcls) (k : str) (s : items) : res (value * items) :=
    match c with
    | DPlain => match assoc k s with Some v => Ok (v, s) | None => Err PyKeyError end
    | DDef f =>
        let k1 := fold k in
        match assoc k1 s with Some v => Ok (v, s) | None => dd_missing f k1 s end
    | DCI f => ci_getitem fold olk f k s
    end.

  (* the same operations on an arbitrary object *)
  Definition py_get (d : value) (k : str) (dflt : value) : res value :=
    match d with
    | VDict c s => Ok (d_get c k dflt s)
    | _ => Err PyAttributeError
    end.

  (* k in d *)
  Definition py_contains (d : value) (k : str) : res bool :=
    match d with
    | VDict c s => Ok (d_contains c k s)
    | VList l => Ok (existsb (fun e => py_eqb e (VStr k)) l)
    | VStr s => Ok (substr k s)
    | _ => Err PyTypeError
    end.

  (* d[k] = v *)
  Definition py_setitem (d : value) (k : str) (v : value) : res value :=
    match d with
    | VDict c s => Ok (VDict c (d_set c k v s))
    | _ => Err PyTypeError
    end.

  (* del d[k] *)
  Definition py_delitem (d : value) (k : str) : res value :=
    match d with
    | VDict c s => do s' <- d_del c k s; Ok (VDict c s')
    | _ => Err PyTypeError
    end.

  (* d[k] with a string key: the value and the container afterwards *)
  Definition py_getitem (d : value) (k : str) : res (value * value) :=
    match d with
    | VDict c s => do (v, s') <- d_getitem c k s; Ok (v, VDict c s')
    | _ => Err PyTypeError
    end.

  (* iter(d) *)
  Definition py_iter (d : value) : res (list value) :=
    match d with
    | VList l => Ok l
    | VDict _ s => Ok (map (fun kv => VStr (fst kv)) s)
    | VStr s => Ok (map (fun ch => VStr [ch]) s)
    | _ => Err PyTypeError
    end.

  (* x in container *)
  Definition py_in (x : value) (container : value) : res bool :=
    match container with
    | VStr s => match x with VStr t => Ok (substr t s) | _ => Err PyTypeError end
    | VList l => Ok (existsb (fun e => py_eqb x e) l)
    | VDict c s =>
        match x with
        | VList _ | VDict _ _ => Err PyTypeError      (* unhashable *)
        | VStr t => Ok (d_contains c t s)
        | _ => Ok false
        end
    | _ => Err PyTypeError
    end.

  (* -------------------------------------------------------------- *)
  (* find(lst, key, value):
       next((item for item in lst if item[key.lower()] == value), None)
     the generator stops at the first match: later items are not read *)
  Fixpoint find_loop (key : str) (want : value) (lst : list value) : list value * res value :=
    match lst with
    | [] => ([], Ok VNone)
    | item :: rest =>
        match py_getitem item key with
        | Err e => (item :: rest, Err e)
        | Ok (v, item') =>
            if py_eqb v want then (item' :: rest, Ok item')
            else let '(rest', r) := find_loop key want rest in (item' :: rest', r)
        end
    end.

  Definition find (lst : list value) (key : str) (want : value) : list value * res value :=
    find_loop (fold key) want lst.

  (* findall(lst, key, value):
       [item for item in lst if item[key.lower()] and item[key.lower()] in value] *)
  Fixpoint findall_loop (key : str) (want : value) (lst : list value)
    : list value * res (list value) :=
    match lst with
    | [] => ([], Ok [])
    | item :: rest =>
        match py_getitem item key with
        | Err e => (item :: rest, Err e)
        | Ok (v, item1) =>
            if truthy v then
              match py_getitem item1 key with
              | Err e => (item1 :: rest, Err e)
              | Ok (v2, item2) =>
                  match py_in v2 want with
                  | Err e => (item2 :: rest, Err e)
                  | Ok b =>
                      let '(rest', r) := findall_loop key want rest in
                      (item2 :: rest',
                       match r with
                       | Ok l => Ok (if b then item2 :: l else l)
                       | Err e => Err e
                       end)
                  end
              end
            else
              let '(rest', r) := findall_loop key want rest in (item1 :: rest', r)
        end
    end.

  Definition findall (lst : list value) (key : str) (want : value)
    : list value * res (list value) :=
    findall_loop (fold key) want lst.

  (* findunique(lst, key):
       sorted(set(item.get(key.lower(), None) for item in lst) - {None}) *)
  Fixpoint collect (key : str) (lst : list value) : res (list value) :=
    match lst with
    | [] => Ok []
    | item :: rest =>
        do v <- py_get item key VNone;
        if hashable v then (do r <- collect key rest; Ok (v :: r)) else Err PyTypeError
    end.

  (* set(...): one representative (the first inserted) per == class *)
  Fixpoint dedupe (l : list value) : list value :=
    match l with
    | [] => []
    | x :: l' => x :: filter (fun y => negb (py_eqb x y)) (dedupe l')
    end.

  Definition is_none (v : value) : bool := match v with VNone => true | _ => false end.
  Definition is_str (v : value) : bool := match v with VStr _ => true | _ => false end.
  Definition is_num (v : value) : bool := match num_of v with Some _ => true | None => false end.

  (* < / <= between two elements of the same kind *)
  Definition val_leb (a b : value) : bool :=
    match a, b with
    | VStr x, VStr y => str_leb x y
    | _, _ => match num_of a, num_of b with
              | Some x, Some y => num_leb x y
              | _, _ => true
              end
    end.

  Fixpoint insert_sorted (x : value) (l : list value) : list value :=
    match l with
    | [] => [x]
    | y :: l' => if val_leb x y then x :: y :: l' else y :: insert_sorted x l'
    end.

  Definition sort_values (l : list value) : list value := fold_right insert_sorted [] l.

  (* sorted(): str < int raises TypeError as soon as both kinds are present *)
  Definition py_sorted (l : list value) : res (list value) :=
    match l with
    | [] | [_] => Ok l
    | _ => if forallb is_str l || forallb is_num l then Ok (sort_values l) else Err PyTypeError
    end.

  Definition findunique (lst : list value) (key : str) : res (list value) :=
    do vs <- collect (fold key) lst;
    py_sorted (filter (fun v => negb (is_none v)) (dedupe vs)).

  (* findkey(d, *keys): d[keys[0]][keys[1]]...  Path elements are strings or
     ints.  A read through a Mapfile dict can create the key; the change is
     visible in the root object, so the root afterwards is returned too. *)
  Inductive pelt := PKey (k : str) | PIdx (i : Z).

  Definition norm_index (i : Z) (n : nat) : option nat :=
    let i' := if i <? 0 then i + Z.of_nat n else i in
    if (0 <=? i') && (i' <? Z.of_nat n) then Some (Z.to_nat i') else None.

  Fixpoint replace_nth (n : nat) (x : value) (l : list value) : list value :=
    match l, n with
    | [], _ => []
    | _ :: l', O => x :: l'
    | y :: l', S n' => y :: replace_nth n' x l'
    end.

  (* d[p]: the element and the container afterwards *)
  Definition py_index (d : value) (p : pelt) : res (value * value) :=
    match d, p with
    | VDict _ _, PKey k => py_getitem d k
    | VDict DPlain _, PIdx _ => Err PyKeyError
    | VDict _ _, PIdx _ => Err PyAttributeError         (* key.lower() on an int *)
    | VList l, PIdx i =>
        match norm_index i (length l) with
        | Some n => match nth_error l n with Some x => Ok (x, d) | None => Err PyIndexError end
        | None => Err PyIndexError
        end
    | VStr s, PIdx i =>
        match norm_index i (length s) with
        | Some n => match nth_error s n with Some ch => Ok (VStr [ch], d) | None => Err PyIndexError end
        | None => Err PyIndexError
        end
    | _, _ => Err PyTypeError
    end.

  (* the key under which d[k] finds / stores the element *)
  Definition stored_key (c : dcls) (k : str) : str :=
    match c with DPlain => k | DDef _ => fold k | DCI _ => fold (fold k) end.

  (* the element reached through p is the same object as the one held by the
     container: a change made below it shows in the container *)
  Definition write_back (d : value) (p : pelt) (child : value) : value :=
    match d, p with
    | VDict c s, PKey k => VDict c (od_replace (stored_key c k) child s)
    | VList l, PIdx i =>
        match norm_index i (length l) with
        | Some n => VList (replace_nth n child l)
        | None => d
        end
    | _, _ => d
    end.

  Fixpoint findkey (d : value) (path : list pelt) : value * res value :=
    match path with
    | [] => (d, Ok d)
    | p :: rest =>
        match py_index d p with
        | Err e => (d, Err e)
        | Ok (child, d') =>
            let '(child', r) := findkey child rest in
            (write_back d' p child', r)
        end
    end.

  (* -------------------------------------------------------------- *)
  (* update(d1, d2, overwrite) *)

  (* x.get("__delete__", False) is truthy (x a dict) *)
  Definition delete_flag (x : value) : bool :=
    match x with
    | VDict c s => truthy (d_get c DELETE (VBool false) s)
    | _ => false
    end.

  (* all(isinstance(li, (none_type, dict)) for li in v) *)
  Definition is_objlist (lv : list value) : bool :=
    forallb (fun li => match li with VNone | VDict _ _ => true | _ => false end) lv.

  (* if orig_item is None: orig_item = {} *)
  Definition none_to_empty (v : value) : value :=
    match v with VNone => VDict DPlain [] | _ => v end.

  Section Open.
    (* the recursive call update(d1', d2', overwrite), patch first *)
    Variable rec : value -> value -> res value.
    Variable ow : bool.

    (* the loop over zip_longest(orig_list, v, fillvalue=None).
       A new_item None becomes {} and update(orig_item, {}) returns orig_item
       (lemma update_empty_patch); the same holds for the positions past the
       end of v.  A new_item that is not a dict cannot occur here (is_objlist);
       rec then fails with AttributeError as new_item.get would.  update never
       returns None for a d1 that is not None (lemma update_not_none), so
       "if d is not None" only filters the deleted items. *)
    Fixpoint merge_lists (origs news : list value) {struct news} : res (list value) :=
      match news with
      | [] => Ok (map none_to_empty origs)
      | n :: news' =>
          let o := none_to_empty (hd VNone origs) in
          let origs' := tl origs in
          match n with
          | VNone => do rest <- merge_lists origs' news'; Ok (o :: rest)
          | _ =>
              if delete_flag n then merge_lists origs' news'
              else do d <- rec n o;
                   do rest <- merge_lists origs' news';
                   Ok (d :: rest)
          end
      end.

    (* the final else branch *)
    Definition update_scalar (d1 : value) (k : str) (v : value) : res value :=
      do present <- py_contains d1 k;
      if present && py_eqb v (VStr DELETE) then py_delitem d1 k
      else if ow || negb present then py_setitem d1 k v
      else Ok d1.

    (* one iteration of "for k, v in d2.items()" *)
    Definition update_entry (d1 : value) (k : str) (v : value) : res value :=
      match v with
      | VDict _ _ =>
          if delete_flag v then py_delitem d1 k
          else do sub <- py_get d1 k (VDict DPlain []);
               do r <- rec v sub;
               py_setitem d1 k r
      | VList lv =>
          if is_objlist lv then
            do orig_v <- py_get d1 k (VList []);
            do origs <- py_iter orig_v;
            do new_list <- merge_lists origs lv;
            py_setitem d1 k (VList new_list)
          else update_scalar d1 k v
      | _ => update_scalar d1 k v
      end.

    Fixpoint update_loop (l : items) (d1 : value) {struct l} : res value :=
      match l with
      | [] => Ok d1
      | (k, v) :: l' => do d1' <- update_entry d1 k v; update_loop l' d1'
      end.
  End Open.

  Fixpoint update (ow : bool) (d2 d1 : value) {struct d2} : res value :=
    match d2 with
    | VDict _ items2 =>
        if delete_flag d2 then Ok (VDict DPlain [])
        else update_loop (update ow) ow items2 d1
    | _ => Err PyAttributeError
    end.

End DU.
