(* The per-slot check of the finite product: the mini document loads (through
   the whole model: lexer, LR driver with hook, tree builder, transformer) to
   exactly its intended visible structure. *)
From MF Require Import Lib.Base Model.SlotDoc Model.Api.

Definition slot_ok (sd : slotdoc) : bool :=
  match loads false false (sd_text sd) with
  | Ok v => value_eqb (visible v) (sd_want sd)
  | Err _ => false
  end.

(* identification of a slot document: type, keyword, value alternative, context *)
Definition slot_id (sd : slotdoc) : str * str * str * str :=
  (sd_type sd, sd_key sd, sd_shape sd, sd_ctx sd).

Definition failing (l : list slotdoc) : list slotdoc := filter (fun sd => negb (slot_ok sd)) l.

Lemma not_failing_ok l sd : In sd l -> ~ In sd (failing l) -> slot_ok sd = true.
Proof.
  intros Hin Hnf. destruct (slot_ok sd) eqn:E; [reflexivity|].
  exfalso. apply Hnf. unfold failing. apply filter_In. split; [exact Hin|]. rewrite E. reflexivity.
Qed.

(* ---- bookkeeping transparency on one document (C13): turning positions and/or
   comments on only adds the hidden __position__ / __comments__ keys *)
Definition bk_key (k : str) : bool :=
  str_eqb k (Str "__position__") || str_eqb k (Str "__comments__").

Fixpoint strip_bk (v : value) : value :=
  match v with
  | VList l => VList (map strip_bk l)
  | VDict c items =>
      VDict c ((fix go (l : list (str * value)) : list (str * value) :=
                  match l with
                  | [] => []
                  | (k, x) :: l' => if bk_key k then go l' else (k, strip_bk x) :: go l'
                  end) items)
  | _ => v
  end.

Definition same_outcome (a b : res value) : bool :=
  match a, b with
  | Ok x, Ok y => value_eqb (strip_bk x) y
  | Err _, Err _ => true
  | _, _ => false
  end.

Definition bookkeeping_ok (text : str) : bool :=
  let plain := loads false false text in
  same_outcome (loads true false text) plain &&
  same_outcome (loads false true text) plain &&
  same_outcome (loads true true text) plain.

(* ---- order-insensitive comparison of slot-id lists *)
Definition id_eqb (a b : str * str * str * str) : bool :=
  let '(a1, a2, a3, a4) := a in let '(b1, b2, b3, b4) := b in
  str_eqb a1 b1 && str_eqb a2 b2 && str_eqb a3 b3 && str_eqb a4 b4.

Definition id_mem (a : str * str * str * str) (l : list (str * str * str * str)) : bool :=
  existsb (id_eqb a) l.

Definition same_ids (a b : list (str * str * str * str)) : bool :=
  forallb (fun x => id_mem x b) a && forallb (fun x => id_mem x a) b.

Lemma id_eqb_eq a b : id_eqb a b = true <-> a = b.
Proof.
  destruct a as [[[a1 a2] a3] a4], b as [[[b1 b2] b3] b4]. cbn [id_eqb].
  rewrite !andb_true_iff, !str_eqb_eq. split.
  - intros [[[-> ->] ->] ->]. reflexivity.
  - intros [= -> -> -> ->]. auto.
Qed.

Lemma id_mem_In a l : id_mem a l = true <-> In a l.
Proof.
  unfold id_mem. rewrite existsb_exists. split.
  - intros (x & Hx & He). apply id_eqb_eq in He. subst. exact Hx.
  - intros H. exists a. split; [exact H|apply id_eqb_eq; reflexivity].
Qed.

Lemma same_ids_spec a b : same_ids a b = true -> forall id, In id a <-> In id b.
Proof.
  unfold same_ids. rewrite andb_true_iff, !forallb_forall. intros [H1 H2] id. split; intros H.
  - apply id_mem_In. apply H1. exact H.
  - apply id_mem_In. apply H2. exact H.
Qed.
