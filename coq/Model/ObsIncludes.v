(* Observation points for the includes component (O-inc): decode a case, run
   the model (or the specification), encode what the harness compares with
   the implementation / with its own oracle. *)
From MF Require Import Lib.Base Lib.Codec Model.Case Model.Includes Spec.Subst.
Open Scope Z_scope.

Definition dec_loc : toks -> option (location * toks) := dec_list dec_str.
Definition dec_fs : toks -> option (fsys * toks) := dec_list (dec_pair dec_loc dec_str).

Definition enc_res (r : res str) : toks :=
  match r with
  | Ok s => 0 :: enc_str s
  | Err e => [1; exn_code e]
  end.

Definition enc_bool (b : bool) : toks := [if b then 1 else 0].
Definition enc_strs (l : list str) : toks := enc_list enc_str l.

(* payload: fs, cwd, optional fn, text *)
Definition dec_case (t : toks) : option ((fsys * str * option str * str) * toks) :=
  match dec_fs t with
  | Some (fs, t1) =>
      match dec_str t1 with
      | Some (cwd, t2) =>
          match dec_opt dec_str t2 with
          | Some (fn, t3) =>
              match dec_str t3 with
              | Some (text, t4) => Some ((fs, cwd, fn, text), t4)
              | None => None
              end
          | None => None
          end
      | None => None
      end
  | None => None
  end.

(* Parser.load_includes(text, fn) *)
Definition obs_load_includes (t : toks) : toks :=
  match dec_case t with
  | Some ((fs, cwd, fn, text), _) => enc_res (load_includes fs cwd text fn)
  | None => bad_input
  end.

(* Spec.Subst.expanded on the same case *)
Definition obs_spec_expanded (t : toks) : toks :=
  match dec_case t with
  | Some ((fs, cwd, fn, text), _) => enc_res (expanded isspace (text_of fs) cwd fn text)
  | None => bad_input
  end.

(* front ends: mode 0 = open(fn), 1 = load(fp with text and optional name),
   2 = loads(text); then the expand flag and a case *)
Definition obs_front (t : toks) : toks :=
  match t with
  | mode :: t0 =>
      match dec_bool t0 with
      | Some (expand, t1) =>
          match dec_case t1 with
          | Some ((fs, cwd, fn, text), _) =>
              enc_res
                (if mode =? 0 then
                   match fn with
                   | Some f => api_open (fun x => Ok x) expand fs cwd f
                   | None => Err PyTypeError
                   end
                 else if mode =? 1 then api_load (fun x => Ok x) expand fs cwd text fn
                 else api_loads (fun x => Ok x) expand fs cwd text)
          | None => bad_input
          end
      | None => bad_input
      end
  | [] => bad_input
  end.

(* posixpath functions: op, a, b *)
Definition obs_path (t : toks) : toks :=
  match t with
  | op :: t0 =>
      match dec_pair dec_str dec_str t0 with
      | Some ((a, b), _) =>
          if op =? 0 then enc_bool (isabs a)
          else if op =? 1 then enc_str (path_join a b)
          else if op =? 2 then enc_str (dirname a)
          else if op =? 3 then enc_str (normpath a)
          else if op =? 4 then enc_str (abspath a b)
          else if op =? 5 then enc_strs (os_resolve a b)
          else if op =? 6 then enc_str (universal_newlines a)
          else bad_input
      | None => bad_input
      end
  | [] => bad_input
  end.

(* line functions: starts_include, _get_include_filename, strip, split, and
   the specification's reading of the same line *)
Definition obs_line (t : toks) : toks :=
  match dec_str t with
  | Some (l, _) =>
      enc_bool (starts_include l) ++ enc_res (get_include_filename l)
        ++ enc_str (strip l) ++ enc_strs (split_ws l)
        ++ match directive isspace l with Some n => 1 :: enc_str n | None => [0] end
  | None => bad_input
  end.

Definition obs_whitespace (_ : toks) : toks := map Z.of_N py_whitespace.
