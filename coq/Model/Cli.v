(* Front ends of mappyfile: utils.open/load/loads, save/dump/dumps, and the
   decision logic of the three click commands of cli.py (format, validate,
   schema).  Definitions only.

   What is NOT modelled here: click's argument parsing (the commands below take
   the already parsed arguments), the operating system's exit-status channel
   (the model returns the number the process would report: sys.exit(n) gives
   n mod 256 on POSIX), glob/os.path (get_mapfiles takes them as functions),
   codecs internals beyond Model/Utf8.v.  The parser/transformer and the
   pretty printer are Section variables: the front ends add only
   decode-after-read and encode-before-write around them. *)
From MF Require Import Lib.Base Model.Utf8.
Open Scope N_scope.

(* ------------------------------------------------------------ file system *)
Definition path := str.
Definition filesys := path -> option bytes.

Definition fs_write (fs : filesys) (fn : path) (b : bytes) : filesys :=
  fun p => if str_eqb p fn then Some b else fs p.

(* A text stream as seen by load/dump: the characters read() returns, the
   optional [name] attribute, and the characters written so far. *)
Record stream := mk_stream { st_text : str; st_name : option path; st_written : str }.

(* parser.Parser.open_file: open(fn, "r", encoding="utf-8").read() *)
Definition open_file (fs : filesys) (fn : path) : res str :=
  match fs fn with
  | Some b => read_text b
  | None => Err PyIOError
  end.

(* the stream a caller gets from Python's open(fn, "r", encoding="utf-8") *)
Definition text_stream_of_file (fs : filesys) (fn : path) : res stream :=
  match open_file fs fn with
  | Ok t => Ok (mk_stream t (Some fn) [])
  | Err e => Err e
  end.

(* utils._save: codecs.open(fn, "w", encoding="utf-8").write(string) *)
Definition _save (fs : filesys) (output_file : path) (s : str) : res filesys :=
  match write_text s with
  | Ok b => Ok (fs_write fs output_file b)
  | Err e => Err e
  end.

(* ---------------------------------------------------------------- options *)
Record load_opts := mk_lopts { expand_includes : bool; include_comments : bool; include_position : bool }.

Record print_opts := mk_popts {
  indent : Z; spacer : str; quote : str; newlinechar : str;
  end_comment : bool; align_values : bool; separate_complex_types : bool }.

Section FrontEnds.
  Variable D : Type.                                   (* the dictionary type *)
  (* Parser(expand_includes, include_comments).parse(text, fn) followed by
     MapfileToDict(include_position, include_comments).transform(ast).
     The file system is an argument because INCLUDE expansion reads files. *)
  Variable parse_transform : filesys -> load_opts -> str -> option path -> res D.
  (* PrettyPrinter(options).pprint(d) *)
  Variable pprint : print_opts -> D -> res str.

  (* ---- utils.loads / load / open *)
  Definition loads (fs : filesys) (o : load_opts) (s : str) : res D :=
    parse_transform fs o s None.

  (* Parser.load: text = fp.read(); fn = fp.name if present else None *)
  Definition load (fs : filesys) (o : load_opts) (fp : stream) : res D :=
    parse_transform fs o (st_text fp) (st_name fp).

  (* Parser.parse_file: text = open_file(fn); parse(text, fn=fn) *)
  Definition open (fs : filesys) (o : load_opts) (fn : path) : res D :=
    match open_file fs fn with
    | Ok text => parse_transform fs o text (Some fn)
    | Err e => Err e
    end.

  (* ---- utils._pprint / dumps / dump / save *)
  Definition _pprint (po : print_opts) (d : D) : res str := pprint po d.

  Definition dumps (po : print_opts) (d : D) : res str := _pprint po d.

  Definition dump (po : print_opts) (d : D) (fp : stream) : res stream :=
    match _pprint po d with
    | Ok map_string => Ok (mk_stream (st_text fp) (st_name fp) (st_written fp ++ map_string))
    | Err e => Err e
    end.

  Definition save (fs : filesys) (po : print_opts) (d : D) (output_file : path) : res filesys :=
    match _pprint po d with
    | Ok map_string => _save fs output_file map_string
    | Err e => Err e
    end.
End FrontEnds.

(* ------------------------------------------------------------ exit status *)
(* sys.exit(n) for an int n: the process status is n & 0xFF on POSIX *)
Definition exit_status (n : N) : N := n mod 256.

(* string literals, evaluated so that the extracted code contains plain
   code-point lists (no dependency on Coq's String type) *)
Definition lit_None : str := Eval vm_compute in Str "None".
Definition lit_line : str := Eval vm_compute in Str " (Line: ".
Definition lit_column : str := Eval vm_compute in Str " Column: ".
Definition lit_close : str := Eval vm_compute in Str ") ".
Definition lit_dash : str := Eval vm_compute in Str " - ".
Definition lit_failed : str := Eval vm_compute in Str " failed to parse successfully".
Definition lit_validated : str := Eval vm_compute in Str " validated successfully".
Definition lit_files : str := Eval vm_compute in Str " file(s) validated (".
Definition lit_successfully : str := Eval vm_compute in Str " successfully)".
Definition lit_nofiles : str := Eval vm_compute in Str "No Mapfiles found at the following paths: ".

(* ------------------------------------------------------- decimal rendering *)
Fixpoint dec_digits (fuel : nat) (n : N) (acc : str) : str :=
  match fuel with
  | O => acc
  | S f =>
      let acc' := (48 + n mod 10) :: acc in
      if n / 10 =? 0 then acc' else dec_digits f (n / 10) acc'
  end.

Definition str_of_N (n : N) : str := dec_digits (S (N.to_nat (N.size n))) n [].

Definition str_of_Z (z : Z) : str :=
  match z with
  | Zneg p => 45 :: str_of_N (Npos p)
  | _ => str_of_N (Z.to_N z)
  end.

Definition str_of_nat (n : nat) : str := str_of_N (N.of_nat n).

(* str.format of an int-or-None field *)
Definition str_of_optZ (z : option Z) : str :=
  match z with Some z => str_of_Z z | None => lit_None end.

(* --------------------------------------------------------- validate command *)
(* one validation message as returned by mappyfile.validate *)
Record vmsg := mk_vmsg { v_line : option Z; v_column : option Z; v_message : str; v_error : str }.

(* per-file outcome: mappyfile.open raised, or validate returned [msgs] *)
Inductive outcome := ParseFailed | Validated (msgs : list vmsg).

Definition n_messages (o : outcome) : nat :=
  match o with ParseFailed => O | Validated msgs => length msgs end.

(* "{fn} (Line: {line} Column: {column}) {message} - {error}" *)
Definition message_line (fn : str) (v : vmsg) : str :=
  fn ++ lit_line ++ str_of_optZ (v_line v) ++ lit_column ++ str_of_optZ (v_column v)
     ++ lit_close ++ v_message v ++ lit_dash ++ v_error v.

Definition parse_failed_line (fn : str) : str := fn ++ lit_failed.
Definition validated_line (fn : str) : str := fn ++ lit_validated.

Definition summary_line (n_files validation_count : nat) : str :=
  str_of_nat n_files ++ lit_files ++ str_of_nat validation_count ++ lit_successfully.

Fixpoint join_comma (l : list str) : str :=
  match l with
  | [] => []
  | [x] => x
  | x :: l' => x ++ 44 :: join_comma l'
  end.

Definition no_mapfiles_line (mapfiles : list str) : str :=
  lit_nofiles ++ join_comma mapfiles.

(* loop state of cli.validate *)
Record vstate := mk_vstate { echoed : list str; validation_count : nat; errors : nat }.

(* inner loop: for v in validation_messages: echo(msg); errors += 1 *)
Fixpoint echo_messages (fn : str) (msgs : list vmsg) (st : vstate) : vstate :=
  match msgs with
  | [] => st
  | v :: msgs' =>
      echo_messages fn msgs'
        (mk_vstate (echoed st ++ [message_line fn v]) (validation_count st) (S (errors st)))
  end.

(* one iteration of: for fn in all_mapfiles *)
Definition validate_file (st : vstate) (f : str * outcome) : vstate :=
  let '(fn, o) := f in
  match o with
  | ParseFailed =>
      (* except Exception: echo; errors += 1; continue *)
      mk_vstate (echoed st ++ [parse_failed_line fn]) (validation_count st) (S (errors st))
  | Validated [] =>
      mk_vstate (echoed st ++ [validated_line fn]) (S (validation_count st)) (errors st)
  | Validated msgs => echo_messages fn msgs st
  end.

Definition validate_loop (files : list (str * outcome)) : vstate :=
  fold_left validate_file files (mk_vstate [] O O).

(* the argument of the final sys.exit: min(errors, 255) *)
Definition validate_exit_arg (st : vstate) : N := N.min (N.of_nat (errors st)) 255.

(* cli.validate after click parsed [mapfiles] and get_mapfiles produced the
   matched files with their outcomes.  Result: the echoed lines and the
   process exit status. *)
Definition validate_cmd (mapfiles : list str) (files : list (str * outcome)) : list str * N :=
  match files with
  | [] => ([no_mapfiles_line mapfiles], 0)          (* echo; return -> status 0 *)
  | _ =>
      let st := validate_loop files in
      (echoed st ++ [summary_line (length files) (validation_count st)],
       exit_status (validate_exit_arg st))          (* sys.exit(min(errors, 255)) *)
  end.

Definition validate_status (files : list (str * outcome)) : N := snd (validate_cmd [] files).
Definition validate_lines (files : list (str * outcome)) : list str := fst (validate_cmd [] files).

(* cli.get_mapfiles: [mf for sublist in mapfiles for mf in glob.glob(sublist) if not os.path.isdir(mf)] *)
Definition get_mapfiles (glob : str -> list str) (isdir : str -> bool) (mapfiles : list str) : list str :=
  flat_map (fun sublist => filter (fun mf => negb (isdir mf)) (glob sublist)) mapfiles.

(* ----------------------------------------------------------- format command *)
(* codecs.decode(x, "unicode_escape") restricted to the escapes the command's
   help mentions (backslash followed by t, n, r, double quote, single quote
   or backslash) over plain ASCII.  [None] = outside the
   modelled domain (non-ASCII input, other escapes, trailing backslash). *)
Fixpoint unicode_escape_decode (s : str) : option str :=
  match s with
  | [] => Some []
  | c :: s' =>
      if 128 <=? c then None
      else if c =? 92 then
        match s' with
        | e :: s'' =>
            let k (x : N) := match unicode_escape_decode s'' with Some r => Some (x :: r) | None => None end in
            if e =? 116 then k 9            (* tab *)
            else if e =? 110 then k 10      (* newline *)
            else if e =? 114 then k 13      (* carriage return *)
            else if e =? 34 then k 34       (* double quote *)
            else if e =? 39 then k 39       (* single quote *)
            else if e =? 92 then k 92       (* backslash *)
            else None
        | [] => None
        end
      else match unicode_escape_decode s' with Some r => Some (c :: r) | None => None end
  end.

Record format_args := mk_fargs {
  f_input : path; f_output : path; f_indent : Z; f_spacer : str; f_quote : str;
  f_newlinechar : str; f_expand : bool; f_comments : bool }.

Section Commands.
  Variable D : Type.
  Variable parse_transform : filesys -> load_opts -> str -> option path -> res D.
  Variable pprint : print_opts -> D -> res str.

  (* result of a command: new file system and exit status; [None] when an
     option lies outside the modelled domain of unicode_escape_decode;
     [Err] = uncaught exception (traceback, status 1; not part of the property) *)
  Definition format_cmd (fs : filesys) (a : format_args) : option (res (filesys * N)) :=
    match unicode_escape_decode (f_quote a), unicode_escape_decode (f_spacer a),
          unicode_escape_decode (f_newlinechar a) with
    | Some q, Some sp, Some nl =>
        Some (match open D parse_transform fs (mk_lopts (f_expand a) (f_comments a) true) (f_input a) with
              | Ok d =>
                  match save D pprint fs (mk_popts (f_indent a) sp q nl false false false) d (f_output a) with
                  | Ok fs' => Ok (fs', 0)           (* sys.exit(0) *)
                  | Err e => Err e
                  end
              | Err e => Err e
              end)
    | _, _, _ => None
    end.

  (* ---- schema command *)
  Variable J : Type.                                   (* JSON object *)
  Variable version : Type.
  Variable get_versioned_schema : option version -> J. (* Validator().get_versioned_schema(version) *)
  Variable json_dumps_sorted_indent4 : J -> str.        (* json.dumps(jsn, sort_keys=True, indent=4) *)

  Definition schema_cmd (fs : filesys) (output_file : path) (v : option version) : res (filesys * N) :=
    match _save fs output_file (json_dumps_sorted_indent4 (get_versioned_schema v)) with
    | Ok fs' => Ok (fs', 0)
    | Err e => Err e
    end.
End Commands.
