(* Compositions of the parser-side and printer-side models: dumps, the
   parse -> print -> parse round trip (C01), format-twice (C04), option
   independence (C06), evaluated on single documents. *)
From MF Require Import Lib.Base Lib.PyNum Model.Case Model.Api Model.Quoter Model.PPrint Model.SlotDoc.
Open Scope N_scope.

Definition dumps (o : opts) (v : value) : res str := do r <- pprint o v; Ok (fst r).

(* the two differences C01 allows, read generously: strings equal up to letter
   case (bare enumerated words are upper-cased by the printer), and a number
   against the string that spells it (NAME 7 -> "7") *)
Fixpoint approx (a b : value) {struct a} : bool :=
  match a, b with
  | VStr x, VStr y => str_eqb x y || str_eqb (lower x) (lower y)
  | VInt z, VStr y => str_eqb (py_str_int z) y
  | VFloat m e, VStr y => str_eqb (py_float_repr m e) y
  | VList x, VList y =>
      (fix go (x y : list value) : bool :=
         match x, y with
         | [], [] => true
         | u :: x', v :: y' => approx u v && go x' y'
         | _, _ => false
         end) x y
  | VDict _ x, VDict _ y =>
      (fix go (x y : list (str * value)) : bool :=
         match x, y with
         | [], [] => true
         | (k, u) :: x', (k', v) :: y' => str_eqb k k' && approx u v && go x' y'
         | _, _ => false
         end) x y
  | _, _ => value_eqb a b
  end.

(* C01 on one text: the printed text is accepted and loads to the same content *)
Definition roundtrip_ok (o : opts) (text : str) : bool :=
  match loads false false text with
  | Err _ => true                      (* not in the quantifier: loads must accept the text *)
  | Ok d =>
      match dumps o d with
      | Err _ => false
      | Ok t =>
          match loads false false t with
          | Ok d2 => approx d d2
          | Err _ => false
          end
      end
  end.

(* C04 on one text: formatting already formatted output changes nothing *)
Definition idempotent_ok (o : opts) (text : str) : bool :=
  match loads false false text with
  | Err _ => true
  | Ok d =>
      match dumps o d with
      | Err _ => true                  (* C01/C03's business *)
      | Ok t =>
          match loads false false t with
          | Err _ => true              (* C01's business *)
          | Ok d2 =>
              match dumps o d2 with
              | Ok t2 =>
                  str_eqb t t2 &&
                  match loads false false t2 with Ok d3 => value_eqb d2 d3 | Err _ => false end
              | Err _ => false
              end
          end
      end
  end.

(* C06 on one text and one option set: same dictionary as the default formatting *)
Definition options_ok (o : opts) (text : str) : bool :=
  match loads false false text with
  | Err _ => true
  | Ok d =>
      match dumps default_opts d, dumps o d with
      | Ok t0, Ok t1 =>
          match loads false false t0, loads false false t1 with
          | Ok a, Ok b => value_eqb a b
          | Err _, _ => true           (* C01's business *)
          | Ok _, Err _ => false
          end
      | Err _, Err _ => true
      | Err _, Ok _ => false
      | Ok _, Err _ => false
      end
  end.

Definition nl : str := [10].
Definition crlf : str := [13; 10].
Definition tab : str := [9].

(* a covering family of option sets: every value of every option occurs *)
Definition option_sets : list opts :=
  [ mk_opts 0 (Str " ") 34 nl false false false;
    mk_opts 2 tab 39 crlf true true false;
    mk_opts 8 (Str " ") 39 nl false true false;
    mk_opts 1 tab 34 crlf true false false;
    mk_opts 4 (Str " ") 34 (Str " ") false false false;
    mk_opts 3 (Str " ") 34 nl true true true ].
