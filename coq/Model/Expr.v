(* Expression handling of mappyfile (C10).  Definitions only.

   Part 1: the string builders, one per MapfileTransformer callback of the
           expression sub-grammar (transformer.py:458-556, :636-641), as plain
           total functions on [str], character for character.  The generic
           transformer model imports exactly these.
   Part 2: Python str() of leaf values (int, float, bool) and the literal
           readers int() / float() restricted to the token shapes of the
           grammar (SIGNED_INT, SIGNED_FLOAT).
   Part 3: [etree], the expression sub-grammar as Lark builds it, the stored
           string [norm], an independent source renderer [src_toks]/[source],
           and a token/space account of the stored string ([norm_pieces]).
   Part 4: well-formedness (the precedence ladder of mapfile.lark) and the
           boolean guards used by the theorems.
   Part 5: the fragment of pprint.PrettyPrinter.format_value that handles
           string values (quoter.py in_parenthesis / in_braces / ...). *)
From MF Require Import Lib.Base Lib.Json.
Open Scope N_scope.

(* ================================================================ Part 0 *)
(* generic string helpers *)

Fixpoint join (sep : str) (l : list str) : str :=
  match l with
  | [] => []
  | [x] => x
  | x :: l' => x ++ sep ++ join sep l'
  end.

(* str.isspace() for the code points CPython treats as whitespace *)
Definition is_space (c : N) : bool :=
  ((9 <=? c) && (c <=? 13)) || ((28 <=? c) && (c <=? 32)) || (c =? 133) || (c =? 160)
  || (c =? 5760) || ((8192 <=? c) && (c <=? 8202)) || (c =? 8232) || (c =? 8233)
  || (c =? 8239) || (c =? 8287) || (c =? 12288).

Fixpoint lstrip (s : str) : str :=
  match s with
  | c :: s' => if is_space c then lstrip s' else s
  | [] => []
  end.

Definition strip (s : str) : str := rev (lstrip (rev (lstrip s))).

Definition LP : str := Str "(".
Definition RP : str := Str ")".
Definition SP : str := Str " ".

(* quoter.py: Quoter.in_parenthesis / in_braces / in_brackets / in_slashes *)
Definition in_parenthesis (val : str) : bool :=
  let v := strip val in startswith v LP && endswith v RP.
Definition in_braces (val : str) : bool :=
  let v := strip val in startswith v (Str "{") && endswith v (Str "}").
Definition in_brackets (val : str) : bool :=
  let v := strip val in startswith v (Str "[") && endswith v (Str "]").
Definition q_in_quotes (val ch : str) : bool := startswith val ch && endswith val ch.
Definition in_slashes (val : str) : bool := q_in_quotes (strip val) (Str "/").

(* ================================================================ Part 1 *)
(* String builders.  Arguments are the Python str() of the children's
   .value, in order. *)

(* comparison(t): v = " ".join(parts); f"( {v} )" *)
Definition b_comparison (a op b : str) : str :=
  Str "( " ++ join SP [a; op; b] ++ Str " )".

(* and_test(t): f"( {a} AND {b} )" *)
Definition b_and (a b : str) : str := Str "( " ++ a ++ Str " AND " ++ b ++ Str " )".

(* or_test(t): f"( {a} OR {b} )" *)
Definition b_or (a b : str) : str := Str "( " ++ a ++ Str " OR " ++ b ++ Str " )".

(* not_expression(t): f"NOT {v}" *)
Definition b_not (a : str) : str := Str "NOT " ++ a.

(* expression(t): exp = " ".join(str(v.value) for v in t);
   if not in_parenthesis(exp): f"({exp})" else the first child's value (which,
   for the single child the grammar produces, is exp itself).  For several
   children the first child's own string is returned, as in Python. *)
Definition b_expression (parts : list str) : str :=
  let exp := join SP parts in
  if in_parenthesis exp then match parts with p :: _ => p | [] => [] end
  else LP ++ exp ++ RP.

(* add/sub/mul/div/power(t): f"{a} + {b}" ... *)
Definition b_add (a b : str) : str := a ++ Str " + " ++ b.
Definition b_sub (a b : str) : str := a ++ Str " - " ++ b.
Definition b_mul (a b : str) : str := a ++ Str " * " ++ b.
Definition b_div (a b : str) : str := a ++ Str " / " ++ b.
Definition b_power (a b : str) : str := a ++ Str " ^ " ++ b.

(* neg(t): f"-{a}" *)
Definition b_neg (a : str) : str := Str "-" ++ a.

(* func_params(t): ",".join(str(v.value) for v in t) *)
Definition b_func_params (ps : list str) : str := join (Str ",") ps.

(* func_call(t): f"({func_name}({params}))" *)
Definition b_func_call (name params : str) : str :=
  LP ++ name ++ LP ++ params ++ RP ++ RP.

(* attr_bind(t): f"[{name}]" *)
Definition b_attr_bind (name : str) : str := Str "[" ++ name ++ Str "]".

(* list(t): "{%s}" % ",".join(str(s) for s in t) - str() of the child TOKENS
   (their original text), not of their .value *)
Definition b_list (elems : list str) : str := Str "{" ++ join (Str ",") elems ++ Str "}".

(* ================================================================ Part 2 *)
(* Python str() of numbers and booleans *)

Fixpoint digits_fuel (fuel : nat) (n : N) (acc : str) : str :=
  match fuel with
  | O => acc
  | S f =>
      let acc' := (48 + n mod 10) :: acc in
      if n <? 10 then acc' else digits_fuel f (n / 10) acc'
  end.

(* decimal digits of a natural number, most significant first; "0" for 0 *)
Definition digits_of_N (n : N) : str := digits_fuel (S (N.to_nat (N.size n))) n [].

(* str(int) *)
Definition py_int_repr (z : Z) : str :=
  match z with
  | Z0 => Str "0"
  | Zpos p => digits_of_N (Npos p)
  | Zneg p => Str "-" ++ digits_of_N (Npos p)
  end.

Definition zeros (n : nat) : str := repeat 48 n.

(* two-digit-minimum exponent as in "e+16", "e-05" *)
Definition exp_repr (x : Z) : str :=
  let sign := if (x <? 0)%Z then Str "-" else Str "+" in
  let ds := digits_of_N (Z.abs_N x) in
  sign ++ (if (length ds <? 2)%nat then Str "0" ++ ds else ds).

(* repr(float) / str(float) for the double nearest to m * 10^e, where (m, e)
   is a canonical decimal (m without trailing zero, or m = 0 and e = 0) with
   at most 15 significant digits: the shortest round-tripping digit string is
   then the digits of m, and CPython (format_float_short, 'r') prints them in
   fixed notation when -4 < decpt <= 16, in scientific notation otherwise. *)
Definition py_float_repr (m e : Z) : str :=
  if (m =? 0)%Z then Str "0.0"
  else
    let sign := if (m <? 0)%Z then Str "-" else [] in
    let ds := digits_of_N (Z.abs_N m) in
    let n := Z.of_nat (length ds) in
    let decpt := (n + e)%Z in
    sign ++
    (if ((-4 <? decpt) && (decpt <=? 16))%Z then
       if (decpt <=? 0)%Z then Str "0." ++ zeros (Z.to_nat (- decpt)) ++ ds
       else if (n <=? decpt)%Z then ds ++ zeros (Z.to_nat (decpt - n)) ++ Str ".0"
       else firstn (Z.to_nat decpt) ds ++ Str "." ++ skipn (Z.to_nat decpt) ds
     else
       firstn 1 ds ++ (if (1 <? n)%Z then Str "." ++ skipn 1 ds else [])
       ++ Str "e" ++ exp_repr (decpt - 1)).

Definition py_bool_repr (b : bool) : str := if b then Str "True" else Str "False".

(* str(value) for the value kinds that can reach an expression builder *)
Definition py_str_value (v : value) : str :=
  match v with
  | VBool b => py_bool_repr b
  | VInt z => py_int_repr z
  | VFloat m e => py_float_repr m e
  | VStr s => s
  | VNone => Str "None"
  | _ => []
  end.

(* int(token) for SIGNED_INT = ["+"|"-"] [0-9]+ *)
Definition is_digit (c : N) : bool := (48 <=? c) && (c <=? 57).

Fixpoint nat_of_digits (acc : N) (s : str) : N :=
  match s with
  | c :: s' => if is_digit c then nat_of_digits (10 * acc + (c - 48)) s' else acc
  | [] => acc
  end.

Fixpoint take_digits (s : str) : str * str :=
  match s with
  | c :: s' => if is_digit c then let '(d, r) := take_digits s' in (c :: d, r) else ([], s)
  | [] => ([], [])
  end.

Definition split_sign (s : str) : bool * str :=
  match s with
  | c :: s' => if c =? 45 then (true, s') else if c =? 43 then (false, s') else (false, s)
  | [] => (false, s)
  end.

Definition int_of_lit (s : str) : Z :=
  let '(neg, r) := split_sign s in
  let v := Z.of_N (nat_of_digits 0 r) in
  if neg then (- v)%Z else v.

(* float(token) for SIGNED_FLOAT = ["+"|"-"] (INT "." INT? | "." INT | INT) EXP?
   as a canonical decimal *)
Fixpoint canon_fuel (fuel : nat) (m e : Z) : Z * Z :=
  match fuel with
  | O => (m, e)
  | S f => if (m mod 10 =? 0)%Z then canon_fuel f (m / 10)%Z (e + 1)%Z else (m, e)
  end.

Definition canon_dec (m e : Z) : Z * Z :=
  if (m =? 0)%Z then (0%Z, 0%Z) else canon_fuel (S (N.size_nat (Z.abs_N m))) m e.

Definition float_of_lit (s : str) : Z * Z :=
  let '(neg, r) := split_sign s in
  let '(ip, r1) := take_digits r in
  let '(fp, r2) := match r1 with 46 :: r1' => take_digits r1' | _ => ([], r1) end in
  let ex := match r2 with
            | 101 :: r3 | 69 :: r3 => int_of_lit r3
            | _ => 0%Z
            end in
  let m := Z.of_N (nat_of_digits 0 (ip ++ fp)) in
  let m := if neg then (- m)%Z else m in
  canon_dec m (ex - Z.of_nat (length fp))%Z.

(* ================================================================ Part 3 *)
(* Leaves: the [value] alternatives that occur as operands. *)

Inductive lelem :=
| LEVerb (raw : str)      (* number / quoted string / bare words: str(token) = its text *)
| LEBind (name : str).    (* attr_bind child: str(token) is the inner name only *)

Inductive leaf :=
| LBind (name : str)                  (* "[" UNQUOTED_STRING "]" *)
| LInt (sp : str) (z : Z)             (* SIGNED_INT: source spelling, int(sp) *)
| LFloat (sp : str) (m e : Z)         (* SIGNED_FLOAT: source spelling, float(sp) *)
| LBool (sp : str) (b : bool)         (* "TRUE"i / "FALSE"i *)
| LVerb (raw : str)                   (* string (quotes kept), regexp, runtime_var *)
| LList (elems : list lelem).         (* "{" ... "}" *)

Definition lelem_str (x : lelem) : str := match x with LEVerb r => r | LEBind n => n end.
Definition lelem_src (x : lelem) : str := match x with LEVerb r => r | LEBind n => b_attr_bind n end.

(* str(value) of the transformed leaf *)
Definition leaf_str (l : leaf) : str :=
  match l with
  | LBind n => b_attr_bind n
  | LInt _ z => py_int_repr z
  | LFloat _ m e => py_float_repr m e
  | LBool _ b => py_bool_repr b
  | LVerb r => r
  | LList es => b_list (map lelem_str es)
  end.

(* the source text of the leaf *)
Definition leaf_src (l : leaf) : str :=
  match l with
  | LBind n => b_attr_bind n
  | LInt sp _ => sp
  | LFloat sp _ _ => sp
  | LBool sp _ => sp
  | LVerb r => r
  | LList es => b_list (map lelem_src es)
  end.

(* arithmetic aliases of the grammar: add sub mul div power *)
Inductive aop := Add | Sub | Mul | Div | Pow.

Definition aop_sym (o : aop) : str :=
  match o with Add => Str "+" | Sub => Str "-" | Mul => Str "*" | Div => Str "/" | Pow => Str "^" end.

Definition b_arith (o : aop) (a b : str) : str :=
  match o with
  | Add => b_add a b | Sub => b_sub a b | Mul => b_mul a b | Div => b_div a b | Pow => b_power a b
  end.

(* The expression sub-grammar after Lark's ?rule inlining.  Spellings of the
   filtered keyword tokens (AND/&&, OR/||, NOT/!) are kept for the source
   renderer only; compare_op keeps its token ("!compare_op"). Function-call
   parameters are restricted to leaves here (the builders above handle any
   parameter string). *)
Inductive etree :=
| ELeaf (l : leaf)
| EFunc (name : str) (params : list leaf)
| EGroup (x : etree)                      (* expression: "(" or_test ")" *)
| ENot (sp : str) (x : etree)             (* not_expression: ("!"|"NOT"i) comparison *)
| ENeg (x : etree)                        (* "-" unary_expr -> neg *)
| EPos (x : etree)                        (* "+" unary_expr (inlined, vanishes) *)
| EArith (o : aop) (l r : etree)
| ECmp (op : str) (l r : etree)           (* comparison: comparison compare_op sum *)
| EAnd (sp : str) (l r : etree)
| EOr (sp : str) (l r : etree).

(* the string the transformer stores for the tree *)
Fixpoint norm (t : etree) : str :=
  match t with
  | ELeaf l => leaf_str l
  | EFunc n ps => b_func_call n (b_func_params (map leaf_str ps))
  | EGroup x => b_expression [norm x]
  | ENot _ x => b_not (norm x)
  | ENeg x => b_neg (norm x)
  | EPos x => norm x
  | EArith o l r => b_arith o (norm l) (norm r)
  | ECmp op l r => b_comparison (norm l) op (norm r)
  | EAnd _ l r => b_and (norm l) (norm r)
  | EOr _ l r => b_or (norm l) (norm r)
  end.

(* ---- tokens *)
Inductive tok :=
| TLP | TRP | TComma
| TName (s : str)          (* function name *)
| TLeaf (l : leaf)
| TNot (sp : str) | TAnd (sp : str) | TOr (sp : str)
| TCmp (sp : str)
| TArith (o : aop)
| TNeg | TPos.

(* spelling in the source text *)
Definition tok_src (t : tok) : str :=
  match t with
  | TLP => LP | TRP => RP | TComma => Str ","
  | TName s => s
  | TLeaf l => leaf_src l
  | TNot sp => sp | TAnd sp => sp | TOr sp => sp
  | TCmp sp => sp
  | TArith o => aop_sym o
  | TNeg => Str "-" | TPos => Str "+"
  end.

(* spelling in the stored string *)
Definition tok_norm (t : tok) : str :=
  match t with
  | TLeaf l => leaf_str l
  | TNot _ => Str "NOT" | TAnd _ => Str "AND" | TOr _ => Str "OR"
  | _ => tok_src t
  end.

Definition params_toks (ps : list leaf) : list tok :=
  match ps with
  | [] => []
  | p :: ps' => TLeaf p :: flat_map (fun q => [TComma; TLeaf q]) ps'
  end.

(* independent source renderer: the token sequence of a text that the grammar
   derives with tree t (for well-formed t), every token separated by one space *)
Fixpoint src_toks (t : etree) : list tok :=
  match t with
  | ELeaf l => [TLeaf l]
  | EFunc n ps => TName n :: TLP :: params_toks ps ++ [TRP]
  | EGroup x => TLP :: src_toks x ++ [TRP]
  | ENot sp x => TNot sp :: src_toks x
  | ENeg x => TNeg :: src_toks x
  | EPos x => TPos :: src_toks x
  | EArith o l r => src_toks l ++ TArith o :: src_toks r
  | ECmp op l r => src_toks l ++ TCmp op :: src_toks r
  | EAnd sp l r => src_toks l ++ TAnd sp :: src_toks r
  | EOr sp l r => src_toks l ++ TOr sp :: src_toks r
  end.

Definition source (t : etree) : str := join SP (map tok_src (src_toks t)).

(* ---- the stored string as tokens and single spaces *)
Inductive piece := PT (t : tok) | PS.

Definition piece_str (p : piece) : str := match p with PT t => tok_norm t | PS => SP end.
Definition flat (ps : list piece) : str := flat_map piece_str ps.

Fixpoint toks_of (ps : list piece) : list tok :=
  match ps with
  | PT t :: ps' => t :: toks_of ps'
  | PS :: ps' => toks_of ps'
  | [] => []
  end.

Definition params_pieces (ps : list leaf) : list piece := map PT (params_toks ps).

Fixpoint norm_pieces (t : etree) : list piece :=
  match t with
  | ELeaf l => [PT (TLeaf l)]
  | EFunc n ps => PT TLP :: PT (TName n) :: PT TLP :: params_pieces ps ++ [PT TRP; PT TRP]
  | EGroup x =>
      if in_parenthesis (norm x) then norm_pieces x
      else PT TLP :: norm_pieces x ++ [PT TRP]
  | ENot sp x => PT (TNot sp) :: PS :: norm_pieces x
  | ENeg x => PT TNeg :: norm_pieces x
  | EPos x => norm_pieces x
  | EArith o l r => norm_pieces l ++ PS :: PT (TArith o) :: PS :: norm_pieces r
  | ECmp op l r => PT TLP :: PS :: norm_pieces l ++ PS :: PT (TCmp op) :: PS :: norm_pieces r ++ [PS; PT TRP]
  | EAnd sp l r => PT TLP :: PS :: norm_pieces l ++ PS :: PT (TAnd sp) :: PS :: norm_pieces r ++ [PS; PT TRP]
  | EOr sp l r => PT TLP :: PS :: norm_pieces l ++ PS :: PT (TOr sp) :: PS :: norm_pieces r ++ [PS; PT TRP]
  end.

Definition norm_toks (t : etree) : list tok := toks_of (norm_pieces t).

(* ================================================================ Part 4 *)
(* The precedence ladder of mapfile.lark:
     or_test 0 < and_test 1 < comparison 2 < sum 3 < product 4 < unary_expr 5 < atom 6
   not_expression is a [value], hence an atom, whose operand is a comparison. *)
Definition aop_level (o : aop) : nat :=
  match o with Add | Sub => 3%nat | Mul | Div | Pow => 4%nat end.

Definition level (t : etree) : nat :=
  match t with
  | EOr _ _ _ => 0 | EAnd _ _ _ => 1 | ECmp _ _ _ => 2
  | EArith o _ _ => aop_level o
  | ENeg _ | EPos _ => 5
  | ELeaf _ | EFunc _ _ | EGroup _ | ENot _ _ => 6
  end%nat.

(* the right edge of the phrase is an open not_expression: NOT takes the
   whole comparison to its right (Lark resolves the conflict by shifting) *)
Fixpoint ends_not (t : etree) : bool :=
  match t with
  | ENot _ _ => true
  | ENeg x | EPos x => ends_not x
  | EArith _ _ r | ECmp _ _ r | EAnd _ _ r | EOr _ _ r => ends_not r
  | _ => false
  end.

Definition bin_ok (lv : nat) (l r : etree) : bool :=
  (lv <=? level l)%nat && (lv <? level r)%nat && ((lv <? 2)%nat || negb (ends_not l)).

(* t is a tree the grammar derives for the token sequence [src_toks t] *)
Fixpoint wf (t : etree) : bool :=
  match t with
  | ELeaf _ => true
  | EFunc _ ps => negb (Nat.eqb (length ps) 0)
  | EGroup x => wf x
  | ENot _ x => wf x && (2 <=? level x)%nat
  | ENeg x | EPos x => wf x && (5 <=? level x)%nat
  | EArith o l r => wf l && wf r && bin_ok (aop_level o) l r
  | ECmp _ l r => wf l && wf r && bin_ok 2 l r
  | EAnd _ l r => wf l && wf r && bin_ok 1 l r
  | EOr _ l r => wf l && wf r && bin_ok 0 l r
  end.

(* --- guards *)
Definition PERCENT : str := Str "%".

(* no "%" among the comparison operators *)
Fixpoint percent_free (t : etree) : bool :=
  match t with
  | ELeaf _ | EFunc _ _ => true
  | EGroup x | ENot _ x | ENeg x | EPos x => percent_free x
  | ECmp op l r => negb (str_eqb op PERCENT) && percent_free l && percent_free r
  | EArith _ l r | EAnd _ l r | EOr _ l r => percent_free l && percent_free r
  end.

(* the stored string of t is enclosed by parentheses that its own builder
   added (comparison, and_test, or_test, func_call, or a group that is) *)
Definition enclosed (t : etree) : bool :=
  match t with
  | ECmp _ _ _ | EAnd _ _ _ | EOr _ _ _ | EFunc _ _ => true
  | EGroup _ => true
  | _ => false
  end.

(* every parenthesised group either is re-parenthesised by [expression] or
   holds something that carries its own enclosing parentheses: the textual
   in_parenthesis test never mistakes "(a) op (b)" for a parenthesised string *)
Fixpoint paren_safe (t : etree) : bool :=
  match t with
  | ELeaf _ | EFunc _ _ => true
  | EGroup x => paren_safe x && (enclosed x || negb (in_parenthesis (norm x)))
  | ENot _ x | ENeg x | EPos x => paren_safe x
  | EArith _ l r | ECmp _ l r | EAnd _ l r | EOr _ l r => paren_safe l && paren_safe r
  end.

(* b_neg writes "-" directly in front of its operand.  The result lexes as
   intended unless the operand starts with a character of the bare-word class
   other than a digit ("--5", "-NOT ...", "-True" are single bare words for
   the lexer), or is the integer 0 ("-0" is one SIGNED_INT and int("-0")
   prints "0"). *)
Definition is_word_start (c : N) : bool :=
  (c =? 45) || (c =? 95) || (c =? 58) || ((65 <=? c) && (c <=? 90)) || ((97 <=? c) && (c <=? 122))
  || ((192 <=? c) && (c <=? 255)).

Definition neg_glue_ok (s : str) : bool :=
  match s with
  | [] => true
  | c :: _ => negb (is_word_start c) && negb (str_eqb s (Str "0"))
  end.

Fixpoint neg_safe (t : etree) : bool :=
  match t with
  | ELeaf _ | EFunc _ _ => true
  | EGroup x | ENot _ x | EPos x => neg_safe x
  | ENeg x => neg_safe x && neg_glue_ok (norm x)
  | EArith _ l r | ECmp _ l r | EAnd _ l r | EOr _ l r => neg_safe l && neg_safe r
  end.

(* leaves whose stored text is their source text *)
Definition lelem_verbatim (x : lelem) : bool := match x with LEVerb _ => true | LEBind _ => false end.
Definition leaf_verbatim (l : leaf) : bool :=
  match l with
  | LBind _ | LVerb _ => true
  | LList es => forallb lelem_verbatim es
  | LInt _ _ | LFloat _ _ _ | LBool _ _ => false
  end.

(* list expressions contain no attribute binding *)
Definition leaf_list_ok (l : leaf) : bool :=
  match l with LList es => forallb lelem_verbatim es | _ => true end.

Fixpoint lists_ok (t : etree) : bool :=
  match t with
  | ELeaf l => leaf_list_ok l
  | EFunc _ ps => forallb leaf_list_ok ps
  | EGroup x | ENot _ x | ENeg x | EPos x => lists_ok x
  | EArith _ l r | ECmp _ l r | EAnd _ l r | EOr _ l r => lists_ok l && lists_ok r
  end.

(* the value carried by a numeric leaf is int()/float() of its spelling *)
Definition leaf_lit_ok (l : leaf) : bool :=
  match l with
  | LInt sp z => Z.eqb (int_of_lit sp) z
  | LFloat sp m e => let '(m', e') := float_of_lit sp in Z.eqb m m' && Z.eqb e e'
  | _ => true
  end.

(* the tree whose source is the stored string: comparison / AND / OR nodes and
   function calls sit in a group, groups are kept or dropped as [expression]
   decides, unary plus is gone, leaves and keyword operators have their stored
   spelling *)
Definition canon_lelem (x : lelem) : lelem := LEVerb (lelem_str x).
Definition canon_leaf (l : leaf) : leaf :=
  match l with
  | LBind n => LBind n
  | LInt _ z => LInt (py_int_repr z) z
  | LFloat _ m e => LFloat (py_float_repr m e) m e
  | LBool _ b => LBool (py_bool_repr b) b
  | LVerb r => LVerb r
  | LList es => LList (map canon_lelem es)
  end.

Fixpoint renorm (t : etree) : etree :=
  match t with
  | ELeaf l => ELeaf (canon_leaf l)
  | EFunc n ps => EGroup (EFunc n (map canon_leaf ps))
  | EGroup x => if in_parenthesis (norm x) then renorm x else EGroup (renorm x)
  | ENot _ x => ENot (Str "NOT") (renorm x)
  | ENeg x => ENeg (renorm x)
  | EPos x => renorm x
  | EArith o l r => EArith o (renorm l) (renorm r)
  | ECmp op l r => EGroup (ECmp op (renorm l) (renorm r))
  | EAnd _ l r => EGroup (EAnd (Str "AND") (renorm l) (renorm r))
  | EOr _ l r => EGroup (EOr (Str "OR") (renorm l) (renorm r))
  end.

(* ================================================================ Part 5 *)
(* pprint.PrettyPrinter.format_value restricted to str values (the only kind an
   expression-typed key holds) with the default Quoter (double quote).
   [attr_props] is the attribute's entry in the expanded schema. *)
Definition DQ : str := Str """".
Definition SQ : str := Str "'".

Definition add_quotes (v : str) : str := DQ ++ v ++ DQ.

(* str.replace for a one- or two-character needle; only used on quotes *)
Fixpoint replace2 (a b : N) (by_ : str) (s : str) : str :=   (* replace "ab" *)
  match s with
  | x :: ((y :: s'') as s') =>
      if N.eqb x a && N.eqb y b then by_ ++ replace2 a b by_ s'' else x :: replace2 a b by_ s'
  | _ => s
  end.
Fixpoint replace1 (a : N) (by_ : str) (s : str) : str :=
  match s with
  | x :: s' => if N.eqb x a then by_ ++ replace1 a by_ s' else x :: replace1 a by_ s'
  | [] => []
  end.

Definition remove_quotes (v : str) : str :=
  if q_in_quotes v DQ || q_in_quotes v SQ then removelast (tl v) else v.

(* Quoter.escape_quotes *)
Definition escape_quotes (v : str) : str :=
  if q_in_quotes v DQ then
    let middle := replace2 92 34 DQ (remove_quotes v) in
    add_quotes (replace1 34 (Str "\""") middle)
  else v.

Definition is_expression_opt (o : json) : bool :=
  match jget (Str "description") o with
  | Some (JStr d) => str_eqb d (Str "expression")
  | _ => false
  end.

Definition json_str_mem (s : str) (l : list json) : bool :=
  existsb (fun j => match j with JStr x => str_eqb x s | _ => false end) l.

(* check_options_list; [lower]/[upper] are parameters (Model/Case.v) *)
Section FormatValue.
  Variable lower upper : str -> str.

  Fixpoint check_options_loop (opts : list json) (value : str) : option str :=
    match opts with
    | [] => None
    | o :: opts' =>
        match (match jget (Str "enum") o with
               | Some (JArr en) =>
                   if json_str_mem (lower value) en then
                     Some (if str_eqb (lower value) (Str "end") then add_quotes value else upper value)
                   else None
               | _ => None
               end) with
        | Some r => Some r
        | None =>
            if is_expression_opt o && (endswith value (Str "'i") || endswith value (Str """i"))
            then Some value
            else check_options_loop opts' value
        end
    end.

  Definition check_options_list (opts : list json) (value : str) : str :=
    match check_options_loop opts value with
    | Some r => r
    | None => if in_slashes value then value else add_quotes value
    end.

  Definition format_value_str (attr : str) (attr_props : json) (value : str) : str :=
    if jhas (Str "enum") attr_props then
      (if str_eqb attr (Str "compop") then add_quotes value else upper value)
    else if (match jget (Str "type") attr_props with
             | Some (JStr t) => str_eqb t (Str "string") | _ => false end) then
      (if is_expression_opt attr_props && in_slashes value then value
       else if is_expression_opt attr_props && (endswith value (Str "'i") || endswith value (Str """i"))
       then value
       else add_quotes value)
    else
      let value :=
        match (match jget (Str "oneOf") attr_props with
               | Some (JArr l) => Some l
               | Some _ => Some []
               | None => match jget (Str "anyOf") attr_props with
                         | Some (JArr l) => Some l
                         | Some _ => Some []
                         | None => None end
               end) with
        | Some opts =>
            if in_parenthesis value then value
            else if str_eqb attr (Str "expression") && in_braces value then value
            else if negb (str_eqb attr (Str "text")) && in_brackets value then value
            else if startswith value (Str "NOT ") && in_parenthesis (skipn 4 value) then value
            else check_options_list opts value
        | None => value
        end in
      escape_quotes value.
End FormatValue.
