(* Model of mappyfile/validator.py (class Validator), function by function.
   Definitions only.

   [files] is the content of the schemas folder (Gen.Schemas.schema_files when
   run).  The two caches of a Validator object are explicit state:
     schemas           name -> raw JSON            (get_json_from_file)
     expanded_schemas  cache key -> jsonref load   (get_expanded_schema)
   One jsonref load is a root document plus its own store of file objects
   ([entry]); get_versioned_properties mutates these objects in place, which
   is modelled by threading the store through the traversal.

   Not modelled: add_comments=True (it only adds "__comments__" entries to the
   argument, the returned messages are the same); the text of jsonschema's
   error.message (the model reports the error path and validator keyword in
   its place). *)
From MF Require Import Lib.Base Lib.Json Lib.PyDict Gen.Tokens Model.Case Model.OrderedDict
  Model.SchemaStore Model.Schema.
Open Scope Z_scope.

(* ------------------------------------------------------------ versions *)
(* a version argument: Python int or float (a canonical decimal) *)
Inductive vnum := NInt (z : Z) | NFloat (m e : Z).

Definition vnum_num (v : vnum) : num :=
  match v with NInt z => (z, 0) | NFloat m e => (m, e) end.

(* "if version:" *)
Definition vtruthy (v : option vnum) : bool :=
  match v with
  | None => false
  | Some (NInt z) => negb (z =? 0)
  | Some (NFloat m _) => negb (m =? 0)
  end.

(* decimal digits of a non-negative integer, most significant first *)
Fixpoint digits_fuel (fuel : nat) (z : Z) (acc : str) : str :=
  match fuel with
  | O => acc
  | S fuel' =>
      let acc' := Z.to_N (48 + z mod 10) :: acc in
      if z <? 10 then acc' else digits_fuel fuel' (z / 10) acc'
  end.
Definition digits (z : Z) : str := digits_fuel (S (Z.to_nat (Z.log2 z))) z [].

Definition z_str (z : Z) : str :=
  if z <? 0 then 45%N :: digits (- z) else digits z.

Definition zeros (n : Z) : str := repeat 48%N (Z.to_nat n).

(* repr of a float given as canonical decimal m * 10^e (CPython, 'r' format:
   positional notation when -4 < decpt <= 16, scientific otherwise) *)
Definition float_str (m e : Z) : str :=
  if m =? 0 then Str "0.0"
  else
    let sign := if m <? 0 then [45%N] else [] in
    let ds := digits (Z.abs m) in
    let n := Z.of_nat (length ds) in
    let decpt := n + e in
    sign ++
    (if (-4 <? decpt) && (decpt <=? 16) then
       if decpt <=? 0 then Str "0." ++ zeros (- decpt) ++ ds
       else if n <=? decpt then ds ++ zeros (decpt - n) ++ Str ".0"
       else firstn (Z.to_nat decpt) ds ++ [46%N] ++ skipn (Z.to_nat decpt) ds
     else
       let ex := decpt - 1 in
       let exd := digits (Z.abs ex) in
       (match ds with
        | d :: [] => [d]
        | d :: rest => d :: 46%N :: rest
        | [] => []
        end)
       ++ [101%N] ++ (if ex <? 0 then [45%N] else [43%N])
       ++ (if Z.of_nat (length exd) <? 2 then 48%N :: exd else exd)).

(* str(version) *)
Definition vnum_str (v : vnum) : str :=
  match v with NInt z => z_str z | NFloat m e => float_str m e end.

(* ------------------------------------------------------------ state *)
Record entry := mk_entry { e_root : json; e_store : store }.
Record vstate := mk_vstate { schemas : list (str * json); expanded_schemas : list (str * entry) }.

Definition init_state : vstate := mk_vstate [] [].

Section Validator.
  Variable files : list (str * json).

  (* Validator.get_schema_file: the file name, IOError when it does not exist *)
  Definition get_schema_file (schema_name : str) : res str :=
    let fn := schema_file_name schema_name in
    match assoc fn files with Some _ => Ok fn | None => Err PyIOError end.

  (* Validator.get_json_from_file *)
  Definition get_json_from_file (schema_name : str) (s : vstate) : res (json * vstate) :=
    match assoc schema_name (schemas s) with
    | Some j => Ok (j, s)
    | None =>
        do fn <- get_schema_file schema_name;
        match assoc fn files with
        | Some j => Ok (j, mk_vstate (od_set schema_name j (schemas s)) (expanded_schemas s))
        | None => Err PyIOError
        end
    end.

  (* Validator.is_valid_for_version; [d] may be a proxy, "in" / [] / .get act
     on its subject *)
  Definition version_lt (v : num) (bound : json) : res bool :=
    match bound with
    | JInt _ | JFloat _ _ => match jnum bound with Some b => Ok (nltb v b) | None => Err PyTypeError end
    | JBool b => Ok (nltb v ((if b then 1 else 0), 0))
    | _ => Err PyTypeError
    end.
  Definition version_gt (v : num) (bound : json) : res bool :=
    match bound with
    | JInt _ | JFloat _ _ => match jnum bound with Some b => Ok (nltb b v) | None => Err PyTypeError end
    | JBool b => Ok (nltb ((if b then 1 else 0), 0) v)
    | _ => Err PyTypeError
    end.

  Definition K_metadata := Str "metadata".
  Definition K_minVersion := Str "minVersion".
  Definition K_maxVersion := Str "maxVersion".
  Definition default_min : json := JFloat 0 0.      (* 0.0 *)
  Definition default_max : json := JFloat 1 3.      (* 1000.0 *)

  Definition is_valid_for_version (st : store) (d : json) (version : num) : res bool :=
    match jget K_metadata (subject st d) with
    | Some md0 =>
        match subject st md0 with
        | JObj md =>
            let min_version := match assoc K_minVersion md with Some x => x | None => default_min end in
            let max_version := match assoc K_maxVersion md with Some x => x | None => default_max end in
            do lt <- version_lt version min_version;
            if lt then Ok false
            else do gt <- version_gt version max_version; Ok (negb gt)
        | _ => Err PyAttributeError
        end
    | None => Ok true
    end.

  (* the members of an alternatives list that stay *)
  Fixpoint filter_valid (st : store) (version : num) (l : list json) : res (list json) :=
    match l with
    | [] => Ok []
    | p :: l' =>
        do keep <- match subject st p with
                   | JObj _ => is_valid_for_version st p version
                   | _ => Ok true
                   end;
        do rest <- filter_valid st version l';
        Ok (if keep then p :: rest else rest)
    end.

  (* the loop "for key in keys_copy" of get_versioned_properties over the items
     of one dict; [rec] is the recursive call self.get_versioned_properties *)
  Fixpoint gvp_items (rec : store -> json -> res (json * store)) (version : num)
           (l : list (str * json)) (st : store) : res (list (str * json) * store) :=
    match l with
    | [] => Ok ([], st)
    | (key, v) :: l' =>
        match subject st v with
        | JObj _ =>
            do ok <- is_valid_for_version st v version;
            do (v', st1) <- rec st v;
            do (rest, st2) <- gvp_items rec version l' st1;
            Ok ((if ok then (key, v') :: rest else rest), st2)
        | JArr members =>
            do valid_list <- filter_valid st version members;
            do (rest, st2) <- gvp_items rec version l' st;
            Ok ((key, JArr valid_list) :: rest, st2)
        | _ =>
            do (rest, st2) <- gvp_items rec version l' st;
            Ok ((key, v) :: rest, st2)
        end
    end.

  (* Validator.get_versioned_properties(properties, version): [x] is the dict
     (plain or proxy); returns the dict after the call and the store after the
     in-place changes.  A proxy's subject lives in the store and is written
     back there; fuel = recursion depth (RecursionError when exceeded, which
     an acyclic schema store never does). *)
  Fixpoint get_versioned_properties (fuel : nat) (version : num) (st : store) (x : json)
    : res (json * store) :=
    match fuel with
    | O => Err PyRecursionError
    | S fuel' =>
        match ref_target x with
        | Some f =>
            match assoc f st with
            | Some c =>
                do (c', st') <- get_versioned_properties fuel' version st c;
                Ok (x, od_set f c' st')
            | None => Err PyIOError
            end
        | None =>
            match x with
            | JObj items =>
                do (items', st') <- gvp_items (get_versioned_properties fuel' version) version items st;
                Ok (JObj items', st')
            | _ => Err PyAttributeError
            end
        end
    end.

  (* number of nodes: an upper bound of every nesting depth *)
  Fixpoint jsize (j : json) : nat :=
    match j with
    | JArr l => S ((fix go (l : list json) : nat :=
                      match l with [] => O | x :: l' => (jsize x + go l')%nat end) l)
    | JObj l => S ((fix go (l : list (str * json)) : nat :=
                      match l with [] => O | (_, x) :: l' => (jsize x + go l')%nat end) l)
    | _ => 1%nat
    end.
  Definition store_size (st : store) : nat :=
    fold_right (fun kv n => (jsize (snd kv) + n)%nat) O st.
  Definition prune_fuel (e : entry) : nat := S (jsize (e_root e) + store_size (e_store e)).

  Definition cache_key (schema_name : str) (version : option vnum) : str :=
    match version with
    | Some v => schema_name ++ vnum_str v
    | None => schema_name
    end.

  (* Validator.get_expanded_schema: jsonref.load of the file, cached *)
  Definition get_expanded_schema (schema_name : str) (version : option vnum) (s : vstate)
    : res (entry * vstate) :=
    let key := cache_key schema_name version in
    match assoc key (expanded_schemas s) with
    | Some e => Ok (e, s)
    | None =>
        do fn <- get_schema_file schema_name;
        match assoc fn files with
        | Some root =>
            let e := mk_entry root files in
            Ok (e, mk_vstate (schemas s) (od_set key e (expanded_schemas s)))
        | None => Err PyIOError
        end
    end.

  Definition K_properties := Schema.K_properties.

  (* the pruning step of get_versioned_schema on one load *)
  Definition prune_entry (version : num) (e : entry) : res entry :=
    match e_root e with
    | JObj root_items =>
        match ref_target (e_root e) with
        | Some _ => Err PyValueError           (* a root that is itself a reference: not modelled *)
        | None =>
            match assoc K_properties root_items with
            | Some properties =>
                match subject (e_store e) properties with
                | JObj _ =>
                    do (properties', st') <-
                       get_versioned_properties (prune_fuel e) version (e_store e) properties;
                    Ok (mk_entry (JObj (od_set K_properties properties' root_items)) st')
                | _ => Err PyAttributeError
                end
            | None => Err PyKeyError
            end
        end
    | _ => Err PyTypeError
    end.

  (* Validator.get_versioned_schema: the cached object is pruned in place.
     The state is returned on failure too (the cache entry made by
     get_expanded_schema survives a KeyError on "properties"). *)
  Definition get_versioned_schema (version : option vnum) (schema_name : str) (s : vstate)
    : res entry * vstate :=
    match get_expanded_schema schema_name version s with
    | Err x => (Err x, s)
    | Ok (e, s1) =>
        match version with
        | Some v =>
            if vtruthy version then
              match prune_entry (vnum_num v) e with
              | Ok e' =>
                  (Ok e', mk_vstate (schemas s1)
                                    (od_set (cache_key schema_name version) e' (expanded_schemas s1)))
              | Err x => (Err x, s1)
              end
            else (Ok e, s1)
        | None => (Ok e, s1)
        end
    end.

  (* what a caller sees when it walks / serialises the returned object *)
  Definition entry_tree (e : entry) : json := expand (e_store e) (e_root e).

  (* ---------------------------------------------------------- lower-casing *)
  (* Validator.convert_lowercase *)
  Fixpoint convert_lowercase (x : value) : value :=
    match x with
    | VList l => VList (map convert_lowercase l)
    | VDict _ items =>
        VDict DPlain
              ((fix go (l : list (str * value)) (acc : list (str * value)) : list (str * value) :=
                  match l with
                  | [] => acc
                  | (k, v) :: l' => go l' (od_set (lower k) (convert_lowercase v) acc)
                  end) items [])
    | VStr s => VStr (lower s)
    | _ => x
    end.

  (* json.loads(json.dumps(x), object_pairs_hook=OrderedDict) *)
  Fixpoint to_json (x : value) : json :=
    match x with
    | VNone => JNull
    | VBool b => JBool b
    | VInt z => JInt z
    | VFloat m e => JFloat m e
    | VStr s => JStr s
    | VList l => JArr (map to_json l)
    | VDict _ items =>
        JObj ((fix go (l : list (str * value)) : list (str * json) :=
                 match l with
                 | [] => []
                 | (k, v) :: l' => (k, to_json v) :: go l'
                 end) items)
    end.

  (* ---------------------------------------------------------- messages *)
  (* d[key] on the ORIGINAL dictionary tree *)
  Definition getitem (d : value) (k : pelem) : res value :=
    match d, k with
    | VDict (DCI f) items, PKey key =>
        do (v, _) <- ci_getitem lower OBJECT_LIST_KEYS f key items; Ok v
    | VDict (DCI _) _, PIdx _ => Err PyAttributeError       (* int has no .lower() *)
    | VDict _ items, PKey key =>
        match assoc key items with Some v => Ok v | None => Err PyKeyError end
    | VDict _ _, PIdx _ => Err PyKeyError
    | VList l, PIdx i =>
        match nth_error l (N.to_nat i) with Some v => Ok v | None => Err PyIndexError end
    | VStr s, PIdx i =>
        match nth_error s (N.to_nat i) with Some c => Ok (VStr [c]) | None => Err PyIndexError end
    | _, _ => Err PyTypeError
    end.

  (* dictutils.findkey *)
  Fixpoint findkey (d : value) (keys : list pelem) : res value :=
    match keys with
    | [] => Ok d
    | k :: keys' => do v <- getitem d k; findkey v keys'
    end.

  Definition K_dtype := Str "__type__".
  Definition K_dposition := Str "__position__".

  (* "k in d" for the containers that occur *)
  Definition contains (d : value) (k : str) : res bool :=
    match d with
    | VDict (DCI _) items => Ok (od_mem (lower k) items)
    | VDict _ items => Ok (od_mem k items)
    | VList l => Ok (existsb (fun v => match v with VStr s => str_eqb s k | _ => false end) l)
    | VStr _ => Err PyAttributeError          (* substring test: not modelled, fail closed *)
    | _ => Err PyTypeError
    end.

  (* pd.get(k) *)
  Definition dict_get (pd : value) (k : str) : res value :=
    match pd with
    | VDict (DCI _) items => Ok (match assoc (lower k) items with Some v => v | None => VNone end)
    | VDict _ items => Ok (match assoc k items with Some v => v | None => VNone end)
    | _ => Err PyAttributeError
    end.

  Definition pelem_value (p : pelem) : value :=
    match p with PKey k => VStr k | PIdx i => VInt (Z.of_N i) end.

  Definition msg_prefix := Str "ERROR: Invalid value in ".

  (* idx = max(i for i, p in enumerate(path) if not isinstance(p, int)):
     the path before its last key, and that key (None: no key, max() of an
     empty sequence raises ValueError) *)
  Fixpoint last_key (path : list pelem) : option (list pelem * str) :=
    match path with
    | [] => None
    | x :: path' =>
        match last_key path' with
        | Some (pre, k) => Some (x :: pre, k)
        | None => match x with PKey k => Some ([], k) | PIdx _ => None end
        end
    end.

  Definition is_dict (v : value) : bool := match v with VDict _ _ => true | _ => false end.

  (* Validator.create_message (add_comments = False); the jsonschema message
     text is replaced by the error path and the validator keyword *)
  (* the integer that follows the LAST occurrence of [key] in the path, if any:
     scan the reversed path for the first element equal to the key, remembering
     the element seen just before (= the one that follows it in the path) *)
  Fixpoint occ_scan (key : str) (r : list pelem) (prev : option pelem) : option N :=
    match r with
    | [] => None
    | PKey k :: r' =>
        if str_eqb k key then match prev with Some (PIdx i) => Some i | _ => None end
        else occ_scan key r' (Some (PKey k))
    | PIdx i :: r' => occ_scan key r' (Some (PIdx i))
    end.
  Definition occurrence_after (key : str) (path : list pelem) : option N := occ_scan key (rev path) None.

  Fixpoint last_opt_v (l : list value) : option value :=
    match l with [] => None | [x] => Some x | _ :: l' => last_opt_v l' end.

  Definition create_message (rootdict : value) (e : verr) : res value :=
    let path := epath e in
    do dk <- match path with
             | [] =>
                 do key <- getitem rootdict (PKey K_dtype); Ok (rootdict, key)
             | _ =>
                 match last path (PIdx 0) with
                 | PIdx _ =>
                     do d <- findkey rootdict path;
                     if is_dict d then
                       (* the error is on an object in a list *)
                       do key <- getitem d (PKey K_dtype); Ok (d, key)
                     else
                       (* the error is on an item of a list-valued keyword *)
                       match last_key path with
                       | Some (pre, key) => do d' <- findkey rootdict pre; Ok (d', VStr key)
                       | None => Err PyValueError
                       end
                 | PKey key =>
                     do d <- findkey rootdict (removelast path); Ok (d, VStr key)
                 end
             end;
    let '(d, keyv) := dk in
    match keyv with
    | VStr key =>
        let error_message := msg_prefix ++ upper key in
        let base := [(Str "path", VList (map pelem_value path)); (Str "validator", VStr (ekw e));
                     (Str "message", VStr error_message)] in
        do haspos <- contains d K_dposition;
        if haspos then
          (* child = d.get(key) if path else None *)
          do child <- (if is_nil path then Ok VNone else dict_get d key);
          do child_pos <- (if is_dict child then contains child K_dposition else Ok false);
          do pd <- (if child_pos then getitem child (PKey K_dposition)
                    else
                      do posd <- getitem d (PKey K_dposition);
                      if is_nil path then Ok posd
                      else do has <- contains posd key;
                           if has then getitem posd (PKey key) else Ok posd);
          (* since the fix recorded in known_findings.json: a repeatable keyword (PROCESSING, FORMATOPTION, ...) or
             repeated POINTS has a LIST of position records, one per occurrence; the record of the occurrence the
             error path names is used (the first one when the path names none, the last one when out of range) *)
          do pd <- (match pd with
                    | VList l =>
                        let occ := match occurrence_after key path with Some i => N.to_nat i | None => O end in
                        match nth_error l occ with
                        | Some r => Ok r
                        | None => match last_opt_v l with Some r => Ok r | None => Err PyIndexError end
                        end
                    | _ => Ok pd
                    end);
          do line <- dict_get pd (Str "line");
          do column <- dict_get pd (Str "column");
          Ok (VDict DPlain (base ++ [(Str "line", line); (Str "column", column)]))
        else Ok (VDict DPlain base)
    | _ => Err PyAttributeError                (* key.upper() on a non-string *)
    end.

  (* Validator.get_error_messages *)
  Fixpoint get_error_messages (d : value) (errors : list verr) : res (list value) :=
    match errors with
    | [] => Ok []
    | e :: errors' =>
        do em <- create_message d e;
        do rest <- get_error_messages d errors';
        Ok (em :: rest)
    end.

  (* Validator._get_errors; [tree] is the schema the Draft4Validator was built on *)
  Definition _get_errors (tree : json) (d : value) : res (list value) :=
    let lowercase_dict := convert_lowercase d in
    let jsn := to_json lowercase_dict in
    get_error_messages d (ierr tree jsn).

  Fixpoint get_errors_list (tree : json) (ds : list value) : res (list value) :=
    match ds with
    | [] => Ok []
    | d :: ds' =>
        do m <- _get_errors tree d;
        do rest <- get_errors_list tree ds';
        Ok (m ++ rest)
    end.

  (* the schema tree validation runs on, and the state after building it *)
  Definition validator_tree (schema_name : str) (version : option vnum) (s : vstate)
    : res json * vstate :=
    if vtruthy version then
      match get_versioned_schema version schema_name s with
      | (Ok e, s1) => (Ok (entry_tree e), s1)
      | (Err x, s1) => (Err x, s1)
      end
    else
      (* get_schema_validator: raw root + a registry that reads the folder *)
      match get_json_from_file schema_name s with
      | Ok (root, s1) => (Ok (expand files root), s1)
      | Err x => (Err x, s)
      end.

  Definition run_validator (tree : json) (val : value) : res (list value) :=
    if wf_schema tree then
      match val with
      | VList ds => get_errors_list tree ds
      | _ => _get_errors tree val
      end
    else Err PyValueError.

  (* Validator.validate(value, add_comments=False, schema_name, version) *)
  Definition validate (val : value) (schema_name : str) (version : option vnum) (s : vstate)
    : res (list value) * vstate :=
    match validator_tree schema_name version s with
    | (Ok tree, s1) => (run_validator tree val, s1)
    | (Err x, s1) => (Err x, s1)
    end.

  (* ---------------------------------------------------------- one Validator object as a state machine *)
  Inductive call :=
  | CValidate (d : value) (schema_name : str) (version : option vnum)
  | CVersioned (version : option vnum) (schema_name : str)     (* get_versioned_schema *)
  | CExpanded (schema_name : str) (version : option vnum).     (* get_expanded_schema *)

  (* what the caller observes: the messages, or the returned schema object as
     it looks when walked at return time *)
  Inductive answer :=
  | AMsgs (r : res (list value))
  | ASchema (r : res json).

  Definition step (s : vstate) (c : call) : answer * vstate :=
    match c with
    | CValidate d name ver =>
        let '(r, s1) := validate d name ver s in (AMsgs r, s1)
    | CVersioned ver name =>
        match get_versioned_schema ver name s with
        | (Ok e, s1) => (ASchema (Ok (entry_tree e)), s1)
        | (Err x, s1) => (ASchema (Err x), s1)
        end
    | CExpanded name ver =>
        match get_expanded_schema name ver s with
        | Ok (e, s1) => (ASchema (Ok (entry_tree e)), s1)
        | Err x => (ASchema (Err x), s)
        end
    end.

  Fixpoint run (s : vstate) (cs : list call) : list answer :=
    match cs with
    | [] => []
    | c :: cs' => let '(a, s1) := step s c in a :: run s1 cs'
    end.

End Validator.
