(* Model of the third-party pieces the validator runs on (MODELLED, tied to the
   real libraries by the correspondence runners O-val / O-ver / O-rx only):

   - jsonref 1.1.0: an expanded schema is a root document plus a STORE
     file-name -> document whose {"$ref": "X.json"} objects stand for the one
     shared object of file X ([subject]); what a consumer that walks the proxy
     tree sees is [expand].
   - jsonschema 4.26 Draft4Validator.iter_errors on the keyword census of the
     schema files: [ierr] over the expanded tree, errors carrying the absolute
     instance path and the failing validator keyword, in jsonschema's order
     (schema dict order).  Keyword values outside the shapes the model knows
     make [wf_schema] false and the validator fails closed on them.
   - re.search for the handful of [pattern] / [patternProperties] regexes of
     the schema files: one dedicated recogniser per pattern string ([rx_table]).

   Definitions only. *)
From MF Require Import Lib.Base Lib.Json Lib.PyDict Model.SchemaStore.
Open Scope Z_scope.

(* ------------------------------------------------------------------ numbers *)
(* m * 10^e ; JSON / Python ints are (z, 0) *)
Definition num := (Z * Z)%type.

Definition ncmp (a b : num) : comparison :=
  let k := Z.min (snd a) (snd b) in
  Z.compare (fst a * 10 ^ (snd a - k)) (fst b * 10 ^ (snd b - k)).

Definition nltb (a b : num) : bool := match ncmp a b with Lt => true | _ => false end.
Definition nleb (a b : num) : bool := match ncmp a b with Gt => false | _ => true end.
Definition neqb (a b : num) : bool := match ncmp a b with Eq => true | _ => false end.

(* instance numbers: bool is not a number for jsonschema *)
Definition jnum (j : json) : option num :=
  match j with JInt z => Some (z, 0) | JFloat m e => Some (m, e) | _ => None end.

(* Python truthiness of a parsed JSON value *)
Definition truthy (j : json) : bool :=
  match j with
  | JNull => false
  | JBool b => b
  | JInt z => negb (z =? 0)
  | JFloat m _ => negb (m =? 0)
  | JStr s => match s with [] => false | _ => true end
  | JArr l => match l with [] => false | _ => true end
  | JObj l => match l with [] => false | _ => true end
  end.

(* ------------------------------------------------------------------ store *)
Definition store := list (str * json).

(* {"$ref": "<file>"} with a string target is what jsonref turns into a proxy *)
Definition ref_target (j : json) : option str :=
  match jget ref_key j with Some (JStr f) => Some f | _ => None end.

(* the object a proxy stands for (chains of proxies are followed) *)
Fixpoint subject_n (n : nat) (st : store) (j : json) : json :=
  match n with
  | O => j
  | S n' => match ref_target j with
            | Some f => match assoc f st with Some t => subject_n n' st t | None => j end
            | None => j
            end
  end.
Definition subject (st : store) (j : json) : json := subject_n (S (length st)) st j.

(* the tree seen by walking the proxies: every reference replaced by the
   (expanded) content of its file; siblings of "$ref" are dropped.  The fuel is
   the length of a chain of nested files. *)
Fixpoint expand_n (n : nat) (st : store) (j : json) {struct n} : json :=
  match n with
  | O => j
  | S n' =>
      (fix go (j : json) : json :=
         match j with
         | JObj l =>
             match ref_target j with
             | Some f => match assoc f st with Some t => expand_n n' st t | None => j end
             | None => JObj ((fix gol (l : list (str * json)) : list (str * json) :=
                                match l with
                                | [] => []
                                | (k, x) :: l' => (k, go x) :: gol l'
                                end) l)
             end
         | JArr l => JArr ((fix gol (l : list json) : list json :=
                              match l with
                              | [] => []
                              | x :: l' => go x :: gol l'
                              end) l)
         | _ => j
         end) j
  end.
Definition expand (st : store) (j : json) : json := expand_n (S (length st)) st j.

(* ------------------------------------------------------------------ patterns *)
Definition NL : N := 10%N.

Definition is_hex (c : N) : bool :=
  ((48 <=? c) && (c <=? 57) || (65 <=? c) && (c <=? 70) || (97 <=? c) && (c <=? 102))%N.
Definition is_digit (c : N) : bool := ((48 <=? c) && (c <=? 57))%N.
Definition is_az (c : N) : bool := ((97 <=? c) && (c <=? 122))%N.

(* "$" without MULTILINE matches at the end and before a final newline *)
Definition strip_final_nl (s : str) : list str :=
  match rev s with
  | c :: r => if (c =? NL)%N then [s; rev r] else [s]
  | [] => [s]
  end.
Definition at_end (p : str -> bool) (s : str) : bool := existsb p (strip_final_nl s).

Definition no_nl (s : str) : bool := forallb (fun c => negb (c =? NL)%N) s.

(* ^ open (.*?) close $ *)
Definition delimited (o c : N) (s : str) : bool :=
  match s with
  | x :: r => (x =? o)%N &&
              match rev r with
              | y :: mid => (y =? c)%N && no_nl mid
              | [] => false
              end
  | [] => false
  end.

Definition literal (lit : str) (s : str) : bool := str_eqb s lit.

(* ^&#[0-9]+;$ *)
Definition entity (s : str) : bool :=
  match s with
  | 38%N :: 35%N :: r =>
      match rev r with
      | 59%N :: ds => match ds with [] => false | _ => forallb is_digit ds end
      | _ => false
      end
  | _ => false
  end.

(* '#' followed by a number of hex digits among [lens] *)
Definition hex_body (lens : list nat) (s : str) : bool :=
  match s with
  | 35%N :: r => forallb is_hex r && existsb (Nat.eqb (length r)) lens
  | _ => false
  end.

Definition quoted_hex (q : N) (s : str) : bool :=
  match s with
  | x :: r => (x =? q)%N &&
              match rev r with
              | y :: mid => (y =? q)%N && hex_body [6%nat; 3%nat] (rev mid)
              | [] => false
              end
  | [] => false
  end.

(* ^__[a-z]+__$ *)
Definition hidden_key (s : str) : bool :=
  match s with
  | 95%N :: 95%N :: r =>
      match rev r with
      | 95%N :: 95%N :: mid => match mid with [] => false | _ => forallb is_az mid end
      | _ => false
      end
  | _ => false
  end.

Definition rx_table : list (str * (str -> bool)) :=
  [ (Str "^\((.*?)\)$", at_end (delimited 40 41));
    (Str "^\[(.*?)\]$", at_end (delimited 91 93));
    (Str "^/(.*?)/$", at_end (delimited 47 47));
    (Str "^rectangle$", at_end (literal (Str "rectangle")));
    (Str "^ellipse$", at_end (literal (Str "ellipse")));
    (Str "^&#[0-9]+;$", at_end entity);
    (Str "^#([a-fA-F0-9]{6,8}|[a-fA-F0-9]{3,4})$", at_end (hex_body [3%nat; 4%nat; 6%nat; 7%nat; 8%nat]));
    (Str "^'#([a-fA-F0-9]{6}|[a-fA-F0-9]{3})'$", at_end (quoted_hex 39));
    ([94; 34; 35; 40; 91; 97; 45; 102; 65; 45; 70; 48; 45; 57; 93; 123; 54; 125; 124; 91; 97; 45; 102;
      65; 45; 70; 48; 45; 57; 93; 123; 51; 125; 41; 34; 36]%N, at_end (quoted_hex 34));
    (Str "^__[a-z]+__$", at_end hidden_key) ].

Definition rx_lookup (p : str) : option (str -> bool) := assoc p rx_table.
Definition rx_known (p : str) : bool := match rx_lookup p with Some _ => true | None => false end.
(* re.search p s ; unknown patterns are excluded by [wf_schema] *)
Definition rx_search (p s : str) : bool :=
  match rx_lookup p with Some f => f s | None => false end.

(* ------------------------------------------------------------------ errors *)
Inductive pelem := PKey (k : str) | PIdx (i : N).
Record verr := mk_verr { epath : list pelem; ekw : str }.
Definition push (p : pelem) (e : verr) : verr := mk_verr (p :: epath e) (ekw e).
Definition here (kw : str) : list verr := [mk_verr [] kw].

Definition is_nil {A} (l : list A) : bool := match l with [] => true | _ => false end.

(* keyword names *)
Definition K_type := Str "type".
Definition K_enum := Str "enum".
Definition K_items := Str "items".
Definition K_minimum := Str "minimum".
Definition K_maximum := Str "maximum".
Definition K_exclusiveMinimum := Str "exclusiveMinimum".
Definition K_exclusiveMaximum := Str "exclusiveMaximum".
Definition K_minItems := Str "minItems".
Definition K_maxItems := Str "maxItems".
Definition K_minLength := Str "minLength".
Definition K_maxLength := Str "maxLength".
Definition K_pattern := Str "pattern".
Definition K_properties := Str "properties".
Definition K_patternProperties := Str "patternProperties".
Definition K_additionalProperties := Str "additionalProperties".
Definition K_required := Str "required".
Definition K_oneOf := Str "oneOf".
Definition K_anyOf := Str "anyOf".
Definition K_allOf := Str "allOf".
Definition K_not := Str "not".

(* validator keywords of Draft4Validator.VALIDATORS the model does not cover:
   a schema using one is not well-formed for the model (fail closed) *)
Definition unsupported_keywords : list str :=
  [Str "additionalItems"; Str "dependencies"; Str "maxProperties"; Str "minProperties";
   Str "multipleOf"; Str "uniqueItems"; Str "$ref"].

(* jsonschema draft-4 type checker *)
Definition type_names : list str :=
  [Str "array"; Str "boolean"; Str "integer"; Str "null"; Str "number"; Str "object"; Str "string"].

Definition is_type (t : str) (j : json) : bool :=
  if str_eqb t (Str "array") then match j with JArr _ => true | _ => false end
  else if str_eqb t (Str "boolean") then match j with JBool _ => true | _ => false end
  else if str_eqb t (Str "integer") then match j with JInt _ => true | _ => false end
  else if str_eqb t (Str "null") then match j with JNull => true | _ => false end
  else if str_eqb t (Str "number") then match j with JInt _ | JFloat _ _ => true | _ => false end
  else if str_eqb t (Str "object") then match j with JObj _ => true | _ => false end
  else if str_eqb t (Str "string") then match j with JStr _ => true | _ => false end
  else false.

(* ensure_list(types) *)
Definition type_list (v : json) : list str :=
  match v with
  | JStr t => [t]
  | JArr l => flat_map (fun x => match x with JStr t => [t] | _ => [] end) l
  | _ => []
  end.

(* _utils.equal on scalars (enum members of well-formed schemas are scalars):
   strings only equal strings, booleans only booleans, 1 == 1.0 *)
Definition jequal (a b : json) : bool :=
  match a, b with
  | JStr x, JStr y => str_eqb x y
  | JBool x, JBool y => Bool.eqb x y
  | JNull, JNull => true
  | JInt _, (JInt _ | JFloat _ _) | JFloat _ _, (JInt _ | JFloat _ _) =>
      match jnum a, jnum b with Some x, Some y => neqb x y | _, _ => false end
  | _, _ => false
  end.

Definition is_scalar (j : json) : bool :=
  match j with JArr _ | JObj _ => false | _ => true end.

(* find_additional_properties: instance items not named in "properties" and not
   matched by any "patternProperties" regex *)
Definition find_additional (kws : list (str * json)) (inst : list (str * json)) : list (str * json) :=
  let props := match assoc K_properties kws with Some (JObj p) => p | _ => [] end in
  let pats := match assoc K_patternProperties kws with Some (JObj p) => keys p | _ => [] end in
  filter (fun kx => negb (od_mem (fst kx) props) && negb (existsb (fun p => rx_search p (fst kx)) pats)) inst.

(* oneOf as jsonschema runs it, on the validity flags of the alternatives:
   find the first valid one, then look for another among the rest *)
Fixpoint oneof_ok (valid : list bool) : bool :=
  match valid with
  | [] => false
  | true :: rest => negb (existsb (fun b => b) rest)
  | false :: rest => oneof_ok rest
  end.

(* keywords without sub-schemas *)
Definition leaf_errs (k : str) (v : json) (kws : list (str * json)) (j : json) : list verr :=
  if str_eqb k K_type then
    if existsb (fun t => is_type t j) (type_list v) then [] else here K_type
  else if str_eqb k K_enum then
    match v with
    | JArr ms => if existsb (fun m => jequal m j) ms then [] else here K_enum
    | _ => []
    end
  else if str_eqb k K_minimum then
    match jnum j, jnum v with
    | Some x, Some m =>
        let excl := match assoc K_exclusiveMinimum kws with Some e => truthy e | None => false end in
        if (if excl then nleb x m else nltb x m) then here K_minimum else []
    | _, _ => []
    end
  else if str_eqb k K_maximum then
    match jnum j, jnum v with
    | Some x, Some m =>
        let excl := match assoc K_exclusiveMaximum kws with Some e => truthy e | None => false end in
        if (if excl then nleb m x else nltb m x) then here K_maximum else []
    | _, _ => []
    end
  else if str_eqb k K_minItems then
    match j, v with
    | JArr xs, JInt n => if Z.of_nat (length xs) <? n then here K_minItems else []
    | _, _ => []
    end
  else if str_eqb k K_maxItems then
    match j, v with
    | JArr xs, JInt n => if n <? Z.of_nat (length xs) then here K_maxItems else []
    | _, _ => []
    end
  else if str_eqb k K_minLength then
    match j, v with
    | JStr s, JInt n => if Z.of_nat (length s) <? n then here K_minLength else []
    | _, _ => []
    end
  else if str_eqb k K_maxLength then
    match j, v with
    | JStr s, JInt n => if n <? Z.of_nat (length s) then here K_maxLength else []
    | _, _ => []
    end
  else if str_eqb k K_pattern then
    match j, v with
    | JStr s, JStr p => if rx_search p s then [] else here K_pattern
    | _, _ => []
    end
  else if str_eqb k K_required then
    match j, v with
    | JObj inst, JArr req =>
        flat_map (fun r => match r with
                           | JStr p => if od_mem p inst then [] else here K_required
                           | _ => []
                           end) req
    | _, _ => []
    end
  else if str_eqb k K_additionalProperties then
    match j, v with
    | JObj inst, JBool false =>
        if is_nil (find_additional kws inst) then [] else here K_additionalProperties
    | _, _ => []
    end
  else [].

(* The behaviour of each keyword, given the validator [rec] for sub-schemas.
   [ierr] below is the same text with [rec] := itself (Coq's termination check
   wants the recursive calls written in place); Proofs/C07.v proves the two
   equal by [reflexivity]. *)
Section Keywords.
  Variable rec : json -> json -> list verr.

  Definition props_errs (props inst : list (str * json)) : list verr :=
    (fix ploop (ps : list (str * json)) : list verr :=
       match ps with
       | [] => []
       | (pk, sub) :: ps' =>
           match assoc pk inst with
           | Some x => map (push (PKey pk)) (rec sub x)
           | None => []
           end ++ ploop ps'
       end) props.

  Definition pprops_errs (pps inst : list (str * json)) : list verr :=
    (fix pploop (ps : list (str * json)) : list verr :=
       match ps with
       | [] => []
       | (pat, sub) :: ps' =>
           (fix mloop (ms : list (str * json)) : list verr :=
              match ms with
              | [] => []
              | (mk, x) :: ms' =>
                  (if rx_search pat mk then map (push (PKey mk)) (rec sub x) else []) ++ mloop ms'
              end) inst
           ++ pploop ps'
       end) pps.

  Definition addl_errs (v : json) (extras : list (str * json)) : list verr :=
    (fix eloop (ms : list (str * json)) : list verr :=
       match ms with
       | [] => []
       | (mk, x) :: ms' => map (push (PKey mk)) (rec v x) ++ eloop ms'
       end) extras.

  Definition items_errs (v : json) (xs : list json) : list verr :=
    (fix iloop (xs : list json) (i : N) : list verr :=
       match xs with
       | [] => []
       | x :: xs' => map (push (PIdx i)) (rec v x) ++ iloop xs' (N.succ i)
       end) xs 0%N.

  Definition tuple_errs (subs xs : list json) : list verr :=
    (fix zloop (subs : list json) (xs : list json) (i : N) : list verr :=
       match subs, xs with
       | sub :: subs', x :: xs' => map (push (PIdx i)) (rec sub x) ++ zloop subs' xs' (N.succ i)
       | _, _ => []
       end) subs xs 0%N.

  Definition allof_errs (subs : list json) (j : json) : list verr :=
    (fix aloop (subs : list json) : list verr :=
       match subs with
       | [] => []
       | sub :: subs' => rec sub j ++ aloop subs'
       end) subs.

  Definition any_valid (subs : list json) (j : json) : bool :=
    (fix anyl (subs : list json) : bool :=
       match subs with
       | [] => false
       | sub :: subs' => if is_nil (rec sub j) then true else anyl subs'
       end) subs.

  Definition valid_flags (subs : list json) (j : json) : list bool :=
    (fix vl (subs : list json) : list bool :=
       match subs with
       | [] => []
       | sub :: subs' => is_nil (rec sub j) :: vl subs'
       end) subs.

  Definition kw_errs (k : str) (v : json) (kws : list (str * json)) (j : json) : list verr :=
    if str_eqb k K_properties then
      match v, j with
      | JObj props, JObj inst => props_errs props inst
      | _, _ => []
      end
    else if str_eqb k K_patternProperties then
      match v, j with
      | JObj pps, JObj inst => pprops_errs pps inst
      | _, _ => []
      end
    else if str_eqb k K_additionalProperties then
      match v, j with
      | JObj _, JObj inst => (fun extras => addl_errs v extras) (find_additional kws inst)
      | _, _ => leaf_errs k v kws j
      end
    else if str_eqb k K_items then
      match v, j with
      | JObj _, JArr xs => items_errs v xs
      | JArr subs, JArr xs => tuple_errs subs xs
      | _, _ => []
      end
    else if str_eqb k K_allOf then
      match v with
      | JArr subs => allof_errs subs j
      | _ => []
      end
    else if str_eqb k K_anyOf then
      match v with
      | JArr subs => if any_valid subs j then [] else here K_anyOf
      | _ => []
      end
    else if str_eqb k K_oneOf then
      match v with
      | JArr subs => if oneof_ok (valid_flags subs j) then [] else here K_oneOf
      | _ => []
      end
    else if str_eqb k K_not then
      (if is_nil (rec v j) then here K_not else [])
    else leaf_errs k v kws j.
End Keywords.

(* Draft4Validator.iter_errors on a reference-free schema tree: the keywords
   of the schema object in dict order, each contributing its errors *)
Fixpoint ierr (s : json) (j : json) {struct s} : list verr :=
  match s with
  | JObj kws =>
      (fix loop (l : list (str * json)) : list verr :=
         match l with
         | [] => []
         | (k, v) :: l' =>
             (if str_eqb k K_properties then
      match v, j with
      | JObj props, JObj inst => (fix ploop (ps : list (str * json)) : list verr :=
       match ps with
       | [] => []
       | (pk, sub) :: ps' =>
           match assoc pk inst with
           | Some x => map (push (PKey pk)) (ierr sub x)
           | None => []
           end ++ ploop ps'
       end) props
      | _, _ => []
      end
    else if str_eqb k K_patternProperties then
      match v, j with
      | JObj pps, JObj inst => (fix pploop (ps : list (str * json)) : list verr :=
       match ps with
       | [] => []
       | (pat, sub) :: ps' =>
           (fix mloop (ms : list (str * json)) : list verr :=
              match ms with
              | [] => []
              | (mk, x) :: ms' =>
                  (if rx_search pat mk then map (push (PKey mk)) (ierr sub x) else []) ++ mloop ms'
              end) inst
           ++ pploop ps'
       end) pps
      | _, _ => []
      end
    else if str_eqb k K_additionalProperties then
      match v, j with
      | JObj _, JObj inst => (fun extras => (fix eloop (ms : list (str * json)) : list verr :=
       match ms with
       | [] => []
       | (mk, x) :: ms' => map (push (PKey mk)) (ierr v x) ++ eloop ms'
       end) extras) (find_additional kws inst)
      | _, _ => leaf_errs k v kws j
      end
    else if str_eqb k K_items then
      match v, j with
      | JObj _, JArr xs => (fix iloop (xs : list json) (i : N) : list verr :=
       match xs with
       | [] => []
       | x :: xs' => map (push (PIdx i)) (ierr v x) ++ iloop xs' (N.succ i)
       end) xs 0%N
      | JArr subs, JArr xs => (fix zloop (subs : list json) (xs : list json) (i : N) : list verr :=
       match subs, xs with
       | sub :: subs', x :: xs' => map (push (PIdx i)) (ierr sub x) ++ zloop subs' xs' (N.succ i)
       | _, _ => []
       end) subs xs 0%N
      | _, _ => []
      end
    else if str_eqb k K_allOf then
      match v with
      | JArr subs => (fix aloop (subs : list json) : list verr :=
       match subs with
       | [] => []
       | sub :: subs' => ierr sub j ++ aloop subs'
       end) subs
      | _ => []
      end
    else if str_eqb k K_anyOf then
      match v with
      | JArr subs => if (fix anyl (subs : list json) : bool :=
       match subs with
       | [] => false
       | sub :: subs' => if is_nil (ierr sub j) then true else anyl subs'
       end) subs then [] else here K_anyOf
      | _ => []
      end
    else if str_eqb k K_oneOf then
      match v with
      | JArr subs => if oneof_ok ((fix vl (subs : list json) : list bool :=
       match subs with
       | [] => []
       | sub :: subs' => is_nil (ierr sub j) :: vl subs'
       end) subs) then [] else here K_oneOf
      | _ => []
      end
    else if str_eqb k K_not then
      (if is_nil (ierr v j) then here K_not else [])
    else leaf_errs k v kws j)
             ++ loop l'
         end) kws
  | _ => []
  end.

(* ------------------------------------------------------------------ wf *)
Definition is_jint (j : json) : bool := match j with JInt _ => true | _ => false end.
Definition is_jbool (j : json) : bool := match j with JBool _ => true | _ => false end.
Definition is_jnumber (j : json) : bool := match jnum j with Some _ => true | None => false end.
Definition is_jstr (j : json) : bool := match j with JStr _ => true | _ => false end.

(* keyword values of the shapes the model (and Draft 4) give a meaning to *)
Definition leaf_wf (k : str) (v : json) (kws : list (str * json)) : bool :=
  if str_eqb k K_type then
    match v with
    | JStr t => mem_str t type_names
    | JArr l => forallb (fun x => match x with JStr t => mem_str t type_names | _ => false end) l
    | _ => false
    end
  else if str_eqb k K_enum then
    match v with JArr ms => forallb is_scalar ms | _ => false end
  else if str_eqb k K_minimum then
    is_jnumber v && match assoc K_exclusiveMinimum kws with Some e => is_jbool e | None => true end
  else if str_eqb k K_maximum then
    is_jnumber v && match assoc K_exclusiveMaximum kws with Some e => is_jbool e | None => true end
  else if str_eqb k K_minItems then is_jint v
  else if str_eqb k K_maxItems then is_jint v
  else if str_eqb k K_minLength then is_jint v
  else if str_eqb k K_maxLength then is_jint v
  else if str_eqb k K_pattern then match v with JStr p => rx_known p | _ => false end
  else if str_eqb k K_required then match v with JArr l => forallb is_jstr l | _ => false end
  else negb (mem_str k unsupported_keywords).

Section KeywordsWf.
  Variable rec : json -> bool.
  Definition all_wf (subs : list json) : bool :=
    (fix sloop (subs : list json) : bool :=
       match subs with
       | [] => true
       | sub :: subs' => rec sub && sloop subs'
       end) subs.
  Definition props_wf (props : list (str * json)) : bool :=
    (fix ploop (ps : list (str * json)) : bool :=
       match ps with
       | [] => true
       | (_, sub) :: ps' => rec sub && ploop ps'
       end) props.
  Definition pprops_wf (pps : list (str * json)) : bool :=
    (fix ploop (ps : list (str * json)) : bool :=
       match ps with
       | [] => true
       | (pat, sub) :: ps' => rx_known pat && rec sub && ploop ps'
       end) pps.
  Definition kw_wf (k : str) (v : json) (kws : list (str * json)) : bool :=
    if str_eqb k K_properties then
      match v with
      | JObj props => props_wf props
      | _ => false
      end
    else if str_eqb k K_patternProperties then
      match v with
      | JObj pps => pprops_wf pps
      | _ => false
      end
    else if str_eqb k K_additionalProperties then
      match v with
      | JObj _ => rec v
      | JBool _ => true
      | _ => false
      end
    else if str_eqb k K_items then
      match v with
      | JObj _ => rec v
      | JArr subs => all_wf subs
      | _ => false
      end
    else if str_eqb k K_allOf || str_eqb k K_anyOf || str_eqb k K_oneOf then
      match v with
      | JArr subs => all_wf subs
      | _ => false
      end
    else if str_eqb k K_not then rec v
    else leaf_wf k v kws.
End KeywordsWf.

(* a schema tree whose keyword values have the shapes the model gives a meaning
   to (same text as [kw_wf] with [rec] := itself) *)
Fixpoint wf_schema (s : json) : bool :=
  match s with
  | JObj kws =>
      (fix loop (l : list (str * json)) : bool :=
         match l with
         | [] => true
         | (k, v) :: l' =>
             (if str_eqb k K_properties then
      match v with
      | JObj props => (fix ploop (ps : list (str * json)) : bool :=
       match ps with
       | [] => true
       | (_, sub) :: ps' => wf_schema sub && ploop ps'
       end) props
      | _ => false
      end
    else if str_eqb k K_patternProperties then
      match v with
      | JObj pps => (fix ploop (ps : list (str * json)) : bool :=
       match ps with
       | [] => true
       | (pat, sub) :: ps' => rx_known pat && wf_schema sub && ploop ps'
       end) pps
      | _ => false
      end
    else if str_eqb k K_additionalProperties then
      match v with
      | JObj _ => wf_schema v
      | JBool _ => true
      | _ => false
      end
    else if str_eqb k K_items then
      match v with
      | JObj _ => wf_schema v
      | JArr subs => (fix sloop (subs : list json) : bool :=
       match subs with
       | [] => true
       | sub :: subs' => wf_schema sub && sloop subs'
       end) subs
      | _ => false
      end
    else if str_eqb k K_allOf || str_eqb k K_anyOf || str_eqb k K_oneOf then
      match v with
      | JArr subs => (fix sloop (subs : list json) : bool :=
       match subs with
       | [] => true
       | sub :: subs' => wf_schema sub && sloop subs'
       end) subs
      | _ => false
      end
    else if str_eqb k K_not then wf_schema v
    else leaf_wf k v kws)
             && loop l'
         end) kws
  | _ => false
  end.

(* what Draft4Validator(schema = proxy tree over [st]).iter_errors(j) yields *)
Definition iter_errors (st : store) (root : json) (j : json) : res (list verr) :=
  let t := expand st root in
  if wf_schema t then Ok (ierr t j) else Err PyValueError.
