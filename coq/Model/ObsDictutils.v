(* Observation points for the dictutils component (O-du): decode a case, run
   the model of mappyfile/dictutils.py, encode result and arguments afterwards. *)
From MF Require Import Lib.Base Lib.PyDict Lib.Codec Gen.Tokens Model.Case Model.OrderedDict
  Model.DictUtils.
Open Scope Z_scope.

Definition enc_res (r : res value) : toks :=
  match r with
  | Ok v => 0 :: enc_value v
  | Err e => [1; exn_code e]
  end.

Definition dec_pelt (t : toks) : option (pelt * toks) :=
  match t with
  | 0 :: r => match dec_str r with Some (k, r') => Some (PKey k, r') | None => None end
  | 1 :: i :: r => Some (PIdx i, r)
  | _ => None
  end.

(* payload: overwrite, d1, d2 *)
Definition obs_update (t : toks) : toks :=
  match dec_bool t with
  | Some (ow, t1) =>
      match dec_pair dec_val dec_val t1 with
      | Some ((d1, d2), _) => enc_res (update lower ow d2 d1)
      | None => bad_input
      end
  | None => bad_input
  end.

(* payload: lst (a list value), key, value; output: lst afterwards, result *)
Definition obs_find (t : toks) : toks :=
  match dec_pair dec_val (dec_pair dec_str dec_val) t with
  | Some ((VList lst, (key, want)), _) =>
      let '(lst', r) := find lower OBJECT_LIST_KEYS lst key want in
      enc_value (VList lst') ++ enc_res r
  | _ => bad_input
  end.

Definition obs_findall (t : toks) : toks :=
  match dec_pair dec_val (dec_pair dec_str dec_val) t with
  | Some ((VList lst, (key, want)), _) =>
      let '(lst', r) := findall lower OBJECT_LIST_KEYS lst key want in
      enc_value (VList lst') ++ enc_res (match r with Ok l => Ok (VList l) | Err e => Err e end)
  | _ => bad_input
  end.

Definition obs_findunique (t : toks) : toks :=
  match dec_pair dec_val dec_str t with
  | Some ((VList lst, key), _) =>
      enc_res (match findunique lower lst key with Ok l => Ok (VList l) | Err e => Err e end)
  | _ => bad_input
  end.

(* payload: d, path; output: d afterwards, result *)
Definition obs_findkey (t : toks) : toks :=
  match dec_pair dec_val (dec_list dec_pelt) t with
  | Some ((d, path), _) =>
      let '(d', r) := findkey lower OBJECT_LIST_KEYS d path in
      enc_value d' ++ enc_res r
  | None => bad_input
  end.
