(* Types of the data the grammar translator emits (Gen/Grammar.v) and of
   tokens / parse trees.  Symbols are numbered: terminals first (ids as in
   [g_term_names]), then non-terminals. *)
From MF Require Import Lib.Base Lib.Regex.
Open Scope N_scope.

Record token := mk_token {
  ttype : N; tval : str;
  tpos : N; tline : N; tcol : N;
  tend_line : N; tend_col : N; tend_pos : N }.

(* Lark's Meta as far as mappyfile reads it (lines only; columns and offsets
   are propagated the same way and are not read by mappyfile) *)
Record meta := mk_meta {
  m_empty : bool;
  m_line : option N; m_end_line : option N;
  m_cline : option N; m_cend_line : option N;
  m_comments : option (list str) }.

Definition meta0 : meta := mk_meta true None None None None None.

Inductive tree :=
| Tok (t : token)
| Node (data : N) (children : list tree) (m : meta).   (* data: index into g_callback_names *)

Inductive action := Shift (s : N) | Reduce (r : N).

Record lexer_info := mk_lexer {
  lx_terms : list (N * rx);                   (* scanner alternatives, in Lark's order *)
  lx_unless : list (N * list (rx * N));       (* regex terminal -> (keyword pattern, new type) *)
  lx_ignore : list N;
  lx_newline : list N }.

Record rule_info := mk_rule {
  r_origin : N;                               (* non-terminal symbol id *)
  r_expansion : list N;                       (* symbol ids *)
  r_name : N;                                 (* callback / tree name: index into g_callback_names *)
  r_expand1 : bool;                           (* ?rule without alias *)
  r_filter : option (list (nat * bool)) }.    (* kept child indices, inline flag *)

Record grammar := mk_grammar {
  g_term_names : list str;
  g_nonterm_names : list str;
  g_callback_names : list str;
  g_lexers : list lexer_info;
  g_lexer_of_state : list N;
  g_root_lexer : lexer_info;
  g_comment_types : list N;                   (* COMMENT, CCOMMENT *)
  g_rules : list rule_info;
  g_table : list (list (N * action));         (* per state: symbol id -> action *)
  g_start : N; g_end : N;
  g_end_term : N }.                           (* id of $END *)

Definition nth_N {A} (l : list A) (n : N) : option A := nth_error l (N.to_nat n).

Fixpoint assocN {A} (k : N) (l : list (N * A)) : option A :=
  match l with
  | [] => None
  | (k', v) :: l' => if k =? k' then Some v else assocN k l'
  end.

Fixpoint memN (k : N) (l : list N) : bool :=
  match l with [] => false | x :: l' => (k =? x) || memN k l' end.
