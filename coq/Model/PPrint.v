(* mappyfile/pprint.py (class PrettyPrinter), function by function.
   Definitions only.  Python partiality is explicit (res).  The composite
   passed to pprint is mutated in place by separate_complex; the model returns
   the (possibly reordered) value next to the lines.

   Conventions
   - tuples are lists (Lib/Base.v); DPlain is the builtin dict (no move_to_end:
     separate_complex raises AttributeError on it as soon as a key has to move);
   - dict accesses follow the class: DCI folds the key for in/get/[]; DDef folds
     only for [] (DefaultOrderedDict.__getitem__); DPlain never folds;
   - a missing key read through [] on a dict with a default factory is
     auto-created in Python; the model returns the created value and does not
     record the mutation (the printer only indexes keys it has just seen);
   - _format is structurally recursive: the result of every item is computed
     first (it depends on the key, the value and the level only), then the
     items are reordered by separate_complex, then the results are collected in
     the new order (same lines, same first exception as the Python loop). *)
From MF Require Import Lib.Base Lib.PyDict Lib.Json Gen.Tokens Gen.Schemas
  Model.Case Model.SchemaStore Model.Quoter.
Open Scope nat_scope.

Record opts := mk_opts {
  indent : nat;
  spacer : str;
  quote : N;
  newlinechar : str;
  end_comment : bool;
  align_values : bool;
  separate_complex_types : bool }.

(* defaults of PrettyPrinter.__init__ and mappyfile.dumps *)
Definition default_opts : opts := mk_opts 4 (Str " ") 34%N (Str (String.String (Ascii.ascii_of_nat 10) String.EmptyString)) false false false.

(* ---------------------------------------------------------- Python helpers *)
Definition has_factory (c : dcls) : bool :=
  match c with DDef f | DCI f => f | DPlain => false end.

(* key used by "in" and .get *)
Definition kfold_in (c : dcls) (k : str) : str := match c with DCI _ => lower k | _ => k end.
(* key used by d[k] *)
Definition kfold_item (c : dcls) (k : str) : str := match c with DPlain => k | _ => lower k end.

Definition dict_in {A} (c : dcls) (k : str) (items : list (str * A)) : bool := od_mem (kfold_in c k) items.

Definition dict_get (c : dcls) (k : str) (items : list (str * value)) (dflt : value) : value :=
  match assoc (kfold_in c k) items with Some v => v | None => dflt end.

Definition autocreated (k : str) : value :=
  if mem_str k OBJECT_LIST_KEYS then VList [] else VDict (DCI false) [].

Definition dict_getitem_g {A} (valof : A -> value) (c : dcls) (k : str) (items : list (str * A)) : res value :=
  match assoc (kfold_item c k) items with
  | Some a => Ok (valof a)
  | None => if has_factory c then Ok (autocreated (kfold_item c k)) else Err PyKeyError
  end.

Definition dict_getitem (c : dcls) (k : str) (items : list (str * value)) : res value :=
  dict_getitem_g (fun v => v) c k items.

(* key in x, for an arbitrary object x *)
Definition val_contains (x : value) (key : str) : res bool :=
  match x with
  | VDict c items => Ok (dict_in c key items)
  | VList l => Ok (existsb (value_eqb (VStr key)) l)
  | VStr s => Ok (str_contains key s)
  | _ => Err PyTypeError
  end.

(* x[key] with a string key *)
Definition val_getitem (x : value) (key : str) : res value :=
  match x with
  | VDict c items => dict_getitem c key items
  | _ => Err PyTypeError
  end.

(* for v in x *)
Definition py_iter (x : value) : res (list value) :=
  match x with
  | VList l => Ok l
  | VStr s => Ok (map (fun c => VStr [c]) s)
  | VDict _ items => Ok (map (fun kv => VStr (fst kv)) items)
  | _ => Err PyTypeError
  end.

(* x[n] with an integer n >= 0 *)
Definition py_index (x : value) (n : nat) : res value :=
  match x with
  | VList l => match nth_error l n with Some v => Ok v | None => Err PyIndexError end
  | VStr s => match nth_error s n with Some c => Ok (VStr [c]) | None => Err PyIndexError end
  | VDict DPlain _ => Err PyKeyError
  | VDict _ _ => Err PyAttributeError     (* DefaultOrderedDict.__getitem__: key.lower() *)
  | _ => Err PyTypeError
  end.

Definition truthy (v : value) : bool :=
  match v with
  | VNone => false
  | VBool b => b
  | VInt z => negb (Z.eqb z 0)
  | VFloat m _ => negb (Z.eqb m 0)
  | VStr s => match s with [] => false | _ => true end
  | VList l => match l with [] => false | _ => true end
  | VDict _ items => match items with [] => false | _ => true end
  end.

Section MapM.
  Context {A B : Type} (f : A -> res B).
  Fixpoint mapM (l : list A) : res (list B) :=
    match l with
    | [] => Ok []
    | x :: l' => do y <- f x; do ys <- mapM l'; Ok (y :: ys)
    end.
End MapM.

(* sep.join(l): every element must be a str *)
Fixpoint join_values (sep : str) (l : list value) : res str :=
  match l with
  | [] => Ok []
  | [VStr s] => Ok s
  | VStr s :: l' => do r <- join_values sep l'; Ok (s ++ sep ++ r)
  | _ :: _ => Err PyTypeError
  end.

(* ---------------------------------------------------------- the printer *)
Section Printer.
  Variable o : opts.

  Notation q := (quote o).

  (* self.spacer = spacer * self.indent *)
  Definition self_spacer : str := repeat_str (spacer o) (indent o).

  Definition is_metadata (key : str) : bool :=
    startswith key (Str "__") && endswith key (Str "__").

  (* int((int(L / indent) + 1) * indent); the float division is exact for
     L < 2^53 *)
  Definition compute_aligned_max_indent (max_key_length : nat) : nat :=
    let i := Nat.max 1 (indent o) in (max_key_length / i + 1) * i.

  Definition is_composite (val : value) : bool :=
    match val with VDict c items => dict_in c (Str "__type__") items | _ => false end.

  Definition is_hidden_container (key : str) (val : value) : bool :=
    mem_str key OBJECT_LIST_KEYS && match val with VList _ => true | _ => false end.

  Definition ignore_list : list str :=
    [Str "metadata"; Str "validation"; Str "values"; Str "connectionoptions";
     Str "pattern"; Str "projection"; Str "points"; Str "config"].

  Definition counts_for_alignment (attr : str) (value : value) : bool :=
    negb (is_metadata attr) && negb (mem_str attr ignore_list)
    && negb (is_hidden_container attr value) && negb (is_composite value).

  Fixpoint compute_max_key_length (items : list (str * value)) : nat :=
    match items with
    | [] => 0
    | (attr, value) :: items' =>
        let rest := compute_max_key_length items' in
        if counts_for_alignment attr value then Nat.max (length attr) rest else rest
    end.

  (* is_complex_type; self.is_composite(key) is called on the key string and
     is always False *)
  Definition is_complex_type_g {A} (valof : A -> value) (c : dcls) (items : list (str * A))
             (key : str) (level : nat) : res bool :=
    if str_eqb key (Str "symbol") && (0 <? level) then Ok false
    else if mem_str key COMPLEX_TYPES then Ok true
    else if is_composite (VStr key) then Ok true
    else do v <- dict_getitem_g valof c key items; Ok (is_hidden_container key v).

  Definition is_complex_type (c : dcls) (items : list (str * value)) (key : str) (level : nat) : res bool :=
    is_complex_type_g (fun v => v) c items key level.

  (* dictutils.dict_move_to_end: OrderedDict.move_to_end; a builtin dict has
     no such method *)
  Definition dict_move_to_end {A} (c : dcls) (key : str) (items : list (str * A)) : res (list (str * A)) :=
    match c with
    | DPlain => Err PyAttributeError
    | _ => match assoc key items with
           | Some _ => Ok (od_move_to_end key items)
           | None => Err PyKeyError
           end
    end.

  Fixpoint separate_loop {A} (valof : A -> value) (c : dcls) (level : nat) (ks : list str)
           (items : list (str * A)) : res (list (str * A)) :=
    match ks with
    | [] => Ok items
    | key :: ks' =>
        do b <- is_complex_type_g valof c items key level;
        if b then do items' <- dict_move_to_end c key items; separate_loop valof c level ks' items'
        else separate_loop valof c level ks' items
    end.

  Definition separate_complex_g {A} (valof : A -> value) (c : dcls) (level : nat)
             (items : list (str * A)) : res (list (str * A)) :=
    if separate_complex_types o then separate_loop valof c level (keys items) items else Ok items.

  Definition separate_complex (c : dcls) (level : nat) (items : list (str * value)) : res (list (str * value)) :=
    separate_complex_g (fun v => v) c level items.

  Definition whitespace (level ind : nat) : str := repeat_str self_spacer (level + ind).

  Definition add_start_line (key : str) (level : nat) : str := whitespace level 1 ++ upper key.

  Definition add_end_line (level ind : nat) (key : str) : str :=
    let end_line := whitespace level ind ++ Str "END" in
    if end_comment o then end_line ++ Str " # " ++ upper key else end_line.

  (* __format_line; value has already gone through str() *)
  Definition format_line (spacer_ key value : str) (aligned_max_indent : nat) : str :=
    let a := if aligned_max_indent =? 0 then length key + 1 else aligned_max_indent in
    spacer_ ++ key ++ repeat_str [c_sp] (a - length key) ++ value.

  Definition format_comment (spacer_ : str) (value : value) : str := spacer_ ++ py_str value.

  Definition process_composite_comment (level : nat) (comments : value) (key : str) : res str :=
    do present <- val_contains comments key;
    if negb present then Ok []
    else
      do value <- val_getitem comments key;
      let spacer_ := whitespace level 0 in
      match value with
      | VList l => Ok (join (newlinechar o) (map (format_comment spacer_) l))
      | _ => Ok (format_comment spacer_ value)
      end.

  Definition process_attribute_comment (comments : value) (key : str) : res str :=
    do present <- val_contains comments key;
    if negb present then Ok []
    else
      do value <- val_getitem comments key;
      match value with
      | VList l => do j <- join_values [c_sp] l; Ok (format_comment [c_sp] (VStr j))
      | _ => Ok (format_comment [c_sp] value)
      end.

  (* _add_type_comment: the lines it appends *)
  Definition _add_type_comment (level : nat) (comments : value) : res (list str) :=
    do comment <- process_composite_comment level comments (Str "__type__");
    match comment with [] => Ok [] | _ => Ok [comment] end.

  Fixpoint process_dict_lines (level aligned_max_indent : nat) (comments : value)
           (l : list (str * value)) : res (list str) :=
    match l with
    | [] => Ok []
    | (k, v) :: l' =>
        if is_metadata k then process_dict_lines level aligned_max_indent comments l'
        else
          let qk := add_quotes q k in
          let qv := add_quotes_v q v in
          let line := format_line (whitespace level 2) qk qv aligned_max_indent in
          do cm <- process_attribute_comment comments k;
          do rest <- process_dict_lines level aligned_max_indent comments l';
          Ok ((line ++ cm) :: rest)
    end.

  Definition process_dict (c : dcls) (items : list (str * value)) (level : nat) (comments : value)
    : res (list str) :=
    let aligned_max_indent :=
      if align_values o then compute_aligned_max_indent (compute_max_key_length items + 2) else 0 in
    process_dict_lines level aligned_max_indent comments items.

  Definition process_key_dict (key : str) (d : value) (level : nat) : res (list str) :=
    match d with
    | VDict c items =>
        let comments := dict_get c (Str "__comments__") items (VDict DPlain []) in
        do tc <- _add_type_comment level comments;
        do body <- process_dict c items level comments;
        Ok (tc ++ [add_start_line key level] ++ body ++ [add_end_line level 1 key])
    | _ => Err PyAttributeError
    end.

  Definition process_config_dict (d : value) (level : nat) : res (list str) :=
    match d with
    | VDict _ items =>
        Ok (map (fun kv =>
                   let cfg_val := add_quotes q (upper (fst kv)) in
                   let k := Str "CONFIG " ++ cfg_val in
                   let v := add_quotes_v q (snd kv) in
                   format_line (whitespace level 1) k v 0) items)
    | _ => Err PyAttributeError
    end.

  Definition process_repeated_list (key : str) (lst : value) (level : nat) (aligned_max_indent : nat)
    : res (list str) :=
    do l <- py_iter lst;
    Ok (map (fun v => format_line (whitespace level 1) (upper key) (add_quotes_v q v) aligned_max_indent) l).

  Definition py_len (x : value) : res nat :=
    match x with
    | VList l => Ok (length l)
    | VStr s => Ok (length s)
    | VDict _ items => Ok (length items)
    | _ => Err PyTypeError
    end.

  Definition process_projection (key : str) (lst : value) (level : nat) (projection_comments : str)
    : res (list str) :=
    let ws := whitespace level 2 in
    let head := [add_start_line key level]
                ++ match projection_comments with [] => [] | _ => [ws ++ py_strip projection_comments] end in
    do body <-
      match lst with
      | VStr s => Ok [ws ++ add_quotes q s]
      | _ =>
          do n <- py_len lst;
          do is_auto <-
            (if n =? 1 then
               do x <- py_index lst 0;
               match x with
               | VStr s => Ok (str_eqb (upper s) (Str "AUTO"))
               | _ => Err PyAttributeError
               end
             else Ok false);
          if is_auto then Ok [ws ++ Str "AUTO"]
          else do l <- py_iter lst; Ok (map (fun v => ws ++ add_quotes_v q v) l)
      end;
    Ok (head ++ body ++ [add_end_line level 1 key]).

  Definition format_pair (list_spacer : str) (p : value) : res str :=
    do a <- py_index p 0;
    do b <- py_index p 1;
    Ok (list_spacer ++ py_str a ++ [c_sp] ++ py_str b).

  Definition format_pair_list (key : str) (pair_list : value) (level : nat) : res (list str) :=
    let list_spacer := repeat_str self_spacer (level + 2) in
    do l <- py_iter pair_list;
    do pairs <- mapM (format_pair list_spacer) l;
    Ok ([add_start_line key level] ++ pairs ++ [add_end_line level 1 key]).

  (* the local helper depth(): isinstance(x, (tuple, list)) and max(map(depth, x)) + 1;
     max of an empty sequence raises ValueError *)
  Fixpoint depth (v : value) : res nat :=
    match v with
    | VList [] => Err PyValueError
    | VList l =>
        do m <- (fix go (l : list value) : res nat :=
                   match l with
                   | [] => Ok 0
                   | x :: l' => do a <- depth x; do b <- go l'; Ok (Nat.max a b)
                   end) l;
        Ok (S m)
    | _ => Ok 0
    end.

  Definition format_repeated_pair_list (key : str) (root_list : value) (level : nat) : res (list str) :=
    do dp <- depth root_list;
    do parts <- (if dp =? 2 then Ok [root_list] else py_iter root_list);
    do ls <- mapM (fun pair_list => format_pair_list key pair_list level) parts;
    Ok (concat ls).

  (* ------------------------------------------------------ schema lookup *)
  Definition get_attribute_properties (type_ attr : str) : res json :=
    match schema_of (schema_file_name type_) with
    | None => Err PyIOError
    | Some j =>
        match jget (Str "properties") (deref j) with
        | None => Err PyKeyError
        | Some props =>
            match jget attr (deref props) with
            | None => Ok (JObj [])            (* KeyError caught, logged, {} returned *)
            | Some p => Ok (deref p)
            end
        end
    end.

  Definition jkeys (j : json) : list str := match j with JObj l => keys l | _ => [] end.

  Definition is_expression (option : json) : bool :=
    match jget (Str "description") option with
    | Some (JStr s) => str_eqb s (Str "expression")
    | _ => false
    end.

  Definition jenum_has (option : json) (s : str) : bool :=
    match jget (Str "enum") option with
    | Some (JArr l) => existsb (fun j => match j with JStr x => str_eqb x s | _ => false end) l
    | _ => false
    end.

  Definition ends_ci_flag (value : str) : bool :=
    endswith value (Str "'i") || endswith value [c_dq; 105%N].

  Fixpoint check_options_loop (options_list : list json) (value : str) : option str :=
    match options_list with
    | [] => None
    | option :: rest =>
        let option := deref option in
        if jhas (Str "enum") option && jenum_has option (lower value) then
          if str_eqb (lower value) (Str "end") then Some (add_quotes q value) else Some (upper value)
        else if is_expression option && ends_ci_flag value then Some value
        else check_options_loop rest value
    end.

  Definition check_options_list (options_list : list json) (value : str) : str :=
    match check_options_loop options_list value with
    | Some r => r
    | None => if in_slashes value then value else add_quotes q value
    end.

  Definition options_of (attr_props : json) : list json :=
    let j := if jhas (Str "oneOf") attr_props then jget (Str "oneOf") attr_props
             else jget (Str "anyOf") attr_props in
    match j with Some (JArr l) => l | _ => [] end.

  Definition quote_list_element (attr : str) (v : value) : str :=
    if negb (is_number v) && negb (mem_str attr [Str "offset"; Str "polaroffset"])
    then add_quotes_v q v else py_str v.

  Definition format_value (attr : str) (attr_props : json) (value_ : value) : res value :=
    match value_ with
    | VBool b => Ok (VStr (upper (py_str value_)))
    | _ =>
        let ks := jkeys attr_props in
        if mem_str (Str "enum") ks then
          match value_ with
          | VDict _ [] => Err PyValueError
          | _ =>
              if is_number value_ then Ok value_
              else if str_eqb attr (Str "compop") then Ok (VStr (add_quotes_v q value_))
              else Ok (VStr (upper (py_str value_)))
          end
        else if match jget (Str "type") attr_props with
                | Some (JStr t) => str_eqb t (Str "string") | _ => false end then
          if is_expression attr_props then
            match value_ with
            | VStr s =>
                if in_slashes s then Ok value_
                else if ends_ci_flag s then Ok value_
                else Ok (VStr (add_quotes q s))
            | _ => Err PyAttributeError
            end
          else Ok (VStr (add_quotes_v q value_))
        else
          let value1 :=
            if mem_str (Str "oneOf") ks || mem_str (Str "anyOf") ks then
              match value_ with
              | VStr s =>
                  if in_parenthesis s then value_
                  else if str_eqb attr (Str "expression") && in_braces s then value_
                  else if negb (str_eqb attr (Str "text")) && in_brackets s then value_
                  else if startswith s (Str "NOT ") && in_parenthesis (skipn 4 s)
                  then VStr (Str "NOT " ++ skipn 4 s)
                  else VStr (check_options_list (options_of attr_props) s)
              | _ => value_
              end
            else value_ in
          match value1 with
          | VList l => Ok (VStr (join [c_sp] (map (quote_list_element attr) l)))
          | _ => Ok (escape_quotes q value1)
          end
    end.

  Definition process_attribute (type_ attr : str) (value : value) (level aligned_max_indent : nat)
    : res str :=
    do attr_props <- get_attribute_properties type_ attr;
    do v <- format_value attr attr_props value;
    Ok (format_line (whitespace level 1) (upper attr) (py_str v) aligned_max_indent).

  (* ------------------------------------------------------ _format *)
  Definition all_composite_names : list str := COMPOSITE_NAMES ++ SINGLETON_COMPOSITE_NAMES.

  (* the part of _format before the loop that depends on __type__:
     (type_, lines); type_ = "" when the dict has no __type__ *)
  Definition format_header (c : dcls) (items : list (str * value)) (comments : value) (level : nat)
    : res (str * list str) :=
    if dict_in c (Str "__type__") items then
      do t <- dict_getitem c (Str "__type__") items;
      match t with
      | VStr type_ =>
          if mem_str type_ all_composite_names then
            do tc <- _add_type_comment level comments;
            Ok (type_, tc ++ [whitespace level 0 ++ upper type_])
          else Err PyAssertionError
      | VList _ | VDict _ _ => Err PyTypeError      (* unhashable in "type_ in frozenset" *)
      | _ => Err PyAssertionError
      end
    else Ok ([], []).

  Definition key_dict_names : list str :=
    [Str "metadata"; Str "validation"; Str "values"; Str "connectionoptions"].

  (* one iteration of the loop of _format: lines added, value afterwards *)
  Definition format_item (rec : value -> res (list str * value))
             (type_ : str) (comments : value) (level aligned_max_indent : nat)
             (attr : str) (value_ : value) : res (list str * value) :=
    if is_metadata attr then Ok ([], value_)
    else if is_hidden_container attr value_ then
      match value_ with
      | VList vs =>
          do rs <- mapM rec vs;
          Ok (concat (map fst rs), VList (map snd rs))
      | _ => Ok ([], value_)
      end
    else if str_eqb attr (Str "pattern") then
      do ls <- format_pair_list attr value_ level; Ok (ls, value_)
    else if mem_str attr key_dict_names then
      do ls <- process_key_dict attr value_ level; Ok (ls, value_)
    else if str_eqb attr (Str "projection") then
      do pc <- process_attribute_comment comments attr;
      do ls <- process_projection attr value_ level pc; Ok (ls, value_)
    else if mem_str attr REPEATED_KEYS then
      do ls <- process_repeated_list attr value_ level aligned_max_indent; Ok (ls, value_)
    else if str_eqb attr (Str "points") then
      do ls <- format_repeated_pair_list attr value_ level; Ok (ls, value_)
    else if str_eqb attr (Str "config") then
      do ls <- process_config_dict value_ level; Ok (ls, value_)
    else if is_composite value_ then rec value_
    else
      match type_ with
      | [] => Err PyUnboundLocalError
      | _ =>
          do line <- process_attribute type_ attr value_ level aligned_max_indent;
          do cm <- process_attribute_comment comments attr;
          Ok ([line ++ cm], value_)
      end.

  (* collect the per-item results in order; first exception wins *)
  Fixpoint collect_items (l : list (str * (value * res (list str * value))))
    : res (list str * list (str * value)) :=
    match l with
    | [] => Ok ([], [])
    | (k, (_, r)) :: l' =>
        do lv <- r;
        do rest <- collect_items l';
        Ok (fst lv ++ fst rest, (k, snd lv) :: snd rest)
    end.

  Fixpoint _format (level : nat) (composite : value) {struct composite} : res (list str * value) :=
    match composite with
    | VDict c items =>
        let comments := dict_get c (Str "__comments__") items (VDict DPlain []) in
        do hd <- format_header c items comments level;
        let type_ := fst hd in
        let aligned_max_indent :=
          if align_values o then compute_aligned_max_indent (compute_max_key_length items) else 0 in
        let results :=
          map (fun kv => (fst kv, (snd kv, format_item (fun x => _format (S level) x) type_ comments level
                                                       aligned_max_indent (fst kv) (snd kv)))) items in
        do sorted <- separate_complex_g (fun a => fst a) c level results;
        do body <- collect_items sorted;
        match type_ with
        | [] => Err PyUnboundLocalError           (* is_hidden is unbound *)
        | _ => Ok (snd hd ++ fst body ++ [add_end_line level 0 type_], VDict c (snd body))
        end
    | _ => Err PyAttributeError                   (* composite.get *)
    end.

  (* ------------------------------------------------------ pprint *)
  Definition pprint_one (composite : value) : res (list str * value) :=
    match composite with
    | VDict c items =>
        match assoc (kfold_item c (Str "__type__")) items with
        | None => if has_factory c then Err PyTypeError   (* auto-created {} is unhashable in the assert *)
                  else Err PyKeyError
        | Some t =>
            match t with
            | VStr type_ =>
                if mem_str type_ [Str "metadata"; Str "validation"; Str "connectionoptions"]
                then do ls <- process_key_dict type_ composite 0; Ok (ls, composite)
                else _format 0 composite
            | _ => _format 0 composite
            end
        end
    | _ => Err PyTypeError
    end.

  Definition quote_ok : bool := N.eqb q c_sq || N.eqb q c_dq.

  (* lines, and the argument after the call *)
  Definition pprint_lines (composites : value) : res (list str * value) :=
    if negb quote_ok then Err PyAssertionError
    else
      match composites with
      | VList l =>
          do rs <- mapM pprint_one l;
          Ok (concat (map fst rs), VList (map snd rs))
      | _ =>
          if truthy composites then
            do r <- pprint_one composites; Ok r
          else
            match composites with
            | VStr _ | VDict _ _ => Ok ([], composites)
            | _ => Err PyTypeError
            end
      end.

  Definition pprint (composites : value) : res (str * value) :=
    do r <- pprint_lines composites;
    Ok (join (newlinechar o) (fst r), snd r).
End Printer.
