(* mappyfile/quoter.py (class Quoter), plus the CPython string primitives the
   printer relies on: str.strip, str.replace (the two instances in use),
   str(int), repr(float), repr(str), str()/repr() of containers and
   json.dumps(.., indent=4) (DefaultOrderedDict.__repr__).  Definitions only.

   Exactness domain of the CPython primitives:
   - py_float_repr: canonical decimals (Lib/Base.v) with at most 17 significant
     digits that are the shortest repr of a double;
   - py_repr_str: printable-ness of non-ASCII code points is approximated
     (U+0080..U+00A0, U+00AD, the Unicode spaces and format characters
     U+1680, U+2000..U+200F, U+2028..U+202F, U+205F..U+206F, U+3000, U+FEFF are
     escaped, every other non-ASCII code point is printed as is);
   - tuples are identified with lists (Lib/Base.v), so repr shows brackets. *)
From MF Require Import Lib.Base.
Open Scope N_scope.

(* ------------------------------------------------------------ characters *)
Definition c_dq : N := 34.      (* double quote *)
Definition c_sq : N := 39.      (* single quote *)
Definition c_bs : N := 92.      (* \ *)
Definition c_sp : N := 32.

Fixpoint repeat_str (s : str) (n : nat) : str :=
  match n with O => [] | S n' => s ++ repeat_str s n' end.

Fixpoint join (sep : str) (l : list str) : str :=
  match l with
  | [] => []
  | [x] => x
  | x :: l' => x ++ sep ++ join sep l'
  end.

(* str.isspace for one code point (CPython _PyUnicode_IsWhitespace) *)
Definition is_space (c : N) : bool :=
  ((9 <=? c) && (c <=? 13)) || ((28 <=? c) && (c <=? 32)) || (c =? 133) || (c =? 160)
  || (c =? 5760) || ((8192 <=? c) && (c <=? 8202)) || (c =? 8232) || (c =? 8233)
  || (c =? 8239) || (c =? 8287) || (c =? 12288).

Fixpoint lstrip (s : str) : str :=
  match s with
  | c :: s' => if is_space c then lstrip s' else s
  | [] => []
  end.

Definition py_strip (s : str) : str := rev (lstrip (rev (lstrip s))).

(* s.replace(backslash + q, q) *)
Fixpoint unescape_q (q : N) (s : str) : str :=
  match s with
  | [] => []
  | c :: s' =>
      match s' with
      | d :: s'' => if (c =? c_bs) && (d =? q) then q :: unescape_q q s'' else c :: unescape_q q s'
      | [] => [c]
      end
  end.

(* s.replace(q, backslash + q) *)
Fixpoint escape_q (q : N) (s : str) : str :=
  match s with
  | [] => []
  | c :: s' => if c =? q then c_bs :: q :: escape_q q s' else c :: escape_q q s'
  end.

(* needle in haystack (substring test) *)
Fixpoint str_contains (needle hay : str) : bool :=
  startswith hay needle || match hay with [] => false | _ :: h' => str_contains needle h' end.

(* ------------------------------------------------------------ numbers *)
Fixpoint digits_fuel (fuel : nat) (n : N) (acc : str) : str :=
  match fuel with
  | O => acc
  | S f =>
      let acc' := (48 + n mod 10) :: acc in
      if n / 10 =? 0 then acc' else digits_fuel f (n / 10) acc'
  end.

Definition digits_N (n : N) : str := digits_fuel (S (N.size_nat n)) n [].

Definition py_str_int (z : Z) : str :=
  match z with
  | Z0 => Str "0"
  | Zpos p => digits_N (Npos p)
  | Zneg p => 45 :: digits_N (Npos p)
  end.

Definition zeros (n : nat) : str := repeat_str [48] n.

(* repr(float) for the canonical decimal m * 10^e: shortest digits as given,
   fixed notation when -4 <= decimal exponent < 16, else d.ddde+XX *)
Definition py_float_repr (m e : Z) : str :=
  let sign : str := if (m <? 0)%Z then [45] else [] in
  let ds := digits_N (Z.abs_N m) in
  let n := Z.of_nat (length ds) in
  let decpt := (n + e)%Z in
  if (m =? 0)%Z then Str "0.0"
  else if ((decpt <=? -4) || (16 <? decpt))%Z then
    let x := (decpt - 1)%Z in
    let mant := match ds with
                | [] => []
                | d :: rest => d :: match rest with [] => [] | _ => 46 :: rest end
                end in
    let xs := digits_N (Z.abs_N x) in
    let xs2 := match xs with [_] => 48 :: xs | _ => xs end in
    sign ++ mant ++ [101] ++ (if (x <? 0)%Z then [45] else [43]) ++ xs2
  else if (decpt <=? 0)%Z then
    sign ++ Str "0." ++ zeros (Z.to_nat (- decpt)) ++ ds
  else if (n <=? decpt)%Z then
    sign ++ ds ++ zeros (Z.to_nat (decpt - n)) ++ Str ".0"
  else
    sign ++ firstn (Z.to_nat decpt) ds ++ [46] ++ skipn (Z.to_nat decpt) ds.

(* ------------------------------------------------------------ repr / str *)
Definition hex_digit (n : N) : N := if n <? 10 then 48 + n else 87 + n.

Definition hex2 (c : N) : str := [hex_digit (c / 16 mod 16); hex_digit (c mod 16)].
Definition hex4 (c : N) : str := hex2 (c / 256) ++ hex2 c.
Definition hex8 (c : N) : str := hex4 (c / 65536) ++ hex4 c.

Definition nonprintable_approx (c : N) : bool :=
  ((128 <=? c) && (c <=? 160)) || (c =? 173) || (c =? 5760)
  || ((8192 <=? c) && (c <=? 8207)) || ((8232 <=? c) && (c <=? 8239))
  || ((8287 <=? c) && (c <=? 8303)) || (c =? 12288) || (c =? 65279).

Definition repr_char (q : N) (c : N) : str :=
  if (c =? q) || (c =? c_bs) then [c_bs; c]
  else if c =? 9 then Str "\t"
  else if c =? 10 then Str "\n"
  else if c =? 13 then Str "\r"
  else if (c <? 32) || (c =? 127) then Str "\x" ++ hex2 c
  else if c <? 127 then [c]
  else if nonprintable_approx c then
    (if c <? 256 then Str "\x" ++ hex2 c
     else if c <? 65536 then Str "\u" ++ hex4 c else Str "\U" ++ hex8 c)
  else [c].

Definition has_char (c : N) (s : str) : bool := existsb (N.eqb c) s.

Definition py_repr_str (s : str) : str :=
  let q := if has_char c_sq s && negb (has_char c_dq s) then c_dq else c_sq in
  q :: flat_map (repr_char q) s ++ [q].

(* json.dumps string, ensure_ascii=True *)
Definition json_char (c : N) : str :=
  if c =? c_dq then [c_bs; c_dq]
  else if c =? c_bs then [c_bs; c_bs]
  else if c =? 10 then Str "\n"
  else if c =? 13 then Str "\r"
  else if c =? 9 then Str "\t"
  else if c =? 8 then Str "\b"
  else if c =? 12 then Str "\f"
  else if c <? 32 then Str "\u" ++ hex4 c
  else if c <? 127 then [c]
  else if c <? 65536 then Str "\u" ++ hex4 c
  else let v := c - 65536 in
       Str "\u" ++ hex4 (55296 + v / 1024) ++ Str "\u" ++ hex4 (56320 + v mod 1024).

Definition json_str (s : str) : str := c_dq :: flat_map json_char s ++ [c_dq].

Definition nl_indent (lvl : nat) : str := 10 :: repeat_str (Str "    ") lvl.

(* json.dumps(v, indent=4) at nesting level lvl *)
Fixpoint json_enc (lvl : nat) (v : value) {struct v} : str :=
  match v with
  | VNone => Str "null"
  | VBool true => Str "true"
  | VBool false => Str "false"
  | VInt z => py_str_int z
  | VFloat m e => py_float_repr m e
  | VStr s => json_str s
  | VList [] => Str "[]"
  | VList l =>
      Str "[" ++ nl_indent (S lvl)
        ++ (fix go (l : list value) : str :=
              match l with
              | [] => []
              | [x] => json_enc (S lvl) x
              | x :: l' => json_enc (S lvl) x ++ Str "," ++ nl_indent (S lvl) ++ go l'
              end) l
        ++ nl_indent lvl ++ Str "]"
  | VDict _ [] => Str "{}"
  | VDict _ items =>
      Str "{" ++ nl_indent (S lvl)
        ++ (fix go (l : list (str * value)) : str :=
              match l with
              | [] => []
              | [(k, x)] => json_str k ++ Str ": " ++ json_enc (S lvl) x
              | (k, x) :: l' =>
                  json_str k ++ Str ": " ++ json_enc (S lvl) x ++ Str "," ++ nl_indent (S lvl) ++ go l'
              end) items
        ++ nl_indent lvl ++ Str "}"
  end.

(* repr(v).  DefaultOrderedDict / CaseInsensitiveOrderedDict define __repr__
   as json.dumps(self, indent=4); DPlain is the builtin dict. *)
Fixpoint py_repr (v : value) {struct v} : str :=
  match v with
  | VNone => Str "None"
  | VBool true => Str "True"
  | VBool false => Str "False"
  | VInt z => py_str_int z
  | VFloat m e => py_float_repr m e
  | VStr s => py_repr_str s
  | VList l =>
      Str "[" ++ (fix go (l : list value) : str :=
                    match l with
                    | [] => []
                    | [x] => py_repr x
                    | x :: l' => py_repr x ++ Str ", " ++ go l'
                    end) l ++ Str "]"
  | VDict DPlain items =>
      Str "{" ++ (fix go (l : list (str * value)) : str :=
                    match l with
                    | [] => []
                    | [(k, x)] => py_repr_str k ++ Str ": " ++ py_repr x
                    | (k, x) :: l' => py_repr_str k ++ Str ": " ++ py_repr x ++ Str ", " ++ go l'
                    end) items ++ Str "}"
  | VDict _ _ => json_enc 0 v
  end.

(* str(v), also what an f-string or str.format inserts *)
Definition py_str (v : value) : str :=
  match v with VStr s => s | _ => py_repr v end.

Definition is_number (v : value) : bool :=
  match v with VBool _ | VInt _ | VFloat _ _ => true | _ => false end.

(* ------------------------------------------------------------ class Quoter *)
Section Quoter.
  Variable quote : N.

  Definition altquote : N := if quote =? c_sq then c_dq else c_sq.

  (* _add_quotes: an f-string, so any value is accepted (through str()) *)
  Definition _add_quotes (val : str) (q : N) : str := q :: val ++ [q].
  Definition add_quotes (val : str) : str := _add_quotes val quote.
  Definition add_altquotes (val : str) : str := _add_quotes val altquote.
  Definition add_quotes_v (v : value) : str := add_quotes (py_str v).

  Definition _in_quotes (val : str) (c : N) : bool := startswith val [c] && endswith val [c].
  Definition in_quotes (val : str) : bool := _in_quotes val quote || _in_quotes val altquote.

  Definition is_string (v : value) : bool := match v with VStr _ => true | _ => false end.

  (* val[1:-1] *)
  Definition strip_ends (s : str) : str := removelast (tl s).

  Definition remove_quotes_s (val : str) : str := if in_quotes val then strip_ends val else val.

  Fixpoint remove_quotes (v : value) : value :=
    match v with
    | VList l => VList (map remove_quotes l)
    | VStr s => VStr (remove_quotes_s s)
    | _ => v
    end.

  Definition escape_quotes_s (val : str) : str :=
    if _in_quotes val quote
    then add_quotes (escape_q quote (unescape_q quote (remove_quotes_s val)))
    else val.

  Definition escape_quotes (v : value) : value :=
    match v with VStr s => VStr (escape_quotes_s s) | _ => v end.

  Definition in_brackets (val : str) : bool :=
    let v := py_strip val in startswith v [91] && endswith v [93].
  Definition in_parenthesis (val : str) : bool :=
    let v := py_strip val in startswith v [40] && endswith v [41].
  Definition in_braces (val : str) : bool :=
    let v := py_strip val in startswith v [123] && endswith v [125].
  Definition in_slashes (val : str) : bool := _in_quotes (py_strip val) 47.

  Definition standardise_quotes (val : str) : str :=
    escape_quotes_s (if _in_quotes val altquote then add_quotes (remove_quotes_s val) else val).
End Quoter.
