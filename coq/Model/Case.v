(* str.lower / str.upper, table driven (Gen/Unicode.v), ASCII arithmetically.
   Exact for every string without U+03A3 (CPython's context-sensitive
   final-sigma rule is not modelled). *)
From MF Require Import Lib.Base Gen.Unicode.
Open Scope N_scope.

Fixpoint lookup_cp (c : N) (t : list (N * list N)) : option (list N) :=
  match t with
  | [] => None
  | (c', img) :: t' => if N.eqb c c' then Some img else lookup_cp c t'
  end.

Definition case_cp (af : N -> list N) (tbl : list (N * list N)) (c : N) : list N :=
  if c <? 128 then af c
  else match lookup_cp c tbl with Some img => img | None => [c] end.

Definition lower_ascii (c : N) : list N := if (65 <=? c) && (c <=? 90) then [c + 32] else [c].
Definition upper_ascii (c : N) : list N := if (97 <=? c) && (c <=? 122) then [c - 32] else [c].

Definition lower_cp : N -> list N := case_cp lower_ascii lower_table.
Definition upper_cp : N -> list N := case_cp upper_ascii upper_table.

Definition lower (s : str) : str := flat_map lower_cp s.
Definition upper (s : str) : str := flat_map upper_cp s.
