(* Model of mappyfile/ordereddict.py: DefaultOrderedDict and
   CaseInsensitiveOrderedDict, transcribed method by method.  Definitions only.

   [fold] is str.lower (instantiated with the generated case table in
   Gen/Unicode.v for execution); [olk] is tokens.OBJECT_LIST_KEYS (generated). *)
From MF Require Import Lib.Base Lib.PyDict.

Section CI.
  Variable fold : str -> str.
  Variable olk : list str.

  Notation items := (list (str * value)).

  (* A CaseInsensitiveOrderedDict: default_factory (None or the class itself)
     and the underlying OrderedDict storage. *)
  Record cid := mk_cid { factory : bool; store : items }.

  (* CaseInsensitiveOrderedDict._k *)
  Definition _k (k : str) : str := fold k.

  (* CaseInsensitiveOrderedDict.__setitem__ -> OrderedDict.__setitem__ *)
  Definition ci_setitem (k : str) (v : value) (s : items) : items :=
    od_set (_k k) v s.

  (* DefaultOrderedDict.__missing__ (key already lower-cased by the callers;
     the assignment self[key] = value goes through CI.__setitem__) *)
  Definition ci_missing (f : bool) (k : str) (s : items) : res (value * items) :=
    if f then
      if mem_str k olk then Ok (VList [], ci_setitem k (VList []) s)
      else Ok (VDict (DCI false) [], ci_setitem k (VDict (DCI false) []) s)
    else Err PyKeyError.

  (* CI.__getitem__ -> DefaultOrderedDict.__getitem__ (lower-cases again) *)
  Definition ci_getitem (f : bool) (k : str) (s : items) : res (value * items) :=
    let k1 := _k k in
    let k2 := fold k1 in
    match assoc k2 s with
    | Some v => Ok (v, s)
    | None => ci_missing f k2 s
    end.

  Definition ci_contains (k : str) (s : items) : bool := od_mem (_k k) s.

  Definition ci_delitem (k : str) (s : items) : res items :=
    if od_mem (_k k) s then Ok (od_del (_k k) s) else Err PyKeyError.

  (* dict.get: no __missing__ *)
  Definition ci_get (k : str) (dflt : value) (s : items) : value :=
    match assoc (_k k) s with Some v => v | None => dflt end.

  (* OrderedDict.pop on a subclass: contains / getitem / delitem through the
     overridden methods; the key handed to them is already folded by CI.pop *)
  Definition od_pop_sub (f : bool) (k : str) (dflt : option value) (s : items)
    : res (value * items) :=
    if ci_contains k s then
      do (v, s1) <- ci_getitem f k s;
      do s2 <- ci_delitem k s1;
      Ok (v, s2)
    else match dflt with
         | Some d => Ok (d, s)
         | None => Err PyKeyError
         end.

  Definition ci_pop (f : bool) (k : str) (dflt : option value) (s : items) :=
    od_pop_sub f (_k k) dflt s.

  (* OrderedDict.setdefault on a subclass *)
  Definition ci_setdefault (f : bool) (k : str) (dflt : value) (s : items)
    : res (value * items) :=
    let k1 := _k k in
    if ci_contains k1 s then ci_getitem f k1 s
    else Ok (dflt, ci_setitem k1 dflt s).

  (* OrderedDict.__init__(self, pairs): item-by-item __setitem__ *)
  Definition od_init (e : items) : items :=
    fold_left (fun m kv => ci_setitem (fst kv) (snd kv) m) e [].

  (* CI._convert_keys: for k in list(keys): v = super().pop(k); self[k] = v *)
  Definition convert_keys_step (f : bool) (acc : res items) (k : str) : res items :=
    do s <- acc;
    do (v, s1) <- od_pop_sub f k None s;
    Ok (ci_setitem k v s1).

  Definition ci_convert_keys (f : bool) (s : items) : res items :=
    fold_left (convert_keys_step f) (keys s) (Ok s).

  (* CaseInsensitiveOrderedDict(default_factory, pairs) *)
  Definition ci_new (f : bool) (e : items) : res cid :=
    do s <- ci_convert_keys f (od_init e);
    Ok (mk_cid f s).

  (* OrderedDict.update(self, other_ci): for k in other.keys(): self[k] = other[k] *)
  Definition od_update_from (other : cid) (s : items) : res items :=
    fold_left (fun acc k =>
                 do m <- acc;
                 do (v, _) <- ci_getitem (factory other) k (store other);
                 Ok (ci_setitem k v m))
              (keys (store other)) (Ok s).

  (* CI.update(e, **f): both go through a temporary CI(CI, ...) *)
  Definition ci_update (e : option items) (kw : items) (s : items) : res items :=
    do s1 <- match e with
             | Some e => do tmp <- ci_new true e; od_update_from tmp s
             | None => Ok s
             end;
    do tmp2 <- ci_new true kw;
    od_update_from tmp2 s1.

  (* __copy__: type(self)(self.default_factory, self) -- the constructor
     receives a mapping: OrderedDict.__init__ iterates keys() and __getitem__ *)
  Definition od_init_from_mapping (f : bool) (src : items) : res items :=
    fold_left (fun acc k =>
                 do m <- acc;
                 do (v, _) <- ci_getitem f k src;
                 Ok (ci_setitem k v m))
              (keys src) (Ok []).

  Definition ci_copy (d : cid) : res cid :=
    do s <- od_init_from_mapping (factory d) (store d);
    do s' <- ci_convert_keys (factory d) s;
    Ok (mk_cid (factory d) s').

  (* __deepcopy__: type(self)(self.default_factory, deepcopy(list(self.items())));
     at value level deepcopy of immutable trees is the identity *)
  Definition ci_deepcopy (d : cid) : res cid := ci_new (factory d) (store d).

  (* pickle: __reduce__ gives (type, (factory,)|(), None, None, iter(items));
     unpickling calls the type on these args and then obj[k] = v for every item *)
  Definition ci_pickle_roundtrip (d : cid) : res cid :=
    do d0 <- ci_new (factory d) [];
    Ok (mk_cid (factory d0)
               (fold_left (fun m kv => ci_setitem (fst kv) (snd kv) m) (store d) (store d0))).

  (* ------------------------------------------------------- operations *)
  Inductive op :=
  | OGet (k : str) | OSet (k : str) (v : value) | ODel (k : str) | OIn (k : str)
  | OHasKey (k : str)
  | OGetD (k : str) (dflt : value)
  | OPop (k : str) (dflt : option value)
  | OSetDefault (k : str) (dflt : value)
  | OUpdate (e : items) | OUpdateKw (kw : items)
  | OUpdateBoth (e kw : items)      (* d.update(pairs, **kw) in one call *)
  | ORebuild          (* d = CI(d.default_factory, list(d.items())) *)
  | OCopy | ODeepCopy | OPickle
  | OMoveToEnd (k : str).

  Inductive out := OutV (v : value) | OutB (b : bool) | OutNone | OutKeyError.

  Definition lift_items (d : cid) (r : res items) : cid * out :=
    match r with
    | Ok s => (mk_cid (factory d) s, OutNone)
    | Err _ => (d, OutKeyError)
    end.

  Definition lift_val (d : cid) (r : res (value * items)) : cid * out :=
    match r with
    | Ok (v, s) => (mk_cid (factory d) s, OutV v)
    | Err _ => (d, OutKeyError)
    end.

  Definition lift_cid (d : cid) (r : res cid) : cid * out :=
    match r with
    | Ok d' => (d', OutB (andb (Bool.eqb (factory d') (factory d))
                               (value_eqb (VDict DPlain (store d')) (VDict DPlain (store d)))))
    | Err _ => (d, OutKeyError)
    end.

  Definition step (d : cid) (o : op) : cid * out :=
    let f := factory d in
    let s := store d in
    match o with
    | OGet k => lift_val d (ci_getitem f k s)
    | OSet k v => (mk_cid f (ci_setitem k v s), OutNone)
    | ODel k => lift_items d (ci_delitem k s)
    | OIn k => (d, OutB (ci_contains k s))
    | OHasKey k => (d, OutB (ci_contains k s))
    | OGetD k dflt => (d, OutV (ci_get k dflt s))
    | OPop k dflt => lift_val d (ci_pop f k dflt s)
    | OSetDefault k dflt => lift_val d (ci_setdefault f k dflt s)
    | OUpdate e => lift_items d (ci_update (Some e) [] s)
    | OUpdateKw kw => lift_items d (ci_update None kw s)
    | OUpdateBoth e kw => lift_items d (ci_update (Some e) kw s)
    | ORebuild => lift_cid d (ci_new f s)
    | OCopy => lift_cid d (ci_copy d)
    | ODeepCopy => lift_cid d (ci_deepcopy d)
    | OPickle => lift_cid d (ci_pickle_roundtrip d)
    | OMoveToEnd k =>
        (* OrderedDict.move_to_end is not overridden: raw key *)
        if od_mem k s then (mk_cid f (od_move_to_end k s), OutNone) else (d, OutKeyError)
    end.

  Fixpoint run (d : cid) (ops : list op) : cid * list out :=
    match ops with
    | [] => (d, [])
    | o :: ops' =>
        let '(d1, r) := step d o in
        let '(d2, rs) := run d1 ops' in
        (d2, r :: rs)
    end.

End CI.
