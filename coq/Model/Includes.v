(* Model of INCLUDE expansion: mappyfile/parser.py (Parser._get_include_filename,
   load_includes, open_file, parse_file, load, the include stage of parse) and
   the three front ends of mappyfile/utils.py (open, load, loads) up to the
   text handed to the LALR parser.  Definitions only.

   What is modelled
   * str methods used by the code: split(NL), NL.join, strip(), lower()
     (Model/Case.v), startswith, split(HASH)[0], split() (white-space split),
     strip(SQUOTE), strip(DQUOTE), list indexing [1] (IndexError).
     White space is CPython's str.isspace set, all 29 code points
     ([py_whitespace]; compared with the running interpreter on every run).
   * posixpath.isabs / join (two arguments) / dirname / normpath / abspath on
     code-point strings, transcribed from Lib/posixpath.py (3.12's C normpath
     is compared with this transcription by the correspondence runner).
   * The file system: [fsys] = association list from *locations* (list of
     path components from the root directory) to the decoded characters of a
     regular file.  The kernel's path walk is [os_resolve]: components are
     the non-empty, non-dot pieces between slashes, dot-dot goes to the parent (the
     root is its own parent), a relative path starts at the working directory.
     This equals real resolution when there are no symbolic links and every
     directory named on the way exists (so that dot-dot is lexical).  Directories
     are not entries, so opening one fails like a missing file (IOError).
   * io.open(fn, mode r, encoding utf-8).read(): universal-newline translation
     is modelled ([universal_newlines]); UTF-8 decoding is not (contents are
     code points), neither are NUL / surrogates in file names, ENOTDIR,
     ENAMETOOLONG, permissions.
   * os.getcwd() is the explicit argument [cwd] (an absolute path). *)
From MF Require Import Lib.Base Model.Case.
Open Scope N_scope.

(* ------------------------------------------------------------ characters *)
Definition c_nl : N := 10.
Definition c_cr : N := 13.
Definition c_dquote : N := 34.
Definition c_hash : N := 35.
Definition c_squote : N := 39.
Definition c_dot : N := 46.
Definition c_slash : N := 47.

Definition is_nil {A} (l : list A) : bool := match l with [] => true | _ => false end.

(* ------------------------------------------------------------ str methods *)
(* s.split(c) for a one-character separator: never the empty list *)
Fixpoint split_char (c : N) (s : str) : list str :=
  match s with
  | [] => [[]]
  | x :: s' =>
      let r := split_char c s' in
      if x =? c then [] :: r
      else match r with
           | h :: t => (x :: h) :: t
           | [] => [[x]]
           end
  end.

(* sep.join(l) *)
Fixpoint join (sep : str) (l : list str) : str :=
  match l with
  | [] => []
  | [x] => x
  | x :: r => x ++ sep ++ join sep r
  end.

(* Py_UNICODE_ISSPACE *)
Definition py_whitespace : list N :=
  [9; 10; 11; 12; 13; 28; 29; 30; 31; 32; 133; 160; 5760;
   8192; 8193; 8194; 8195; 8196; 8197; 8198; 8199; 8200; 8201; 8202;
   8232; 8233; 8239; 8287; 12288].

Definition isspace (c : N) : bool := existsb (N.eqb c) py_whitespace.

Fixpoint lstrip_by (f : N -> bool) (s : str) : str :=
  match s with
  | c :: s' => if f c then lstrip_by f s' else s
  | [] => []
  end.
Definition rstrip_by (f : N -> bool) (s : str) : str := rev (lstrip_by f (rev s)).
Definition strip_by (f : N -> bool) (s : str) : str := rstrip_by f (lstrip_by f s).

(* s.strip() *)
Definition strip (s : str) : str := strip_by isspace s.
(* s.strip(c) for a one-character argument *)
Definition strip_char (c : N) (s : str) : str := strip_by (N.eqb c) s.

(* s.split(): maximal runs of non-white-space characters *)
Fixpoint split_ws (s : str) : list str :=
  match s with
  | [] => []
  | c :: s' =>
      if isspace c then split_ws s'
      else match s' with
           | [] => [[c]]
           | c' :: _ =>
               if isspace c' then [c] :: split_ws s'
               else match split_ws s' with
                    | w :: r => (c :: w) :: r
                    | [] => [[c]]
                    end
           end
  end.

(* c in line *)
Definition contains_char (c : N) (s : str) : bool := existsb (N.eqb c) s.

(* ------------------------------------------------------------ posixpath *)
Definition isabs (s : str) : bool := startswith s [c_slash].

(* posixpath.join(a, b) *)
Definition path_join (a b : str) : str :=
  if startswith b [c_slash] then b
  else if is_nil a || endswith a [c_slash] then a ++ b
  else a ++ [c_slash] ++ b.

(* p[:p.rfind(SLASH) + 1], computed on the reversed string *)
Fixpoint drop_until_slash (s : str) : str :=
  match s with
  | [] => []
  | c :: s' => if c =? c_slash then s else drop_until_slash s'
  end.
Definition head_upto_slash (p : str) : str := rev (drop_until_slash (rev p)).

(* posixpath.dirname *)
Definition dirname (p : str) : str :=
  let head := head_upto_slash p in
  if negb (is_nil head) && negb (forallb (N.eqb c_slash) head)
  then rstrip_by (N.eqb c_slash) head
  else head.

Definition dotdot : str := [c_dot; c_dot].

(* one iteration of the loop over comps in posixpath.normpath *)
Definition normpath_step (initial_slashes : nat) (new_comps : list str) (comp : str) : list str :=
  if is_nil comp || str_eqb comp [c_dot] then new_comps
  else if negb (str_eqb comp dotdot)
          || (Nat.eqb initial_slashes 0 && is_nil new_comps)
          || (negb (is_nil new_comps) && str_eqb (last new_comps []) dotdot)
       then new_comps ++ [comp]
       else if negb (is_nil new_comps) then removelast new_comps
            else new_comps.

Definition normpath (path : str) : str :=
  if is_nil path then [c_dot]
  else
    let initial_slashes : nat :=
      if startswith path [c_slash] then
        (if startswith path [c_slash; c_slash] && negb (startswith path [c_slash; c_slash; c_slash])
         then 2%nat else 1%nat)
      else 0%nat in
    let comps := split_char c_slash path in
    let new_comps := fold_left (normpath_step initial_slashes) comps [] in
    let path' := repeat c_slash initial_slashes ++ join [c_slash] new_comps in
    if is_nil path' then [c_dot] else path'.

(* posixpath.abspath with os.getcwd() = cwd *)
Definition abspath (cwd path : str) : str :=
  normpath (if isabs path then path else path_join cwd path).

(* ------------------------------------------------------------ file system *)
Definition location := list str.
Definition fsys := list (location * str).

Fixpoint loc_eqb (a b : location) : bool :=
  match a, b with
  | [], [] => true
  | x :: a', y :: b' => str_eqb x y && loc_eqb a' b'
  | _, _ => false
  end.

Fixpoint fs_lookup (p : location) (fs : fsys) : option str :=
  match fs with
  | [] => None
  | (q, t) :: fs' => if loc_eqb p q then Some t else fs_lookup p fs'
  end.

(* the pieces of a path the kernel walks *)
Definition os_comps (p : str) : list str :=
  filter (fun c => negb (is_nil c) && negb (str_eqb c [c_dot])) (split_char c_slash p).

(* the walk itself, on a reversed stack of directory names *)
Fixpoint walk (st : list str) (cs : list str) : list str :=
  match cs with
  | [] => st
  | c :: r => if str_eqb c dotdot then walk (tl st) r else walk (c :: st) r
  end.

Definition os_resolve (cwd p : str) : location :=
  rev (walk (if isabs p then [] else walk [] (os_comps cwd)) (os_comps p)).

(* text-mode reading: CR LF and a lone CR become LF *)
Fixpoint universal_newlines (s : str) : str :=
  match s with
  | [] => []
  | c :: s' =>
      if c =? c_cr then
        match s' with
        | c' :: s'' => if c' =? c_nl then c_nl :: universal_newlines s''
                       else c_nl :: universal_newlines s'
        | [] => [c_nl]
        end
      else c :: universal_newlines s'
  end.

(* what reading the regular file at a location in text mode returns *)
Definition text_of (fs : fsys) (p : location) : option str :=
  match fs_lookup p fs with
  | Some raw => Some (universal_newlines raw)
  | None => None
  end.

(* Parser.open_file (UnicodeDecodeError not modelled) *)
Definition open_file (fs : fsys) (cwd fn : str) : res str :=
  match text_of fs (os_resolve cwd fn) with
  | Some t => Ok t
  | None => Err PyIOError
  end.

(* ------------------------------------------------------------ parser.py *)
(* Parser._get_include_filename (the log.warning has no effect on the result) *)
Definition get_include_filename (line : str) : res str :=
  let line := if contains_char c_hash line then hd [] (split_char c_hash line) else line in
  let include_pairs := split_ws line in
  match nth_error include_pairs 1 with
  | None => Err PyIndexError
  | Some inc_file_path => Ok (strip_char c_dquote (strip_char c_squote inc_file_path))
  end.

(* l.strip().lower().startswith(include) *)
Definition kw_include : str := [105; 110; 99; 108; 117; 100; 101].   (* = Str include, spelled out so that extraction needs no Coq strings *)
Definition starts_include (l : str) : bool := startswith (lower (strip l)) kw_include.

(* list.pop(idx) / list.insert(idx, x) *)
Fixpoint list_pop {A} (idx : nat) (l : list A) : option (list A) :=
  match idx, l with
  | O, _ :: r => Some r
  | S i, x :: r => match list_pop i r with Some r' => Some (x :: r') | None => None end
  | _, [] => None
  end.

Fixpoint list_insert {A} (idx : nat) (x : A) (l : list A) : list A :=
  match idx, l with
  | O, _ => x :: l
  | S i, y :: r => y :: list_insert i x r
  | S _, [] => [x]
  end.

(* for idx, txt in includes.items(): lines.pop(idx); lines.insert(idx, txt) *)
Fixpoint apply_includes (includes : list (nat * str)) (lines : list str) : res (list str) :=
  match includes with
  | [] => Ok lines
  | (idx, txt) :: rest =>
      match list_pop idx lines with
      | None => Err PyIndexError
      | Some lines1 => apply_includes rest (list_insert idx txt lines1)
      end
  end.

Section LoadIncludes.
  Variable fs : fsys.
  Variable cwd : str.
  Variable fn : str.            (* the ROOT file name, passed down unchanged *)

  (* the path handed to open_file for an extracted name *)
  Definition include_path (inc_file_path : str) : str :=
    if isabs inc_file_path then inc_file_path
    else abspath cwd (path_join (dirname fn) inc_file_path).

  (* for idx, l in enumerate(lines): ...   [includes] is the dict being filled,
     [rec] the recursive call with _nested_includes + 1 *)
  Fixpoint scan_lines (rec : str -> res str) (nested : nat) (idx : nat) (lines : list str)
           (includes : list (nat * str)) : res (list (nat * str)) :=
    match lines with
    | [] => Ok includes
    | l :: rest =>
        if starts_include l then
          if Nat.eqb nested 5 then Err PyValueError
          else
            do inc_file_path <- get_include_filename l;
            do include_text <- open_file fs cwd (include_path inc_file_path);
            do txt <- rec include_text;
            scan_lines rec nested (S idx) rest (includes ++ [(idx, txt)])
        else scan_lines rec nested (S idx) rest includes
    end.

  (* Parser.load_includes with fn already defaulted; the recursion depth is at
     most 6 (nested = 0..5), which is the fuel *)
  Fixpoint load_includes_fuel (fuel : nat) (text : str) (nested : nat) : res str :=
    match fuel with
    | O => Err OutOfFuel
    | S fuel' =>
        let lines := split_char c_nl text in
        do includes <- scan_lines (fun t => load_includes_fuel fuel' t (S nested)) nested 0 lines [];
        do lines' <- apply_includes includes lines;
        Ok (join [c_nl] lines')
    end.
End LoadIncludes.

(* fn = None -> os.getcwd() + os.sep *)
Definition default_fn (cwd : str) (fn : option str) : str :=
  match fn with Some f => f | None => cwd ++ [c_slash] end.

Definition load_includes (fs : fsys) (cwd : str) (text : str) (fn : option str) : res str :=
  load_includes_fuel fs cwd (default_fn cwd fn) 6 text 0.

(* the first statement of Parser.parse: the text given to the LALR parser *)
Definition parse_text (expand_includes : bool) (fs : fsys) (cwd : str) (text : str) (fn : option str)
  : res str :=
  if expand_includes then load_includes fs cwd text fn else Ok text.

(* Parser.parse_file *)
Definition parse_file (expand_includes : bool) (fs : fsys) (cwd fn : str) : res str :=
  do text <- open_file fs cwd fn;
  parse_text expand_includes fs cwd text (Some fn).

(* Parser.load: fp.read() and fp.name when present *)
Definition parser_load (expand_includes : bool) (fs : fsys) (cwd : str) (fp_text : str)
           (fp_name : option str) : res str :=
  parse_text expand_includes fs cwd fp_text fp_name.

(* utils.open / load / loads followed by the rest of the pipeline [k]
   (LALR parse + transformer), which sees only the expanded text *)
Section Api.
  Context {A : Type}.
  Variable k : str -> res A.
  Definition api_open (expand : bool) (fs : fsys) (cwd fn : str) : res A :=
    do t <- parse_file expand fs cwd fn; k t.
  Definition api_load (expand : bool) (fs : fsys) (cwd fp_text : str) (fp_name : option str) : res A :=
    do t <- parser_load expand fs cwd fp_text fp_name; k t.
  Definition api_loads (expand : bool) (fs : fsys) (cwd s : str) : res A :=
    do t <- parse_text expand fs cwd s None; k t.
End Api.
