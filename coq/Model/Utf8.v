(* UTF-8 codec with strict error handling and text-mode newline translation,
   as used by the file front ends of mappyfile:

     utils._save            codecs.open(fn, "w", encoding="utf-8").write(s)
                            -> bytes = s.encode("utf-8"), no newline translation
     Parser.open_file       open(fn, "r", encoding="utf-8").read()
                            -> bytes.decode("utf-8") (strict), then universal
                               newlines: "\r\n" and lone "\r" become "\n"

   Definitions only.  Code points and bytes are both N.  UnicodeEncodeError
   and UnicodeDecodeError are subclasses of ValueError: PyValueError. *)
From MF Require Import Lib.Base.
Open Scope N_scope.

Definition bytes := list N.

(* Unicode scalar value: a code point that is not a surrogate *)
Definition is_scalar (c : N) : bool :=
  (c <? 55296) || ((57343 <? c) && (c <=? 1114111)).

(* ------------------------------------------------------------- encoder *)
Definition encode_cp (c : N) : res bytes :=
  if c <? 128 then Ok [c]
  else if c <? 2048 then Ok [192 + c / 64; 128 + c mod 64]
  else if c <? 65536 then
    if (55296 <=? c) && (c <=? 57343) then Err PyValueError     (* surrogates not allowed *)
    else Ok [224 + c / 4096; 128 + (c / 64) mod 64; 128 + c mod 64]
  else if c <=? 1114111 then
    Ok [240 + c / 262144; 128 + (c / 4096) mod 64; 128 + (c / 64) mod 64; 128 + c mod 64]
  else Err PyValueError.

Fixpoint utf8_encode (s : str) : res bytes :=
  match s with
  | [] => Ok []
  | c :: s' =>
      match encode_cp c with
      | Ok b => match utf8_encode s' with Ok r => Ok (b ++ r) | Err e => Err e end
      | Err e => Err e
      end
  end.

(* ------------------------------------------------------------- decoder *)
(* continuation byte 10xxxxxx *)
Definition is_cont (b : N) : bool := (128 <=? b) && (b <? 192).

(* Strict decoder.  A sequence is accepted only when it has the right number
   of continuation bytes AND the decoded value needs that many bytes (no
   overlong forms), is not a surrogate and is at most U+10FFFF.  This accepts
   exactly the sequences of CPython's table-driven decoder (lead C2..DF;
   E0 A0..BF; ED 80..9F; F0 90..BF; F4 80..8F; ...). *)
Fixpoint utf8_decode (b : bytes) : res str :=
  match b with
  | [] => Ok []
  | b0 :: r0 =>
      if b0 <? 128 then
        match utf8_decode r0 with Ok s => Ok (b0 :: s) | Err e => Err e end
      else if b0 <? 192 then Err PyValueError                   (* stray continuation byte *)
      else if b0 <? 224 then
        match r0 with
        | b1 :: r1 =>
            let c := (b0 - 192) * 64 + (b1 - 128) in
            if is_cont b1 && (128 <=? c) then
              match utf8_decode r1 with Ok s => Ok (c :: s) | Err e => Err e end
            else Err PyValueError
        | _ => Err PyValueError                                 (* truncated *)
        end
      else if b0 <? 240 then
        match r0 with
        | b1 :: b2 :: r2 =>
            let c := (b0 - 224) * 4096 + (b1 - 128) * 64 + (b2 - 128) in
            if is_cont b1 && is_cont b2 && (2048 <=? c) && negb ((55296 <=? c) && (c <=? 57343)) then
              match utf8_decode r2 with Ok s => Ok (c :: s) | Err e => Err e end
            else Err PyValueError
        | _ => Err PyValueError
        end
      else if b0 <? 248 then
        match r0 with
        | b1 :: b2 :: b3 :: r3 =>
            let c := (b0 - 240) * 262144 + (b1 - 128) * 4096 + (b2 - 128) * 64 + (b3 - 128) in
            if is_cont b1 && is_cont b2 && is_cont b3 && (65536 <=? c) && (c <=? 1114111) then
              match utf8_decode r3 with Ok s => Ok (c :: s) | Err e => Err e end
            else Err PyValueError
        | _ => Err PyValueError
        end
      else Err PyValueError                                     (* F8..FF and non-bytes *)
  end.

(* ---------------------------------------------------- newline translation *)
(* io.TextIOWrapper with newline=None on input: "\r\n" -> "\n", "\r" -> "\n". *)
Fixpoint universal_newlines (s : str) : str :=
  match s with
  | [] => []
  | c :: s' =>
      if c =? 13 then
        10 :: match s' with
              | c2 :: s'' => if c2 =? 10 then universal_newlines s'' else universal_newlines s'
              | [] => []
              end
      else c :: universal_newlines s'
  end.

Definition has_cr (s : str) : bool := existsb (fun c => c =? 13) s.

(* ------------------------------------------------------------- file text *)
(* utils._save: what is written for the characters [s] *)
Definition write_text (s : str) : res bytes := utf8_encode s.

(* Parser.open_file: what is read back from the bytes [b] *)
Definition read_text (b : bytes) : res str :=
  match utf8_decode b with
  | Ok s => Ok (universal_newlines s)
  | Err e => Err e
  end.

(* save then open at the level of the file's text *)
Definition file_roundtrip (s : str) : res str :=
  match write_text s with
  | Ok b => read_text b
  | Err e => Err e
  end.
