(* Observation points O-lex / O-tree: text in, token stream and parse tree out. *)
From MF Require Import Lib.Base Lib.Regex Lib.Codec Model.GrammarTypes Model.Lexer Model.LR
  Model.Case Model.Transformer Model.Api Gen.Tokens Gen.Grammar.
Open Scope Z_scope.

Definition zN (n : N) : Z := Z.of_N n.

Definition enc_token (t : token) : toks :=
  zN (ttype t) :: enc_str (tval t) ++ [zN (tline t); zN (tcol t); zN (tend_line t); zN (tend_col t)].

Definition enc_optN (o : option N) : toks :=
  match o with Some n => [1; zN n] | None => [0] end.

Fixpoint enc_tree (t : tree) : toks :=
  match t with
  | Tok tk => 0 :: enc_token tk
  | Node d cs m =>
      1 :: zN d :: Z.of_nat (length cs) :: flat_map enc_tree cs
        ++ [if m_empty m then 1 else 0] ++ enc_optN (m_line m) ++ enc_optN (m_end_line m)
  end.

Definition enc_exn (e : exn) : toks :=
  match e with
  | LarkUnexpectedCharacters l c => [1; zN l; zN c]
  | LarkUnexpectedToken l c => [2; zN l; zN c]
  | _ => [exn_code e; 0; 0]
  end.

(* payload: with_comments flag, text.  Output: token stream (after the hook),
   then 0 + tree + comment tokens, or 1 + exception *)
Definition obs_parse (t : toks) : toks :=
  match dec_bool t with
  | Some (wc, t1) =>
      match dec_str t1 with
      | Some (text, _) =>
          let '(tr, r) := parse_text_tr the_grammar the_hook wc text in
          enc_list enc_token (rev tr) ++
          match r with
          | Ok po => 0 :: enc_tree (po_tree po) ++ enc_list enc_token (po_comments po)
          | Err e => 1 :: enc_exn e
          end
      | None => bad_input
      end
  | None => bad_input
  end.

(* payload: include_position, include_comments, text -> 0 + value | 1 + exception *)
Definition obs_loads (t : toks) : toks :=
  match dec_bool t with
  | Some (ip, t1) =>
      match dec_bool t1 with
      | Some (ic, t2) =>
          match dec_str t2 with
          | Some (text, _) =>
              match loads ip ic text with
              | Ok v => 0 :: enc_value v
              | Err e => 1 :: enc_exn e
              end
          | None => bad_input
          end
      | None => bad_input
      end
  | None => bad_input
  end.
