(* mappyfile.loads on include-free text: parse, assign comments, transform. *)
From MF Require Import Lib.Base Model.GrammarTypes Model.Lexer Model.LR Model.Case Model.Transformer
  Gen.Tokens Gen.Grammar.

Definition the_hook : hook_conf :=
  mk_hook T_UNQUOTED_STRING T_GRID T_UNQUOTED_STRING_VALUE SYMBOL_ATTRIBUTES upper.

Definition parse_tree (ic : bool) (text : str) : res tree :=
  do po <- parse_text the_grammar the_hook ic text;
  Ok (if ic then assign_comments (po_comments po) (po_tree po) else po_tree po).

Definition loads (ip ic : bool) (text : str) : res value :=
  do t <- parse_tree ic text;
  do r <- transform ip ic t;
  tv_to_value r.
