(* CPython collections.OrderedDict / dict (3.7+) as an association list:
   replace in place, append new keys, delete, move_to_end.  Generic lemmas. *)
From MF Require Import Lib.Base.

Section OD.
  Context {A : Type}.
  Notation items := (list (str * A)).

  Fixpoint od_mem (k : str) (l : items) : bool :=
    match l with
    | [] => false
    | (k', _) :: l' => str_eqb k k' || od_mem k l'
    end.

  Fixpoint od_replace (k : str) (v : A) (l : items) : items :=
    match l with
    | [] => []
    | (k', v') :: l' => if str_eqb k k' then (k', v) :: l' else (k', v') :: od_replace k v l'
    end.

  Definition od_set (k : str) (v : A) (l : items) : items :=
    if od_mem k l then od_replace k v l else l ++ [(k, v)].

  Fixpoint od_del (k : str) (l : items) : items :=
    match l with
    | [] => []
    | (k', v') :: l' => if str_eqb k k' then l' else (k', v') :: od_del k l'
    end.

  Definition od_move_to_end (k : str) (l : items) : items :=
    match assoc k l with
    | Some v => od_del k l ++ [(k, v)]
    | None => l
    end.

  Definition od_setall (e : items) (d : items) : items :=
    fold_left (fun m kv => od_set (fst kv) (snd kv) m) e d.

  (* ------------------------------------------------------------ lemmas *)
  Lemma od_mem_In k l : od_mem k l = true <-> In k (keys l).
  Proof.
    induction l as [|[k' v] l IH]; cbn [od_mem keys map fst In]; [split; [discriminate|tauto]|].
    rewrite orb_true_iff, IH, str_eqb_eq. unfold keys. split; intros [H|H]; auto.
  Qed.

  Lemma od_mem_assoc k l : od_mem k l = match assoc k l with Some _ => true | None => false end.
  Proof.
    induction l as [|[k' v] l IH]; cbn [od_mem assoc]; [reflexivity|].
    destruct (str_eqb k k'); cbn [orb]; auto.
  Qed.

  Lemma keys_replace k v l : keys (od_replace k v l) = keys l.
  Proof.
    induction l as [|[k' v'] l IH]; cbn [od_replace]; [reflexivity|].
    destruct (str_eqb k k'); unfold keys in *; cbn [map fst]; congruence.
  Qed.

  Lemma keys_set k v l :
    keys (od_set k v l) = if od_mem k l then keys l else keys l ++ [k].
  Proof.
    unfold od_set. destruct (od_mem k l); [apply keys_replace|].
    unfold keys. rewrite map_app. reflexivity.
  Qed.

  Lemma assoc_app_notin k (l1 l2 : items) :
    assoc k l1 = None -> assoc k (l1 ++ l2) = assoc k l2.
  Proof.
    induction l1 as [|[k' v'] l1 IH]; cbn [assoc app]; [reflexivity|].
    destruct (str_eqb k k'); [discriminate|auto].
  Qed.

  Lemma assoc_app_in k (l1 l2 : items) v :
    assoc k l1 = Some v -> assoc k (l1 ++ l2) = Some v.
  Proof.
    induction l1 as [|[k' v'] l1 IH]; cbn [assoc app]; [discriminate|].
    destruct (str_eqb k k'); auto.
  Qed.

  Lemma assoc_replace_same k v l :
    od_mem k l = true -> assoc k (od_replace k v l) = Some v.
  Proof.
    induction l as [|[k' v'] l IH]; cbn [od_mem od_replace]; [discriminate|].
    destruct (str_eqb k k') eqn:E; cbn [orb assoc]; rewrite ?E; auto.
  Qed.

  Lemma assoc_replace_other k k2 v l :
    k2 <> k -> assoc k2 (od_replace k v l) = assoc k2 l.
  Proof.
    intros Hne. induction l as [|[k' v'] l IH]; cbn [od_replace]; [reflexivity|].
    destruct (str_eqb_spec k k') as [->|Hk]; cbn [assoc].
    - destruct (str_eqb_spec k2 k'); [congruence|reflexivity].
    - destruct (str_eqb k2 k'); auto.
  Qed.

  (* map laws *)
  Lemma get_set_same k v l : assoc k (od_set k v l) = Some v.
  Proof.
    unfold od_set. destruct (od_mem k l) eqn:E.
    - apply assoc_replace_same; assumption.
    - rewrite od_mem_assoc in E. destruct (assoc k l) eqn:E2; [discriminate|].
      rewrite assoc_app_notin by assumption. cbn [assoc]. rewrite str_eqb_refl. reflexivity.
  Qed.

  Lemma get_set_other k k2 v l : k2 <> k -> assoc k2 (od_set k v l) = assoc k2 l.
  Proof.
    intros Hne. unfold od_set. destruct (od_mem k l).
    - apply assoc_replace_other; assumption.
    - destruct (assoc k2 l) eqn:E.
      + erewrite assoc_app_in; eauto.
      + rewrite assoc_app_notin by assumption. cbn [assoc].
        destruct (str_eqb_spec k2 k); [congruence|reflexivity].
  Qed.

  Lemma keys_del_notin k l : ~ In k (keys l) -> od_del k l = l.
  Proof.
    induction l as [|[k' v'] l IH]; cbn [od_del keys map fst In]; [reflexivity|].
    intros H. destruct (str_eqb_spec k k') as [->|Hk]; [tauto|].
    f_equal. apply IH. unfold keys. tauto.
  Qed.

  Lemma In_keys_del k k2 l : In k2 (keys (od_del k l)) -> In k2 (keys l).
  Proof.
    induction l as [|[k' v'] l IH]; cbn [od_del keys map fst In]; [tauto|].
    destruct (str_eqb k k'); cbn [map fst In]; unfold keys in *; tauto.
  Qed.

  Lemma NoDup_del k l : NoDup (keys l) -> NoDup (keys (od_del k l)).
  Proof.
    induction l as [|[k' v'] l IH]; cbn [od_del keys map fst]; [auto|].
    intros H; inversion H as [|? ? Hn Hd]; subst.
    destruct (str_eqb k k'); [assumption|].
    cbn [map fst]. constructor; [|apply IH; assumption].
    intros Hin. apply Hn. eapply In_keys_del; eassumption.
  Qed.

  Lemma get_del_same k l : NoDup (keys l) -> assoc k (od_del k l) = None.
  Proof.
    induction l as [|[k' v'] l IH]; cbn [od_del keys map fst]; [reflexivity|].
    intros H; inversion H as [|? ? Hn Hd]; subst.
    destruct (str_eqb_spec k k') as [->|Hk].
    - apply assoc_None_notin. assumption.
    - cbn [assoc]. destruct (str_eqb_spec k k'); [congruence|]. apply IH; assumption.
  Qed.

  Lemma get_del_other k k2 l : k2 <> k -> assoc k2 (od_del k l) = assoc k2 l.
  Proof.
    intros Hne. induction l as [|[k' v'] l IH]; cbn [od_del]; [reflexivity|].
    destruct (str_eqb_spec k k') as [->|Hk]; cbn [assoc].
    - destruct (str_eqb_spec k2 k'); [congruence|reflexivity].
    - destruct (str_eqb k2 k'); auto.
  Qed.

  Lemma NoDup_snoc (l : list str) k : NoDup l -> ~ In k l -> NoDup (l ++ [k]).
  Proof.
    induction l as [|x l IH]; cbn [app]; intros Hd Hn; [repeat constructor; simpl; tauto|].
    inversion Hd as [|? ? Hx Hd']; subst. constructor.
    - intros Hin. apply in_app_or in Hin. cbn [In] in *. destruct Hin as [?|[?|[]]]; subst; tauto.
    - apply IH; [assumption|]. cbn [In] in Hn. tauto.
  Qed.

  Lemma NoDup_set k v l : NoDup (keys l) -> NoDup (keys (od_set k v l)).
  Proof.
    intros H. rewrite keys_set. destruct (od_mem k l) eqn:E; [assumption|].
    apply NoDup_snoc; [assumption|].
    intros Hx. apply od_mem_In in Hx. congruence.
  Qed.

  Lemma NoDup_setall e d : NoDup (keys d) -> NoDup (keys (od_setall e d)).
  Proof.
    revert d; induction e as [|[k v] e IH]; intros d H; cbn; [assumption|].
    apply IH. apply NoDup_set. assumption.
  Qed.

  (* extensionality: same key order and same lookups *)
  Lemma od_ext (a b : items) :
    keys a = keys b -> (forall k, assoc k a = assoc k b) -> NoDup (keys a) -> a = b.
  Proof.
    revert b; induction a as [|[k v] a IH]; intros [|[k' v'] b] Hk Hl Hn;
      cbn [keys map fst] in Hk; try discriminate; [reflexivity|].
    injection Hk as -> Hk.
    pose proof (Hl k') as H0. cbn [assoc] in H0. rewrite str_eqb_refl in H0.
    injection H0 as ->. f_equal.
    inversion Hn as [|? ? Hnk Hnd]; subst.
    apply IH; [exact Hk| |exact Hnd].
    intros k2. specialize (Hl k2). cbn [assoc] in Hl.
    destruct (str_eqb_spec k2 k') as [E|Hne]; [subst k2; clear Hl|exact Hl].
    transitivity (@None A); [|symmetry]; apply assoc_None_notin; [assumption|].
    unfold keys in *. rewrite <- Hk. assumption.
  Qed.

  (* first-insertion order: a set on an existing key keeps every position *)
  Lemma set_existing_keeps_order k v l :
    od_mem k l = true -> keys (od_set k v l) = keys l.
  Proof. intros H. rewrite keys_set, H. reflexivity. Qed.

  Lemma set_new_appends k v l :
    od_mem k l = false -> od_set k v l = l ++ [(k, v)].
  Proof. intros H. unfold od_set. rewrite H. reflexivity. Qed.

  Lemma od_mem_set k k2 v l : od_mem k2 (od_set k v l) = str_eqb k2 k || od_mem k2 l.
  Proof.
    rewrite !od_mem_assoc. destruct (str_eqb_spec k2 k) as [->|Hne]; cbn [orb].
    - rewrite get_set_same. reflexivity.
    - rewrite get_set_other by assumption. reflexivity.
  Qed.

  Lemma set_set_same k v u l : od_set k v (od_set k u l) = od_set k v l.
  Proof.
    unfold od_set at 1. rewrite od_mem_set, str_eqb_refl. cbn [orb].
    unfold od_set. destruct (od_mem k l) eqn:E.
    - induction l as [|[k' v'] l IH]; cbn [od_replace od_mem] in *; [reflexivity|].
      destruct (str_eqb k k') eqn:E2; cbn [od_replace]; rewrite E2; [reflexivity|].
      cbn [orb] in E. f_equal. apply IH. assumption.
    - induction l as [|[k' v'] l IH]; cbn [app od_replace od_mem] in *.
      + rewrite str_eqb_refl. reflexivity.
      + destruct (str_eqb k k'); cbn [app orb] in *; [discriminate|rewrite IH by assumption]; reflexivity.
  Qed.

  Lemma replace_replace_comm k k2 v v2 l :
    k <> k2 -> od_replace k v (od_replace k2 v2 l) = od_replace k2 v2 (od_replace k v l).
  Proof.
    intros Hne. induction l as [|[k' v'] l IH]; cbn [od_replace]; [reflexivity|].
    destruct (str_eqb_spec k2 k') as [->|H2]; destruct (str_eqb_spec k k') as [->|H1];
      cbn [od_replace]; rewrite ?str_eqb_refl; try congruence.
    - destruct (str_eqb_spec k k'); [congruence|]. reflexivity.
    - destruct (str_eqb_spec k2 k'); [congruence|]. reflexivity.
    - destruct (str_eqb_spec k2 k'); [congruence|].
      destruct (str_eqb_spec k k'); [congruence|]. rewrite IH. reflexivity.
  Qed.

  Lemma replace_app_in k v (l1 l2 : items) :
    od_mem k l1 = true -> od_replace k v (l1 ++ l2) = od_replace k v l1 ++ l2.
  Proof.
    induction l1 as [|[k' v'] l1 IH]; cbn [od_mem od_replace app]; [discriminate|].
    destruct (str_eqb k k'); cbn [orb app]; [reflexivity|].
    intros H. rewrite IH by assumption. reflexivity.
  Qed.

  Lemma od_mem_replace k k2 v l : od_mem k2 (od_replace k v l) = od_mem k2 l.
  Proof.
    induction l as [|[k' v'] l IH]; cbn [od_replace od_mem]; [reflexivity|].
    destruct (str_eqb k k'); cbn [od_mem]; rewrite ?IH; reflexivity.
  Qed.

  (* a set on a key that is present commutes with a set on a different key *)
  Lemma set_set_comm_present k k2 v v2 l :
    k <> k2 -> od_mem k l = true ->
    od_set k v (od_set k2 v2 l) = od_set k2 v2 (od_set k v l).
  Proof.
    intros Hne Hin. unfold od_set at 1 3.
    rewrite od_mem_set, Hin, orb_true_r.
    unfold od_set. rewrite Hin, od_mem_replace.
    destruct (od_mem k2 l).
    - apply replace_replace_comm; assumption.
    - apply replace_app_in; assumption.
  Qed.

  Lemma setall_app e1 e2 d : od_setall (e1 ++ e2) d = od_setall e2 (od_setall e1 d).
  Proof. unfold od_setall. apply fold_left_app. Qed.

  Lemma od_mem_setall k e d : od_mem k d = true -> od_mem k (od_setall e d) = true.
  Proof.
    revert d; induction e as [|[k' v'] e IH]; intros d H; cbn; [assumption|].
    apply IH. rewrite od_mem_set, H, orb_true_r. reflexivity.
  Qed.

  Lemma set_setall_comm_present k v e Y :
    ~ In k (keys e) -> od_mem k Y = true ->
    od_set k v (od_setall e Y) = od_setall e (od_set k v Y).
  Proof.
    revert Y; induction e as [|[k' v'] e IH]; intros Y Hn Hin; cbn [od_setall fold_left fst snd];
      [reflexivity|].
    cbn [keys map fst In] in Hn.
    assert (Hk : k <> k') by (intro; subst; tauto).
    change (fold_left _ e ?d) with (od_setall e d).
    rewrite IH.
    - rewrite set_set_comm_present by assumption. reflexivity.
    - unfold keys in *. tauto.
    - rewrite od_mem_set, Hin, orb_true_r. reflexivity.
  Qed.

  Lemma set_setall_comm k v u e X :
    ~ In k (keys e) ->
    od_set k v (od_setall e (od_set k u X)) = od_setall e (od_set k v X).
  Proof.
    intros Hn. rewrite set_setall_comm_present.
    - rewrite set_set_same. reflexivity.
    - assumption.
    - rewrite od_mem_set, str_eqb_refl. reflexivity.
  Qed.

  Lemma in_split_keys k (T : items) :
    In k (keys T) -> exists T1 u T2, T = T1 ++ (k, u) :: T2 /\ ~ In k (keys T1).
  Proof.
    induction T as [|[k' v'] T IH]; cbn [keys map fst In]; [tauto|].
    destruct (str_eqb_spec k k') as [->|Hne].
    - intros _. exists [], v', T. split; [reflexivity|simpl; tauto].
    - intros [E|Hin]; [congruence|].
      destruct (IH Hin) as (T1 & u & T2 & -> & Hn).
      exists ((k', v') :: T1), u, T2. split; [reflexivity|].
      cbn [keys map fst In]. intros [E|E]; [congruence|tauto].
  Qed.

  Lemma replace_split k v u (T1 T2 : items) :
    ~ In k (keys T1) -> od_replace k v (T1 ++ (k, u) :: T2) = T1 ++ (k, v) :: T2.
  Proof.
    induction T1 as [|[k' v'] T1 IH]; cbn [app od_replace keys map fst In]; intros Hn.
    - rewrite str_eqb_refl. reflexivity.
    - destruct (str_eqb_spec k k') as [->|Hne]; [tauto|].
      rewrite IH; [reflexivity|]. unfold keys in *. tauto.
  Qed.

  (* updating through a de-duplicated temporary dict is the same as updating
     item by item (used for CaseInsensitiveOrderedDict.update) *)
  Lemma setall_set k v T d :
    NoDup (keys T) -> od_setall (od_set k v T) d = od_set k v (od_setall T d).
  Proof.
    intros Hnd. unfold od_set at 1. destruct (od_mem k T) eqn:E.
    - apply od_mem_In in E. destruct (in_split_keys _ _ E) as (T1 & u & T2 & -> & Hn1).
      rewrite replace_split by assumption.
      rewrite !setall_app. cbn [od_setall fold_left fst snd].
      change (fold_left _ T2 ?d) with (od_setall T2 d).
      symmetry. apply set_setall_comm.
      unfold keys in Hnd. rewrite map_app in Hnd. cbn [map fst] in Hnd.
      apply NoDup_remove_2 in Hnd. intros Hin. apply Hnd. apply in_or_app. right. exact Hin.
    - rewrite setall_app. reflexivity.
  Qed.

  Lemma setall_via_temp e d : od_setall (od_setall e []) d = od_setall e d.
  Proof.
    induction e as [|[k v] e IH] using rev_ind; [reflexivity|].
    rewrite !setall_app. cbn [od_setall fold_left fst snd].
    rewrite setall_set by (apply NoDup_setall; constructor).
    change (fold_left _ ?e ?d) with (od_setall e d) in IH.
    rewrite IH. reflexivity.
  Qed.

  Lemma keys_setall_fixed e d :
    (forall k, In k (keys e) -> In k (keys d)) -> keys (od_setall e d) = keys d.
  Proof.
    revert d; induction e as [|[k v] e IH]; intros d H; cbn [od_setall fold_left fst snd]; [reflexivity|].
    change (fold_left _ ?e ?d) with (od_setall e d).
    assert (Hk : od_mem k d = true) by (apply od_mem_In, H; simpl; auto).
    rewrite IH.
    - apply set_existing_keeps_order; assumption.
    - intros k2 Hin. rewrite keys_set, Hk. apply H. simpl. auto.
  Qed.

End OD.
