(* Wire format between the Python harness and the extracted model: flat lists
   of integers.  Decoders are fuelled by the token count. *)
From MF Require Import Lib.Base.
Open Scope Z_scope.

Definition toks := list Z.

Definition enc_str (s : str) : toks := Z.of_nat (length s) :: map Z.of_N s.

Definition cls_code (c : dcls) : Z :=
  match c with DPlain => 0 | DDef false => 1 | DDef true => 2 | DCI false => 3 | DCI true => 4 end.

Definition cls_of_code (z : Z) : dcls :=
  if z =? 1 then DDef false else if z =? 2 then DDef true
  else if z =? 3 then DCI false else if z =? 4 then DCI true else DPlain.

Fixpoint enc_value (v : value) : toks :=
  match v with
  | VNone => [0]
  | VBool b => [1; if b then 1 else 0]
  | VInt z => [2; z]
  | VFloat m e => [3; m; e]
  | VStr s => 4 :: enc_str s
  | VList l => 5 :: Z.of_nat (length l) :: flat_map enc_value l
  | VDict c items =>
      6 :: cls_code c :: Z.of_nat (length items)
        :: flat_map (fun kv => enc_str (fst kv) ++ enc_value (snd kv)) items
  end.

Fixpoint take_n {A} (n : nat) (l : list A) : option (list A * list A) :=
  match n, l with
  | O, _ => Some ([], l)
  | S n', x :: l' =>
      match take_n n' l' with Some (a, b) => Some (x :: a, b) | None => None end
  | S _, [] => None
  end.

Definition dec_str (t : toks) : option (str * toks) :=
  match t with
  | n :: t' =>
      match take_n (Z.to_nat n) t' with
      | Some (cs, rest) => Some (map Z.to_N cs, rest)
      | None => None
      end
  | [] => None
  end.

(* decode n items with decoder f *)
Fixpoint dec_n {A} (f : toks -> option (A * toks)) (n : nat) (t : toks)
  : option (list A * toks) :=
  match n with
  | O => Some ([], t)
  | S n' =>
      match f t with
      | Some (a, t1) =>
          match dec_n f n' t1 with Some (l, t2) => Some (a :: l, t2) | None => None end
      | None => None
      end
  end.

Definition dec_list {A} (f : toks -> option (A * toks)) (t : toks) : option (list A * toks) :=
  match t with
  | n :: t' => dec_n f (Z.to_nat n) t'
  | [] => None
  end.

Fixpoint dec_value (fuel : nat) (t : toks) : option (value * toks) :=
  match fuel with
  | O => None
  | S fuel' =>
      match t with
      | 0 :: r => Some (VNone, r)
      | 1 :: b :: r => Some (VBool (negb (b =? 0)), r)
      | 2 :: z :: r => Some (VInt z, r)
      | 3 :: m :: e :: r => Some (VFloat m e, r)
      | 4 :: r => match dec_str r with Some (s, r') => Some (VStr s, r') | None => None end
      | 5 :: r =>
          match dec_list (dec_value fuel') r with
          | Some (l, r') => Some (VList l, r')
          | None => None
          end
      | 6 :: c :: r =>
          match dec_list (fun t => match dec_str t with
                                   | Some (k, t1) =>
                                       match dec_value fuel' t1 with
                                       | Some (v, t2) => Some ((k, v), t2)
                                       | None => None
                                       end
                                   | None => None
                                   end) r with
          | Some (items, r') => Some (VDict (cls_of_code c) items, r')
          | None => None
          end
      | _ => None
      end
  end.

Definition dec_val (t : toks) : option (value * toks) := dec_value (S (length t)) t.

Definition dec_pair {A B} (f : toks -> option (A * toks)) (g : toks -> option (B * toks))
           (t : toks) : option ((A * B) * toks) :=
  match f t with
  | Some (a, t1) => match g t1 with Some (b, t2) => Some ((a, b), t2) | None => None end
  | None => None
  end.

Definition dec_z (t : toks) : option (Z * toks) :=
  match t with z :: r => Some (z, r) | [] => None end.

Definition dec_bool (t : toks) : option (bool * toks) :=
  match t with z :: r => Some (negb (z =? 0), r) | [] => None end.

Definition dec_opt {A} (f : toks -> option (A * toks)) (t : toks) : option (option A * toks) :=
  match t with
  | 0 :: r => Some (None, r)
  | _ :: r => match f r with Some (a, r') => Some (Some a, r') | None => None end
  | [] => None
  end.

Definition enc_list {A} (f : A -> toks) (l : list A) : toks :=
  Z.of_nat (length l) :: flat_map f l.

Definition enc_items (items : list (str * value)) : toks :=
  enc_list (fun kv => enc_str (fst kv) ++ enc_value (snd kv)) items.

Definition dec_items : toks -> option (list (str * value) * toks) :=
  dec_list (dec_pair dec_str dec_val).

(* error marker for undecodable input: a single -1 *)
Definition bad_input : toks := [-1].

Definition exn_code (e : exn) : Z :=
  match e with
  | LarkUnexpectedCharacters _ _ => 1 | LarkUnexpectedToken _ _ => 2 | LarkVisitError => 3
  | PyIndexError => 4 | PyKeyError => 5 | PyAttributeError => 6 | PyTypeError => 7
  | PyValueError => 8 | PyAssertionError => 9 | PyIOError => 10 | PyUnboundLocalError => 11
  | PySyntaxError => 12 | PyRecursionError => 13 | OutOfFuel => 99
  end.
