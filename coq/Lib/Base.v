(* Base library: strings as code-point lists, Python values, results.
   Definitions and small generic lemmas only. *)
From Coq Require Export List NArith ZArith Bool Lia.
From Coq Require String Ascii.
Export ListNotations.
Export String.StringSyntax.
Delimit Scope string_scope with string.
Open Scope N_scope.

(* ---------------------------------------------------------------- strings *)
Definition str := list N.

Definition Str (s : String.string) : str := map Ascii.N_of_ascii (String.list_ascii_of_string s).
Arguments Str s%string.

Fixpoint str_eqb (a b : str) : bool :=
  match a, b with
  | [], [] => true
  | x :: a', y :: b' => N.eqb x y && str_eqb a' b'
  | _, _ => false
  end.

Lemma str_eqb_spec a b : reflect (a = b) (str_eqb a b).
Proof.
  revert b; induction a as [|x a IH]; intros [|y b]; cbn [str_eqb];
    try (constructor; congruence).
  destruct (N.eqb_spec x y) as [->|Hxy]; cbn [andb].
  - destruct (IH b) as [->|Hab]; constructor; congruence.
  - constructor; congruence.
Qed.

Lemma str_eqb_refl a : str_eqb a a = true.
Proof. destruct (str_eqb_spec a a); congruence. Qed.

Lemma str_eqb_eq a b : str_eqb a b = true <-> a = b.
Proof. destruct (str_eqb_spec a b); split; congruence. Qed.

Lemma str_eqb_neq a b : str_eqb a b = false <-> a <> b.
Proof. destruct (str_eqb_spec a b); split; congruence. Qed.

Lemma str_eqb_sym a b : str_eqb a b = str_eqb b a.
Proof.
  destruct (str_eqb_spec a b), (str_eqb_spec b a); congruence.
Qed.

Definition str_dec (a b : str) : {a = b} + {a <> b}.
Proof. destruct (str_eqb_spec a b); [left|right]; assumption. Defined.

Fixpoint mem_str (k : str) (l : list str) : bool :=
  match l with
  | [] => false
  | x :: l' => str_eqb k x || mem_str k l'
  end.

Lemma mem_str_In k l : mem_str k l = true <-> In k l.
Proof.
  induction l as [|x l IH]; cbn [mem_str In]; [split; [discriminate|tauto]|].
  rewrite orb_true_iff, IH, str_eqb_eq. split; intros [H|H]; auto.
Qed.

(* prefix / suffix tests (Python startswith / endswith) *)
Fixpoint startswith (s p : str) : bool :=
  match p, s with
  | [], _ => true
  | y :: p', x :: s' => N.eqb x y && startswith s' p'
  | _ :: _, [] => false
  end.

Definition endswith (s p : str) : bool := startswith (rev s) (rev p).

(* ---------------------------------------------------------------- results *)
Inductive exn :=
| LarkUnexpectedCharacters (line col : N)
| LarkUnexpectedToken (line col : N)
| LarkVisitError
| PyIndexError | PyKeyError | PyAttributeError | PyTypeError | PyValueError
| PyAssertionError | PyIOError | PyUnboundLocalError | PySyntaxError
| PyRecursionError | OutOfFuel.

Inductive res (A : Type) := Ok (a : A) | Err (e : exn).
Arguments Ok {A} a.
Arguments Err {A} e.

Definition bind {A B} (r : res A) (f : A -> res B) : res B :=
  match r with Ok a => f a | Err e => Err e end.
Notation "'do' x <- r ; k" := (bind r (fun x => k))
  (at level 200, x pattern, r at level 100, k at level 200).

(* ---------------------------------------------------------------- values *)
(* Dict classes of the implementation: plain dict / collections.OrderedDict
   (DPlain), DefaultOrderedDict (DDef) and CaseInsensitiveOrderedDict (DCI);
   the boolean says whether default_factory is set (it is then always the
   CaseInsensitiveOrderedDict class itself in this code base). *)
Inductive dcls := DPlain | DDef (factory : bool) | DCI (factory : bool).

(* Floats are canonical decimals m * 10^e (m has no trailing zero unless 0). *)
Inductive value :=
| VNone
| VBool (b : bool)
| VInt (z : Z)
| VFloat (m e : Z)
| VStr (s : str)
| VList (l : list value)
| VDict (c : dcls) (items : list (str * value)).

(* induction principle for the nested type *)
Section value_ind'.
  Variable P : value -> Prop.
  Hypothesis HNone : P VNone.
  Hypothesis HBool : forall b, P (VBool b).
  Hypothesis HInt : forall z, P (VInt z).
  Hypothesis HFloat : forall m e, P (VFloat m e).
  Hypothesis HStr : forall s, P (VStr s).
  Hypothesis HList : forall l, Forall P l -> P (VList l).
  Hypothesis HDict : forall c items, Forall (fun kv => P (snd kv)) items -> P (VDict c items).

  Fixpoint value_ind' (v : value) : P v :=
    match v with
    | VNone => HNone
    | VBool b => HBool b
    | VInt z => HInt z
    | VFloat m e => HFloat m e
    | VStr s => HStr s
    | VList l =>
        HList l ((fix go (l : list value) : Forall P l :=
                    match l with
                    | [] => Forall_nil _
                    | x :: l' => Forall_cons _ (value_ind' x) (go l')
                    end) l)
    | VDict c items =>
        HDict c items
          ((fix go (l : list (str * value)) : Forall (fun kv => P (snd kv)) l :=
              match l with
              | [] => Forall_nil _
              | kv :: l' => Forall_cons _ (value_ind' (snd kv)) (go l')
              end) items)
    end.
End value_ind'.

Definition dcls_eqb (a b : dcls) : bool :=
  match a, b with
  | DPlain, DPlain => true
  | DDef x, DDef y => Bool.eqb x y
  | DCI x, DCI y => Bool.eqb x y
  | _, _ => false
  end.

(* Python == on values.  Ordered-dict classes compare order-sensitively with
   each other; the class itself is not compared (as in Python). Int/float
   cross equality (1 == 1.0) is handled by normalising on the harness side:
   floats are never integral in generated cases unless stated. *)
Fixpoint value_eqb (a b : value) {struct a} : bool :=
  match a, b with
  | VNone, VNone => true
  | VBool x, VBool y => Bool.eqb x y
  | VInt x, VInt y => Z.eqb x y
  | VFloat m e, VFloat m' e' => Z.eqb m m' && Z.eqb e e'
  | VStr x, VStr y => str_eqb x y
  | VList x, VList y =>
      (fix go (x y : list value) : bool :=
         match x, y with
         | [], [] => true
         | u :: x', v :: y' => value_eqb u v && go x' y'
         | _, _ => false
         end) x y
  | VDict _ x, VDict _ y =>
      (fix go (x y : list (str * value)) : bool :=
         match x, y with
         | [], [] => true
         | (k, u) :: x', (k', v) :: y' => str_eqb k k' && value_eqb u v && go x' y'
         | _, _ => false
         end) x y
  | _, _ => false
  end.

(* ---------------------------------------------------------------- misc *)
Fixpoint assoc {A} (k : str) (l : list (str * A)) : option A :=
  match l with
  | [] => None
  | (k', v) :: l' => if str_eqb k k' then Some v else assoc k l'
  end.

Definition keys {A} (l : list (str * A)) : list str := map fst l.

Lemma assoc_None_notin {A} k (l : list (str * A)) :
  assoc k l = None <-> ~ In k (keys l).
Proof.
  induction l as [|[k' v] l IH]; cbn [assoc keys map fst In]; [tauto|].
  destruct (str_eqb_spec k k') as [->|Hne].
  - split; [discriminate|intros H; exfalso; apply H; auto].
  - rewrite IH. unfold keys. split; intros H; [intros [E|E]; [congruence|tauto]|tauto].
Qed.

Lemma assoc_Some_in {A} k (l : list (str * A)) v :
  assoc k l = Some v -> In (k, v) l.
Proof.
  induction l as [|[k' v'] l IH]; cbn [assoc In]; [discriminate|].
  destruct (str_eqb_spec k k') as [->|Hne]; [intros [= ->]; auto|auto].
Qed.
