(* JSON documents (schemas and instances). Objects keep source order. *)
From MF Require Import Lib.Base.

Inductive json :=
| JNull
| JBool (b : bool)
| JInt (z : Z)
| JFloat (m e : Z)          (* canonical decimal m * 10^e *)
| JStr (s : str)
| JArr (l : list json)
| JObj (l : list (str * json)).

Section json_ind'.
  Variable P : json -> Prop.
  Hypothesis HNull : P JNull.
  Hypothesis HBool : forall b, P (JBool b).
  Hypothesis HInt : forall z, P (JInt z).
  Hypothesis HFloat : forall m e, P (JFloat m e).
  Hypothesis HStr : forall s, P (JStr s).
  Hypothesis HArr : forall l, Forall P l -> P (JArr l).
  Hypothesis HObj : forall l, Forall (fun kv => P (snd kv)) l -> P (JObj l).

  Fixpoint json_ind' (j : json) : P j :=
    match j with
    | JNull => HNull
    | JBool b => HBool b
    | JInt z => HInt z
    | JFloat m e => HFloat m e
    | JStr s => HStr s
    | JArr l =>
        HArr l ((fix go (l : list json) : Forall P l :=
                   match l with
                   | [] => Forall_nil _
                   | x :: l' => Forall_cons _ (json_ind' x) (go l')
                   end) l)
    | JObj l =>
        HObj l ((fix go (l : list (str * json)) : Forall (fun kv => P (snd kv)) l :=
                   match l with
                   | [] => Forall_nil _
                   | kv :: l' => Forall_cons _ (json_ind' (snd kv)) (go l')
                   end) l)
    end.
End json_ind'.

Definition jget (k : str) (j : json) : option json :=
  match j with JObj l => assoc k l | _ => None end.

Definition jhas (k : str) (j : json) : bool :=
  match jget k j with Some _ => true | None => false end.

Definition jstr (j : json) : option str := match j with JStr s => Some s | _ => None end.
Definition jarr (j : json) : option (list json) := match j with JArr l => Some l | _ => None end.
Definition jobj (j : json) : option (list (str * json)) := match j with JObj l => Some l | _ => None end.

(* structural equality (Python == on parsed JSON, with int/float kept apart
   except through [jnum_eqb] below) *)
Fixpoint json_eqb (a b : json) {struct a} : bool :=
  match a, b with
  | JNull, JNull => true
  | JBool x, JBool y => Bool.eqb x y
  | JInt x, JInt y => Z.eqb x y
  | JFloat m e, JFloat m' e' => Z.eqb m m' && Z.eqb e e'
  | JStr x, JStr y => str_eqb x y
  | JArr x, JArr y =>
      (fix go (x y : list json) : bool :=
         match x, y with
         | [], [] => true
         | u :: x', v :: y' => json_eqb u v && go x' y'
         | _, _ => false
         end) x y
  | JObj x, JObj y =>
      (fix go (x y : list (str * json)) : bool :=
         match x, y with
         | [], [] => true
         | (k, u) :: x', (k', v) :: y' => str_eqb k k' && json_eqb u v && go x' y'
         | _, _ => false
         end) x y
  | _, _ => false
  end.
