(* Backtracking regular-expression matcher with CPython `re` semantics on the
   opcode subset used by the grammar and the schemas: literals / classes
   (already expanded to explicit code-point ranges by the translator, so no case
   folding happens here), any-char with or without DOTALL, ordered alternation
   (leftmost-first), greedy and lazy bounded repeats with CPython's progress
   check, groups, negative look-ahead, begin/end anchors.
   Input is carried as (offset, remaining characters); the fuel bounds the
   number of iterations of a repeat (every iteration past [min] must consume a
   character, so fuel >= remaining length is always enough). *)
From MF Require Import Lib.Base.
Open Scope N_scope.

Definition ranges := list (N * N).

Fixpoint in_ranges (c : N) (r : ranges) : bool :=
  match r with
  | [] => false
  | (lo, hi) :: r' => ((lo <=? c) && (c <=? hi)) || in_ranges c r'
  end.

Inductive rx :=
| REps
| RSet (neg : bool) (r : ranges)           (* one character in / not in the ranges *)
| RSeq (a b : rx)
| RAlt (a b : rx)                          (* ordered: a first *)
| RRep (greedy : bool) (mn : nat) (mx : option nat) (r : rx)
| RNotAhead (r : rx)
| RBol | REol.                             (* ^ without MULTILINE, $ without MULTILINE *)

Definition inp := (N * str)%type.          (* offset, rest *)

(* one repeat loop; [m] matches the repeated item *)
Fixpoint rep_loop {A} (m : inp -> (inp -> option A) -> option A)
         (greedy : bool) (mn : nat) (mx : option nat)
         (fuel : nat) (cnt : nat) (s : inp) (k : inp -> option A) : option A :=
  match fuel with
  | O => None
  | S fuel' =>
      let can_more := match mx with Some x => Nat.ltb cnt x | None => true end in
      let more (_ : unit) :=
        if can_more then
          m s (fun s' =>
                 (* progress check: an iteration beyond the minimum that consumed
                    nothing ends the loop *)
                 if (fst s' =? fst s) && Nat.leb mn cnt then None
                 else rep_loop m greedy mn mx fuel' (S cnt) s' k)
        else None in
      if Nat.ltb cnt mn then more tt
      else if greedy then
             match more tt with Some a => Some a | None => k s end
           else
             match k s with Some a => Some a | None => more tt end
  end.

Fixpoint rmatch (r : rx) {A : Type} (fuel : nat) (s : inp) (k : inp -> option A) {struct r} : option A :=
  match r with
  | REps => k s
  | RSet neg rg =>
      match snd s with
      | c :: rest => if xorb neg (in_ranges c rg) then k (fst s + 1, rest) else None
      | [] => None
      end
  | RSeq a b => rmatch a fuel s (fun s' => rmatch b fuel s' k)
  | RAlt a b => match rmatch a fuel s k with Some x => Some x | None => rmatch b fuel s k end
  | RRep greedy mn mx r1 =>
      rep_loop (fun s0 k0 => rmatch r1 fuel s0 k0) greedy mn mx (S (mn + fuel)) O s k
  | RNotAhead r1 =>
      match rmatch r1 fuel s (fun _ => Some tt) with
      | Some _ => None
      | None => k s
      end
  | RBol => if fst s =? 0 then k s else None
  | REol => match snd s with
            | [] => k s
            | [c] => if c =? 10 then k s else None   (* $ also matches before a trailing newline *)
            | _ => None
            end
  end.

(* re.match at the current position: end offset and rest after the first
   (backtracking-order) match *)
Definition rx_match (r : rx) (fuel : nat) (s : inp) : option inp :=
  rmatch r fuel s (fun s' => Some s').

(* re.fullmatch on a whole string *)
Definition rx_fullmatch (r : rx) (s : str) : bool :=
  match rmatch r (length s) (0, s) (fun s' => match snd s' with [] => Some tt | _ => None end) with
  | Some _ => true
  | None => false
  end.

(* re.search: first start offset at which the pattern matches *)
Fixpoint rx_search_from (r : rx) (fuel : nat) (s : inp) (n : nat) : bool :=
  match rmatch r fuel s (fun _ => Some tt) with
  | Some _ => true
  | None => match n, snd s with
            | S n', _ :: rest => rx_search_from r fuel (fst s + 1, rest) n'
            | _, _ => false
            end
  end.

Definition rx_search (r : rx) (s : str) : bool :=
  rx_search_from r (length s) (0, s) (length s).
