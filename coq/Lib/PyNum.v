(* str() / repr() of Python ints, floats (as canonical decimals) and bools. *)
From MF Require Import Lib.Base.
Open Scope N_scope.

(* decimal digits of a natural number, most significant first *)
Fixpoint digits_fuel (fuel : nat) (n : N) (acc : str) : str :=
  match fuel with
  | O => acc
  | S f => let acc' := (48 + n mod 10) :: acc in
           if n / 10 =? 0 then acc' else digits_fuel f (n / 10) acc'
  end.

Definition digits_of_N (n : N) : str := digits_fuel (S (N.size_nat n)) n [].

Definition py_str_int (z : Z) : str :=
  match z with
  | Z0 => [48]
  | Zpos p => digits_of_N (Npos p)
  | Zneg p => 45 :: digits_of_N (Npos p)
  end.

Definition zeros (n : nat) : str := repeat 48 n.

(* repr(float) for the canonical decimal m * 10^e (float_repr_style 'short'):
   digits d1..dn of |m|, decpt = n + e; exponent form iff decpt <= -4 or decpt > 16 *)
Definition py_float_repr (m e : Z) : str :=
  match m with
  | Z0 => Str "0.0"
  | _ =>
      let sign : str := if (m <? 0)%Z then [45] else [] in
      let ds := digits_of_N (Z.abs_N m) in
      let n := Z.of_nat (length ds) in
      let decpt := (n + e)%Z in
      if ((decpt <=? -4) || (16 <? decpt))%Z then
        let ex := (decpt - 1)%Z in
        let mant := match ds with
                    | [d] => [d]
                    | d :: rest => d :: 46 :: rest
                    | [] => []
                    end in
        let exs := digits_of_N (Z.abs_N ex) in
        let exs2 := match exs with [d] => [48; d] | _ => exs end in
        sign ++ mant ++ [101] ++ (if (ex <? 0)%Z then [45] else [43]) ++ exs2
      else if (decpt <=? 0)%Z then
        sign ++ [48; 46] ++ zeros (Z.to_nat (- decpt)) ++ ds
      else if (n <=? decpt)%Z then
        sign ++ ds ++ zeros (Z.to_nat (decpt - n)) ++ [46; 48]
      else
        sign ++ firstn (Z.to_nat decpt) ds ++ [46] ++ skipn (Z.to_nat decpt) ds
  end.

Definition py_str_bool (b : bool) : str := if b then Str "True" else Str "False".
