(* Property C15 - INCLUDE expansion equals textual substitution, bounded at
   five levels.  Theorems only; every proof is [exact] of a lemma in Proofs/.

   Reading guide.  [load_includes fs cwd text fn] is the model of
   Parser.load_includes (Model/Includes.v), [expanded isspace (text_of fs) cwd fn
   text] the specification (Spec/Subst.v: replace every INCLUDE directive line
   by the text of the file it names, recursively, names resolved against the
   root file's folder, budget five).  [subst_by read reader base budget] is the
   same substitution for an arbitrary line reader; [code_reader] is the line
   reader the code implements (a line whose stripped lower-case text starts
   with the letters include; name = second white-space separated word of the
   part before the first hash sign, outer quote characters stripped). *)
From MF Require Import Lib.Base Model.Case Model.Includes Spec.Subst Proofs.C15.

(* ------------------------------------------------------------------ *)
(* 1. expansion = textual substitution                                *)
(* ------------------------------------------------------------------ *)

(* Full statement of the first clause:
     forall fs cwd text fn, load_includes fs cwd text fn = expanded isspace (text_of fs) cwd fn text.
   It is FALSE of the faithful model (the code has defects in how it reads an
   INCLUDE line): witness below.  What holds universally is (1a): the
   expansion is exactly textual substitution for the line reader the code
   implements; and (1b): the full statement under the guard that every line
   the code takes for an INCLUDE line is a directive whose name has no white
   space, no hash sign and no quote character at either end. *)
Theorem C15_includes_are_substitution_refuted :
  exists fs cwd text fn,
    isabs cwd = true /\ load_includes fs cwd text fn <> expanded isspace (text_of fs) cwd fn text.
Proof. exact includes_are_substitution_refuted. Qed.
Print Assumptions C15_includes_are_substitution_refuted.

(* (1a) for every file system, absolute working directory, root name (or none)
   and text: no guard.  This contains the root-relative clause (the base
   folder [root_folder cwd fn] is the same at every depth), the bound (budget
   5) and the order in which errors are reported. *)
Theorem C15_includes_are_substitution_for_code_reader :
  forall fs cwd text fn,
    isabs cwd = true ->
    load_includes fs cwd text fn = subst_by (text_of fs) code_reader (root_folder cwd fn) 5 text.
Proof. exact includes_are_substitution_by_code_reader. Qed.
Print Assumptions C15_includes_are_substitution_for_code_reader.

(* (1b) the property's statement, guarded *)
Theorem C15_includes_are_substitution_guarded :
  forall fs cwd text fn,
    isabs cwd = true -> text_ok text = true -> fs_ok fs = true ->
    load_includes fs cwd text fn = expanded isspace (text_of fs) cwd fn text.
Proof. exact includes_are_substitution_guarded. Qed.
Print Assumptions C15_includes_are_substitution_guarded.

(* the includes dict and the pop(idx) / insert(idx, txt) loop amount to a map
   over the lines (one level of load_includes, any fuel, any nesting level) *)
Theorem C15_pop_insert_loop_is_map :
  forall fs cwd fn fuel text nested,
    load_includes_fuel fs cwd fn (S fuel) text nested =
      do ls <- mapM (expand_line fs cwd fn (fun t => load_includes_fuel fs cwd fn fuel t (S nested)) nested)
                    (split_char c_nl text);
      Ok (join [c_nl] ls).
Proof. exact load_includes_fuel_step. Qed.
Print Assumptions C15_pop_insert_loop_is_map.

(* ------------------------------------------------------------------ *)
(* 2. relative names resolve against the root file's folder            *)
(* ------------------------------------------------------------------ *)

(* at EVERY nesting level (0..5) the recursive call substitutes against the
   root file's folder, not the including file's *)
Theorem C15_root_relative_at_every_depth :
  forall fs cwd fn nested text,
    isabs cwd = true -> (nested <= 5)%nat ->
    load_includes_fuel fs cwd (default_fn cwd fn) (6 - nested) text nested =
      subst_by (text_of fs) code_reader (root_folder cwd fn) (5 - nested) text.
Proof. exact root_relative_at_every_depth. Qed.
Print Assumptions C15_root_relative_at_every_depth.

(* the path string the code builds (isabs / dirname / join / abspath) and hands
   to open() denotes the location the specification computes *)
Theorem C15_include_path_is_root_relative :
  forall cwd fn inc,
    isabs cwd = true ->
    os_resolve cwd (include_path cwd fn inc) = locate (locate (locate [] cwd) (folder_text fn)) inc.
Proof. exact include_path_location. Qed.
Print Assumptions C15_include_path_is_root_relative.

(* with an absolute root name the process's working directory is irrelevant *)
Theorem C15_cwd_irrelevant :
  forall fs cwd cwd' text fn,
    isabs fn = true -> isabs cwd = true -> isabs cwd' = true ->
    load_includes fs cwd text (Some fn) = load_includes fs cwd' text (Some fn).
Proof. exact cwd_irrelevant. Qed.
Print Assumptions C15_cwd_irrelevant.

(* ------------------------------------------------------------------ *)
(* 3. quotes and a trailing comment do not matter                      *)
(* ------------------------------------------------------------------ *)

(* Full statement: for every directive line l with name n (whatever n
   contains), get_include_filename l = Ok n.  FALSE: *)
Theorem C15_filename_extraction_refuted :
  exists l n, directive isspace l = Some n /\ get_include_filename l <> Ok n.
Proof. exact filename_extraction_refuted. Qed.
Print Assumptions C15_filename_extraction_refuted.

(* the ways in which the code's line reader departs from the directive reader,
   each by a concrete line (model-level observations; the first two are inside
   the property's quantifier - quoted names -, the others are malformed or
   non-INCLUDE lines and outside it):
   - a quoted name with a blank: the first word is taken (another file's
     content, or IOError when there is no such file);
   - a quoted name with a hash sign: cut at the hash sign;
   - INCLUDE without a name: IndexError;
   - a keyword that merely starts with the letters include is expanded;
   - a name made of quote characters inside the other kind of quotes loses them. *)
Theorem C15_line_reader_departures :
  (load_includes wit_fs (Str "/r") (Str "INCLUDE ""has space.map""") (Some (Str "/r/root.map")) = Ok (Str "NAME 'wrong'") /\
   expanded isspace (text_of wit_fs) (Str "/r") (Some (Str "/r/root.map")) (Str "INCLUDE ""has space.map""") = Ok (Str "NAME 'x'")) /\
  load_includes [([Str "r"; Str "has space.map"], Str "NAME 'x'")] (Str "/r") (Str "INCLUDE ""has space.map""")
                (Some (Str "/r/root.map")) = Err PyIOError /\
  (load_includes [([Str "r"; Str "a#b.map"], Str "NAME 'x'")] (Str "/r") (Str "INCLUDE ""a#b.map""") None = Err PyIOError /\
   expanded isspace (text_of [([Str "r"; Str "a#b.map"], Str "NAME 'x'")]) (Str "/r") None (Str "INCLUDE ""a#b.map""") = Ok (Str "NAME 'x'")) /\
  (load_includes wit_fs (Str "/r") (Str "INCLUDE") None = Err PyIndexError /\
   expanded isspace (text_of wit_fs) (Str "/r") None (Str "INCLUDE") = Ok (Str "INCLUDE")) /\
  (load_includes wit_fs (Str "/r") (Str "INCLUDES x.map") None = Ok (Str "NAME 'y'") /\
   expanded isspace (text_of wit_fs) (Str "/r") None (Str "INCLUDES x.map") = Ok (Str "INCLUDES x.map")) /\
  (get_include_filename (Str "INCLUDE '""a.map""'") = Ok (Str "a.map") /\
   directive isspace (Str "INCLUDE '""a.map""'") = Some (Str """a.map""")).
Proof.
  exact (conj refute_quoted_blank (conj refute_quoted_blank_missing (conj refute_quoted_hash
          (conj refute_bare_include (conj refute_prefix_keyword refute_nested_quotes))))).
Qed.
Print Assumptions C15_line_reader_departures.

(* guarded: blanks b1, keyword word w, blanks b2, the name written bare, in
   double or in single quotes, blanks b3, nothing or a comment: the code
   extracts the name, provided the name has no white space, no hash sign and
   no quote character at either end *)
Theorem C15_filename_extraction_guarded :
  forall b1 w b2 q n b3 tail,
    all_blank b1 -> is_word w -> no_hash w -> all_blank b2 -> b2 <> [] -> all_blank b3 ->
    (tail = [] \/ exists c, tail = c_hash :: c) ->
    name_ok n = true -> (q = Bare -> n <> []) ->
    get_include_filename (b1 ++ w ++ b2 ++ written q n ++ b3 ++ tail) = Ok n.
Proof. exact filename_extraction. Qed.
Print Assumptions C15_filename_extraction_guarded.

(* the same against the specification's directive reader, and the other way
   round: what the specification calls a directive the code treats as one *)
Theorem C15_directive_read_by_code :
  forall l n,
    directive isspace l = Some n ->
    starts_include l = true /\ (name_ok n = true -> get_include_filename l = Ok n).
Proof.
  intros l n H. split; [exact (directive_starts_include l n H)|exact (directive_name_extracted l n H)].
Qed.
Print Assumptions C15_directive_read_by_code.

Theorem C15_reader_agreement_guarded :
  forall l, line_ok l = true -> code_reader l = spec_reader isspace l.
Proof. exact reader_agreement. Qed.
Print Assumptions C15_reader_agreement_guarded.

(* ------------------------------------------------------------------ *)
(* 4. five levels, no unbounded recursion, error kinds                 *)
(* ------------------------------------------------------------------ *)

(* the fuel (6 = nesting levels 0..5) is never exhausted: the model's result is
   a text or one of the three exceptions the code can raise *)
Theorem C15_never_out_of_fuel :
  forall fs cwd text fn e,
    load_includes fs cwd text fn = Err e ->
    e = PyValueError \/ e = PyIOError \/ e = PyIndexError.
Proof. exact load_includes_never_out_of_fuel. Qed.
Print Assumptions C15_never_out_of_fuel.

(* expansion succeeds EXACTLY when the include tree below the text is complete
   and at most five files deep *)
Theorem C15_expands_iff_depth_le_5 :
  forall fs cwd text fn,
    isabs cwd = true ->
    ((exists out, load_includes fs cwd text fn = Ok out) <->
     depth_le (text_of fs) code_reader (root_folder cwd fn) 5 text).
Proof. exact load_includes_Ok_iff. Qed.
Print Assumptions C15_expands_iff_depth_le_5.

(* a chain of six nested files, hence every cyclic inclusion, is an error *)
Theorem C15_deeper_or_cyclic_is_error :
  forall fs cwd text fn,
    isabs cwd = true ->
    (has_chain (text_of fs) code_reader (root_folder cwd fn) 6 text \/
     cyclic (text_of fs) code_reader (root_folder cwd fn) text) ->
    exists e, load_includes fs cwd text fn = Err e /\
              (e = PyValueError \/ e = PyIOError \/ e = PyIndexError).
Proof.
  intros fs cwd text fn Hc [H|H];
    [exact (load_includes_too_deep fs cwd text fn Hc H)|exact (load_includes_cyclic fs cwd text fn Hc H)].
Qed.
Print Assumptions C15_deeper_or_cyclic_is_error.

(* ... and it is ValueError when no file is missing and every name can be extracted *)
Theorem C15_deeper_is_ValueError :
  forall fs cwd text fn,
    isabs cwd = true ->
    (forall name, text_of fs (locate (root_folder cwd fn) name) <> None) ->
    (forall l, starts_include l = true -> get_include_filename l <> Err PyIndexError) ->
    has_chain (text_of fs) code_reader (root_folder cwd fn) 6 text ->
    load_includes fs cwd text fn = Err PyValueError.
Proof. exact load_includes_too_deep_ValueError. Qed.
Print Assumptions C15_deeper_is_ValueError.

(* files that include themselves or each other are cyclic (any line reader) *)
Theorem C15_self_and_mutual_inclusion_are_cyclic :
  forall read reader base,
    (forall text l name,
        In l (lines_of text) -> reader l = Some (Ok name) -> read (locate base name) = Some text ->
        cyclic read reader base text) /\
    (forall ta tb la lb na nb,
        In la (lines_of ta) -> reader la = Some (Ok nb) -> read (locate base nb) = Some tb ->
        In lb (lines_of tb) -> reader lb = Some (Ok na) -> read (locate base na) = Some ta ->
        cyclic read reader base ta).
Proof.
  intros read reader base. split;
    [exact (self_include_cyclic read reader base)|exact (mutual_include_cyclic read reader base)].
Qed.
Print Assumptions C15_self_and_mutual_inclusion_are_cyclic.

(* what each exception means *)
Theorem C15_error_causes :
  forall fs cwd text fn e,
    isabs cwd = true ->
    load_includes fs cwd text fn = Err e ->
    e = PyValueError \/
    (e = PyIOError /\ exists name, text_of fs (locate (root_folder cwd fn) name) = None) \/
    (e = PyIndexError /\ exists l, starts_include l = true /\ get_include_filename l = Err PyIndexError).
Proof. exact load_includes_error_cause. Qed.
Print Assumptions C15_error_causes.

(* the first failing line in reading order decides (any line reader): a
   directive below the budget is ValueError, a missing file IOError, an error
   inside an included file is passed up unchanged *)
Theorem C15_first_failure_decides :
  forall read reader base,
    (forall text pre l post r,
        lines_of text = pre ++ l :: post -> Forall (line_fine read reader base 0) pre -> reader l = Some r ->
        subst_by read reader base 0 text = Err PyValueError) /\
    (forall b text pre l post name,
        lines_of text = pre ++ l :: post -> Forall (line_fine read reader base (S b)) pre ->
        reader l = Some (Ok name) -> read (locate base name) = None ->
        subst_by read reader base (S b) text = Err PyIOError) /\
    (forall b text pre l post name t e,
        lines_of text = pre ++ l :: post -> Forall (line_fine read reader base (S b)) pre ->
        reader l = Some (Ok name) -> read (locate base name) = Some t ->
        subst_by read reader base b t = Err e ->
        subst_by read reader base (S b) text = Err e).
Proof.
  intros read reader base. split; [|split].
  - exact (directive_below_budget_is_ValueError read reader base).
  - exact (missing_file_is_IOError read reader base).
  - exact (nested_error_propagates read reader base).
Qed.
Print Assumptions C15_first_failure_decides.

(* ------------------------------------------------------------------ *)
(* 5. open(root) = loads(flattened); expand_includes = False            *)
(* ------------------------------------------------------------------ *)

(* the expansion contains no line the code would expand again, so loading the
   flattened text - from any working directory, with any file system - hands
   the Mapfile parser the same text as opening the root file; [k] is the rest
   of the pipeline (LALR parse and transformer) *)
Theorem C15_open_equals_loads_of_flattened :
  forall (A : Type) (k : str -> res A) fs cwd fn root_text flat,
    isabs cwd = true ->
    open_file fs cwd fn = Ok root_text ->
    load_includes fs cwd root_text (Some fn) = Ok flat ->
    forall fs' cwd', api_open k true fs cwd fn = api_loads k true fs' cwd' flat.
Proof. exact (@open_equals_loads_of_flattened). Qed.
Print Assumptions C15_open_equals_loads_of_flattened.

Theorem C15_expansion_is_fixed_point :
  forall fs cwd text fn flat,
    isabs cwd = true -> load_includes fs cwd text fn = Ok flat ->
    forall fs' cwd' fn', load_includes fs' cwd' flat fn' = Ok flat.
Proof. exact expansion_is_fixed_point. Qed.
Print Assumptions C15_expansion_is_fixed_point.

(* load(fp) of a named file object = open of that file *)
Theorem C15_load_is_open_on_text :
  forall (A : Type) (k : str -> res A) fs cwd fn root_text,
    open_file fs cwd fn = Ok root_text ->
    api_open k true fs cwd fn = api_load k true fs cwd root_text (Some fn).
Proof. exact (@load_is_open_on_text). Qed.
Print Assumptions C15_load_is_open_on_text.

(* C15_no_expand_partial.  Full clause: with expand_includes=False the
   directives are kept as data and written back unchanged.  Proved here: the
   include stage leaves the text untouched and reads no file, for all three
   front ends (the text reaches the Mapfile parser as it is).  Missing: that
   the transformer stores INCLUDE as a repeated key and the printer writes it
   back (transformer.py / pprint.py are not part of this model; the hunter
   checks that half against the real API). *)
Theorem C15_no_expand_partial :
  forall (A : Type) (k : str -> res A) fs cwd text name,
    parse_text false fs cwd text name = Ok text /\
    api_loads k false fs cwd text = k text /\
    api_load k false fs cwd text name = k text /\
    (forall fn, api_open k false fs cwd fn = (do t <- open_file fs cwd fn; k t)).
Proof.
  intros A k fs cwd text name. split; [exact (no_expand_stage fs cwd text name)|].
  split; [exact (proj1 (no_expand_front_ends k fs cwd text name))|].
  split; [exact (proj2 (no_expand_front_ends k fs cwd text name))|]. exact (no_expand_open k fs cwd).
Qed.
Print Assumptions C15_no_expand_partial.

(* ------------------------------------------------------------------ *)
(* non-vacuity: a tree in nested folders that meets every guard, nested
   names resolved against the root folder (not the including file's), all
   three quoting styles, comment, CRLF; and the exact depth boundary *)
Definition ex_fs : fsys :=
  [([Str "srv"; Str "maps"; Str "root.map"], Str "MAP
  include 'inc/layer.map'  # shared
END");
   ([Str "srv"; Str "maps"; Str "inc"; Str "layer.map"],
    [76; 65; 89; 69; 82; 13; 10] ++ Str "  INCLUDE ""inc/deep/style.map""" ++ [13; 10] ++ Str "END");
   ([Str "srv"; Str "maps"; Str "inc"; Str "deep"; Str "style.map"], Str "INCLUDE ../lib/color.map");
   ([Str "srv"; Str "lib"; Str "color.map"], Str "COLOR 1 2 3");
   ([Str "srv"; Str "loop.map"], Str "INCLUDE /srv/loop.map")].

Example C15_example :
  isabs (Str "/somewhere/else") = true /\
  fs_ok ex_fs = true /\
  text_ok (Str "MAP
  include 'inc/layer.map'  # shared
END") = true /\
  api_open (fun t => Ok t) true ex_fs (Str "/somewhere/else") (Str "/srv/maps/root.map")
    = Ok (Str "MAP
LAYER
COLOR 1 2 3
END
END") /\
  load_includes ex_fs (Str "/srv/maps") (Str "INCLUDE inc/layer.map") None
    = Ok (Str "LAYER
COLOR 1 2 3
END") /\
  load_includes ex_fs (Str "/") (Str "INCLUDE srv/loop.map") None = Err PyValueError /\
  load_includes ex_fs (Str "/srv") (Str "INCLUDE nowhere.map") None = Err PyIOError.
Proof. repeat split; vm_compute; reflexivity. Qed.
