(* Property C20 - file, stream and command-line front ends agree with the
   string API.  Theorems only; every proof is [exact] of a lemma in Proofs/.

   Full statement (properties.jsonl): open(path), load(file object) and
   loads(text) return equal dictionaries for the same UTF-8 content, and save,
   dump and dumps produce the same characters, so any Unicode string value
   survives a save/open cycle unchanged.  `mappyfile format IN OUT` writes
   exactly what save(open(IN)) writes with the given options; `mappyfile
   validate FILES` prints one line per validation message and exits with status
   0 if and only if every matched file parsed and validated (non-zero
   otherwise, equal to the number of problems when that fits an exit status);
   `mappyfile schema OUT --version V` writes the JSON of the API's versioned
   schema.

   Not modelled (the statement is partial there; covered by real subprocess
   and file runs in tools/checks/C20.py): click's argument parsing, the OS
   exit-status channel, the codecs module internals.  The parser/transformer
   and the pretty printer are abstract (universally quantified) below. *)
From MF Require Import Lib.Base Model.Utf8 Model.Cli Spec.Frontends Proofs.C20.
Open Scope N_scope.

(* ---------------------------------------------------------------- codec *)

(* [U] Every string of Unicode scalar values can be encoded, and strict
   decoding of its UTF-8 gives the string back. *)
Theorem C20_utf8_roundtrip :
  forall s, all_scalar s = true -> exists b, utf8_encode s = Ok b /\ utf8_decode b = Ok s.
Proof. exact utf8_roundtrip. Qed.
Print Assumptions C20_utf8_roundtrip.

(* [U] Two strings with the same encoding are equal. *)
Theorem C20_decode_encode_inj :
  forall s1 s2 b, utf8_encode s1 = Ok b -> utf8_encode s2 = Ok b -> s1 = s2.
Proof. exact decode_encode_inj. Qed.
Print Assumptions C20_decode_encode_inj.

(* [U] The strict decoder accepts exactly the canonical encodings of strings of
   scalar values: overlong forms, surrogates, values above U+10FFFF, stray or
   missing continuation bytes and non-bytes are all rejected. *)
Theorem C20_utf8_decode_strict :
  forall b s, utf8_decode b = Ok s -> utf8_encode s = Ok b /\ all_scalar s = true.
Proof. exact utf8_decode_canonical. Qed.
Print Assumptions C20_utf8_decode_strict.

(* [U] Only strings of scalar values can be written. *)
Theorem C20_write_defined_iff_scalar :
  forall s, (exists b, write_text s = Ok b) <-> all_scalar s = true.
Proof. exact write_text_defined_iff. Qed.
Print Assumptions C20_write_defined_iff_scalar.

(* ------------------------------------------------- newline translation *)

(* [U] Reading in text mode is the identity exactly on texts without CR. *)
Theorem C20_newline_translation_identity :
  forall s, universal_newlines s = s <-> has_cr s = false.
Proof. exact newline_translation_identity_iff. Qed.
Print Assumptions C20_newline_translation_identity.

(* Full statement "any Unicode string survives save -> open unchanged":
     forall s, all_scalar s = true -> file_roundtrip s = Ok s
   is FALSE of the faithful model. *)
(* [R] witness: the three characters a CR b come back as a LF b. *)
Theorem C20_save_open_text_refuted :
  exists s, all_scalar s = true /\ file_roundtrip s = Ok [97; 10; 98] /\ s <> [97; 10; 98].
Proof. exact file_roundtrip_refuted. Qed.
Print Assumptions C20_save_open_text_refuted.

(* [U] strongest true restriction: save -> open gives the text with newlines
   translated; it is unchanged exactly when it contains no CR. *)
Theorem C20_save_open_text_guarded :
  forall s, all_scalar s = true ->
    file_roundtrip s = Ok (universal_newlines s) /\
    (file_roundtrip s = Ok s <-> has_cr s = false).
Proof.
  intros s H. split; [exact (file_roundtrip_spec s H)|exact (file_roundtrip_identity_iff s H)].
Qed.
Print Assumptions C20_save_open_text_guarded.

(* ------------------------------------------------------ loaders, writers *)

(* [U] For the same UTF-8 content without CR, open, load and loads are one
   function of the decoded text (for every parser/transformer); open and load
   of a named stream pass the file name, loads passes none, so they coincide
   whenever the parse does not depend on the name (no INCLUDE to resolve). *)
Theorem C20_three_loaders_agree :
  forall (D : Type) (parse_transform : filesys -> load_opts -> str -> option path -> res D)
         fs o fn b text,
    fs fn = Some b -> utf8_decode b = Ok text -> has_cr text = false ->
    open D parse_transform fs o fn = parse_transform fs o text (Some fn) /\
    load D parse_transform fs o (mk_stream text (Some fn) []) = parse_transform fs o text (Some fn) /\
    load D parse_transform fs o (mk_stream text None []) = loads D parse_transform fs o text /\
    (parse_transform fs o text (Some fn) = parse_transform fs o text None ->
     open D parse_transform fs o fn = loads D parse_transform fs o text /\
     load D parse_transform fs o (mk_stream text (Some fn) []) = loads D parse_transform fs o text).
Proof. exact three_loaders_agree. Qed.
Print Assumptions C20_three_loaders_agree.

(* [U] open(path) is load of the text stream Python's open gives for that path
   (same decoding, same newline translation, same name), with or without CR. *)
Theorem C20_open_is_load_of_text_stream :
  forall (D : Type) (parse_transform : filesys -> load_opts -> str -> option path -> res D) fs o fn,
    open D parse_transform fs o fn =
    match text_stream_of_file fs fn with
    | Ok fp => load D parse_transform fs o fp
    | Err e => Err e
    end.
Proof. exact open_is_load_of_text_stream. Qed.
Print Assumptions C20_open_is_load_of_text_stream.

(* [U] save, dump and dumps produce the same characters (for every printer):
   dump appends them to the stream, save stores their UTF-8 under the output
   name and changes no other file; when dumps raises, so do the others. *)
Theorem C20_three_writers_agree :
  forall (D : Type) (pprint : print_opts -> D -> res str) fs po d fp fn s,
    dumps D pprint po d = Ok s -> all_scalar s = true ->
    dump D pprint po d fp = Ok (mk_stream (st_text fp) (st_name fp) (st_written fp ++ s)) /\
    exists b, utf8_encode s = Ok b /\
              save D pprint fs po d fn = Ok (fs_write fs fn b) /\
              fs_write fs fn b fn = Some b /\ utf8_decode b = Ok s /\
              (forall p, p <> fn -> fs_write fs fn b p = fs p).
Proof. exact three_writers_agree. Qed.
Print Assumptions C20_three_writers_agree.

Theorem C20_writers_fail_together :
  forall (D : Type) (pprint : print_opts -> D -> res str) fs po d fp fn e,
    dumps D pprint po d = Err e ->
    dump D pprint po d fp = Err e /\ save D pprint fs po d fn = Err e.
Proof. exact writers_fail_together. Qed.
Print Assumptions C20_writers_fail_together.

(* [U] save then open is the parse of the printed characters (loads of dumps,
   with the file name) when they contain no CR; in general of their newline
   translation. *)
Theorem C20_save_open_cycle :
  forall (D : Type) (parse_transform : filesys -> load_opts -> str -> option path -> res D)
         (pprint : print_opts -> D -> res str) fs po d fn o s,
    dumps D pprint po d = Ok s -> all_scalar s = true ->
    exists fs', save D pprint fs po d fn = Ok fs' /\
                open D parse_transform fs' o fn = parse_transform fs' o (universal_newlines s) (Some fn) /\
                (has_cr s = false -> open D parse_transform fs' o fn = parse_transform fs' o s (Some fn)).
Proof. exact save_open_cycle. Qed.
Print Assumptions C20_save_open_cycle.

(* ----------------------------------------------------------- format command *)

(* [U] `mappyfile format IN OUT options` = save(open(IN, expand, comments,
   include_position=True), OUT, indent, decoded spacer/quote/newlinechar),
   exit status 0.  Restriction: options inside the modelled domain of the
   unicode_escape decoding (ASCII; backslash only before t n r, a quote or a
   backslash). *)
Theorem C20_format_is_save_open :
  forall (D : Type) (parse_transform : filesys -> load_opts -> str -> option path -> res D)
         (pprint : print_opts -> D -> res str) fs a q sp nl,
    unicode_escape_decode (f_quote a) = Some q ->
    unicode_escape_decode (f_spacer a) = Some sp ->
    unicode_escape_decode (f_newlinechar a) = Some nl ->
    format_cmd D parse_transform pprint fs a =
    Some (match open D parse_transform fs (mk_lopts (f_expand a) (f_comments a) true) (f_input a) with
          | Ok d =>
              match save D pprint fs (mk_popts (f_indent a) sp q nl false false false) d (f_output a) with
              | Ok fs' => Ok (fs', 0)
              | Err e => Err e
              end
          | Err e => Err e
          end).
Proof. exact format_is_save_open. Qed.
Print Assumptions C20_format_is_save_open.

(* [U] an option without backslash (plain ASCII) is passed on unchanged *)
Theorem C20_format_plain_option_unchanged :
  forall s, forallb (fun c => (c <? 128) && negb (c =? 92)) s = true -> unicode_escape_decode s = Some s.
Proof. exact unicode_escape_plain. Qed.
Print Assumptions C20_format_plain_option_unchanged.

(* ---------------------------------------------------------- validate command *)

(* [U] stdout: for every file in order one line per validation message (or
   the one-line verdict), then the summary line. *)
Theorem C20_validate_one_line_per_message :
  forall files, files <> [] ->
    validate_lines files = expected_lines files /\
    length (validate_lines files) = (total_messages files + count_ok files + parse_failures files + 1)%nat.
Proof.
  intros files H. split; [exact (validate_lines_spec files H)|exact (validate_lines_count files H)].
Qed.
Print Assumptions C20_validate_one_line_per_message.

(* [U] validate_exit_status, full strength (code as of /repo e0b6215: parse
   failures are counted, sys.exit(min(errors, 255))): for every list of matched
   files, status = 0 <-> every file parsed and validated, and status = number
   of problems (validation messages + files that failed to parse) whenever
   that number is below 256. *)
Theorem C20_validate_exit_status :
  forall files, status_meets_property files (validate_status files).
Proof. exact validate_status_meets_property. Qed.
Print Assumptions C20_validate_exit_status.

(* [U] the cap stated exactly: status = min(problems, 255) *)
Theorem C20_validate_status_exact :
  forall files, validate_status files = N.min (N.of_nat (problems files)) 255.
Proof. exact validate_status_exact. Qed.
Print Assumptions C20_validate_status_exact.

(* [U] the two halves separately *)
Theorem C20_validate_status_zero_iff_all_ok :
  forall files, validate_status files = 0 <-> all_ok files = true.
Proof. exact validate_exit_status. Qed.
Print Assumptions C20_validate_status_zero_iff_all_ok.

Theorem C20_status_equals_count_when_small :
  forall files, (problems files < 256)%nat -> validate_status files = N.of_nat (problems files).
Proof. exact status_equals_count_when_small. Qed.
Print Assumptions C20_status_equals_count_when_small.

(* [U] from 255 problems on the status is 255: never 0 because a count wrapped *)
Theorem C20_validate_status_capped :
  forall files, (255 <= problems files)%nat -> validate_status files = 255.
Proof. exact validate_status_capped. Qed.
Print Assumptions C20_validate_status_capped.

(* The witnesses that refuted the statement before e0b6215 (status 0 then):
   one unparseable file only, and exactly 256 messages. *)
Example C20_unparseable_only_status_nonzero : validate_status [([117], ParseFailed)] = 1.
Proof. exact validate_unparseable_only_status. Qed.

Example C20_256_messages_status_nonzero :
  validate_status [([98], Validated (repeat (mk_vmsg (Some 1%Z) (Some 1%Z) [109] [101]) 256))] = 255.
Proof. exact validate_256_messages_status. Qed.

(* [U] matched files: every non-directory glob result of every argument *)
Theorem C20_get_mapfiles_spec :
  forall glob isdir mapfiles mf,
    In mf (get_mapfiles glob isdir mapfiles) <->
    exists p, In p mapfiles /\ In mf (glob p) /\ isdir mf = false.
Proof. exact get_mapfiles_spec. Qed.
Print Assumptions C20_get_mapfiles_spec.

(* ------------------------------------------------------------ schema command *)

(* [U] `mappyfile schema OUT --version V` stores the UTF-8 of
   json.dumps(get_versioned_schema(V), sort_keys=True, indent=4) under OUT and
   exits 0 (decision level: the schema function and the JSON printer are
   abstract). *)
Theorem C20_schema_cmd :
  forall (J version : Type) (get_versioned_schema : option version -> J)
         (json_dumps_sorted_indent4 : J -> str) fs out v,
    all_scalar (json_dumps_sorted_indent4 (get_versioned_schema v)) = true ->
    exists b, schema_cmd J version get_versioned_schema json_dumps_sorted_indent4 fs out v
              = Ok (fs_write fs out b, 0) /\
              utf8_decode b = Ok (json_dumps_sorted_indent4 (get_versioned_schema v)).
Proof. exact schema_cmd_spec. Qed.
Print Assumptions C20_schema_cmd.

(* non-vacuity: a text with characters of 1, 2, 3 and 4 bytes (a, e-acute,
   U+4E2D, U+1F600) meets the hypotheses and round-trips through its 10 bytes;
   an overlong, a surrogate and a truncated sequence are rejected; a mixed
   file list (valid, 2 messages, unparseable) gives status 3 and 5 lines. *)
Example C20_example :
  all_scalar [97; 233; 20013; 128512] = true /\ has_cr [97; 233; 20013; 128512] = false /\
  utf8_encode [97; 233; 20013; 128512] = Ok [97; 195; 169; 228; 184; 173; 240; 159; 152; 128] /\
  file_roundtrip [97; 233; 20013; 128512] = Ok [97; 233; 20013; 128512] /\
  utf8_decode [192; 128] = Err PyValueError /\ utf8_decode [237; 160; 128] = Err PyValueError /\
  utf8_decode [240; 159; 152] = Err PyValueError /\
  validate_status [([97], Validated []);
                   ([98], Validated [mk_vmsg (Some 3%Z) (Some 17%Z) [109] [101]; mk_vmsg None None [109] [101]]);
                   ([99], ParseFailed)] = 3 /\
  length (validate_lines [([97], Validated []);
                          ([98], Validated [mk_vmsg (Some 3%Z) (Some 17%Z) [109] [101]; mk_vmsg None None [109] [101]]);
                          ([99], ParseFailed)]) = 5%nat.
Proof. vm_compute. repeat split; reflexivity. Qed.
