(* Property C05 - surface syntax does not change meaning.  Theorems only.
   PARTIAL on the separator clause (white space / line breaks / comments
   BETWEEN tokens): it is false in general (finding C05-path-swallows-comment)
   and is covered by correspondence and hunter, see DESIGN.md 7/C05. *)
From MF Require Import Lib.Base Lib.Regex Model.GrammarTypes Model.Lexer Model.LR Model.Case Model.Transformer
  Proofs.C05 Proofs.C02 Proofs.GrammarFacts Gen.Grammar.

(* ---- letter case of keywords *)

(* [U] the regex engine: matching a case-closed pattern does not see ASCII letter case *)
Theorem C05_case_closed_patterns_ignore_case :
  forall r v v', ci_closed r = true -> eq_ci v v' = true -> rx_fullmatch r v = rx_fullmatch r v'.
Proof. exact fullmatch_ci. Qed.
Print Assumptions C05_case_closed_patterns_ignore_case.

(* [F] on the generated grammar: every keyword pattern of every contextual
   scanner is case-closed ... *)
Theorem C05_every_keyword_pattern_case_closed : grammar_keywords_closed the_grammar = true.
Proof. exact the_grammar_keywords_closed. Qed.
Print Assumptions C05_every_keyword_pattern_case_closed.

(* ... hence [U] a keyword lexeme and every case variant of it get the same token type *)
Theorem C05_keyword_type_case_insensitive :
  forall lx ty l v v',
    In lx (g_root_lexer the_grammar :: g_lexers the_grammar) -> In (ty, l) (lx_unless lx) ->
    eq_ci v v' = true -> unless_retype l v = unless_retype l v'.
Proof.
  intros lx ty l v v' Hlx Hl He. apply unless_retype_ci; [|exact He].
  pose proof the_grammar_keywords_closed as H. unfold grammar_keywords_closed in H.
  apply andb_true_iff in H. destruct H as [Hall Hroot].
  assert (Hc : lexer_keywords_closed lx = true).
  { destruct Hlx as [<-|Hin]; [exact Hroot|]. rewrite forallb_forall in Hall. apply Hall. exact Hin. }
  unfold lexer_keywords_closed in Hc. rewrite forallb_forall in Hc. exact (Hc (ty, l) Hl).
Qed.
Print Assumptions C05_keyword_type_case_insensitive.

(* [F] the only terminals whose own pattern is case-sensitive are the string /
   regex terminals with the literal suffix flag i - no keyword among them *)
Theorem C05_case_sensitive_terminals :
  non_closed_terminals the_grammar =
    [Str "REGEXP1"; Str "DOUBLE_QUOTED_STRING"; Str "SINGLE_QUOTED_STRING"; Str "REGEXP2"; Str "ESCAPED_STRING"].
Proof. exact non_closed_terminals_spec. Qed.
Print Assumptions C05_case_sensitive_terminals.

(* [U] what the transformer and the hook read from a keyword lexeme - its lower-
   and upper-cased text - is the same for every case variant (the hook compared
   case-sensitively before the fix recorded in known_findings.json) *)
Theorem C05_keyword_uses_are_case_insensitive :
  forall v v', eq_ci v v' = true -> lower v = lower v' /\ upper v = upper v'.
Proof. exact (fun v v' H => conj (lower_ci v v' H) (upper_ci v v' H)). Qed.
Print Assumptions C05_keyword_uses_are_case_insensitive.

Theorem C05_hook_decision_case_insensitive :
  forall t t' vs s, eq_ci (tval t) (tval t') = true ->
    top_is upper (Tok t :: vs) s = top_is upper (Tok t' :: vs) s.
Proof. exact top_is_ci. Qed.
Print Assumptions C05_hook_decision_case_insensitive.

(* ---- ignored tokens *)

(* [U] white space, line breaks and comments never reach the parser: a token
   returned by the lexer was matched by a terminal outside the ignore set *)
Theorem C05_ignored_tokens_invisible :
  forall g wc lx fuel st t st',
    next_token g wc lx fuel st = LTok t st' ->
    exists ty0, memN ty0 (lx_ignore lx) = false /\
                ttype t = match assocN ty0 (lx_unless lx) with
                          | Some l => match unless_retype l (tval t) with Some x => x | None => ty0 end
                          | None => ty0
                          end.
Proof. exact next_token_not_ignored. Qed.
Print Assumptions C05_ignored_tokens_invisible.

(* ---- quote choice *)

(* [U] single or double quotes around the same body give the same value; an
   unquoted bare word is kept verbatim *)
Theorem C05_quote_choice :
  forall body, clean_string_s (34%N :: body ++ [34%N]) = clean_string_s (39%N :: body ++ [39%N]) /\
               clean_string_s (34%N :: body ++ [34%N]) = body.
Proof.
  intros body. rewrite (clean_quoted 34%N body (or_introl eq_refl)), (clean_quoted 39%N body (or_intror eq_refl)).
  split; reflexivity.
Qed.
Print Assumptions C05_quote_choice.

(* non-vacuity *)
Example C05_example :
  eq_ci (Str "ConnectionOptions") (Str "CONNECTIONOPTIONS") = true /\
  lower (Str "LaYeR") = Str "layer".
Proof. vm_compute. split; reflexivity. Qed.
