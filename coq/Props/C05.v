(* Property C05 - surface syntax does not change meaning.  Theorems only.
   PARTIAL on the separator clause (white space / line breaks / comments
   BETWEEN tokens): proved is that a separator standing at a token boundary is
   consumed as exactly one ignored token by every scanner (section "separators"
   below); NOT proved is that the token before it ends where the separator
   begins - false in general (finding C05-path-swallows-comment: PATH and the
   regex terminals can run into a following comment) - and that later tokens do
   not depend on the line counter except in their positions.  Those parts are
   covered by correspondence and hunter, see DESIGN.md 7/C05. *)
From MF Require Import Lib.Base Lib.Regex Model.GrammarTypes Model.Lexer Model.LR Model.Case Model.Transformer
  Proofs.C05 Proofs.C02 Proofs.GrammarFacts Proofs.SepFacts Proofs.SepSkip Proofs.C05U Proofs.C05U_Transform Model.Api Gen.Grammar.

(* ---- letter case of keywords *)

(* [U] the regex engine: matching a case-closed pattern does not see ASCII letter case *)
Theorem C05_case_closed_patterns_ignore_case :
  forall r v v', ci_closed r = true -> eq_ci v v' = true -> rx_fullmatch r v = rx_fullmatch r v'.
Proof. exact fullmatch_ci. Qed.
Print Assumptions C05_case_closed_patterns_ignore_case.

(* [F] on the generated grammar: every keyword pattern of every contextual
   scanner is case-closed ... *)
Theorem C05_every_keyword_pattern_case_closed : grammar_keywords_closed the_grammar = true.
Proof. exact the_grammar_keywords_closed. Qed.
Print Assumptions C05_every_keyword_pattern_case_closed.

(* ... hence [U] a keyword lexeme and every case variant of it get the same token type *)
Theorem C05_keyword_type_case_insensitive :
  forall lx ty l v v',
    In lx (g_root_lexer the_grammar :: g_lexers the_grammar) -> In (ty, l) (lx_unless lx) ->
    eq_ci v v' = true -> unless_retype l v = unless_retype l v'.
Proof.
  intros lx ty l v v' Hlx Hl He. apply unless_retype_ci; [|exact He].
  pose proof the_grammar_keywords_closed as H. unfold grammar_keywords_closed in H.
  apply andb_true_iff in H. destruct H as [Hall Hroot].
  assert (Hc : lexer_keywords_closed lx = true).
  { destruct Hlx as [<-|Hin]; [exact Hroot|]. rewrite forallb_forall in Hall. apply Hall. exact Hin. }
  unfold lexer_keywords_closed in Hc. rewrite forallb_forall in Hc. exact (Hc (ty, l) Hl).
Qed.
Print Assumptions C05_keyword_type_case_insensitive.

(* [F] the only terminals whose own pattern is case-sensitive are the string /
   regex terminals with the literal suffix flag i - no keyword among them *)
Theorem C05_case_sensitive_terminals :
  non_closed_terminals the_grammar =
    [Str "REGEXP1"; Str "DOUBLE_QUOTED_STRING"; Str "SINGLE_QUOTED_STRING"; Str "REGEXP2"; Str "ESCAPED_STRING"].
Proof. exact non_closed_terminals_spec. Qed.
Print Assumptions C05_case_sensitive_terminals.

(* [U] what the transformer and the hook read from a keyword lexeme - its lower-
   and upper-cased text - is the same for every case variant (the hook compared
   case-sensitively before the fix recorded in known_findings.json) *)
Theorem C05_keyword_uses_are_case_insensitive :
  forall v v', eq_ci v v' = true -> lower v = lower v' /\ upper v = upper v'.
Proof. exact (fun v v' H => conj (lower_ci v v' H) (upper_ci v v' H)). Qed.
Print Assumptions C05_keyword_uses_are_case_insensitive.

Theorem C05_hook_decision_case_insensitive :
  forall t t' vs s, eq_ci (tval t) (tval t') = true ->
    top_is upper (Tok t :: vs) s = top_is upper (Tok t' :: vs) s.
Proof. exact top_is_ci. Qed.
Print Assumptions C05_hook_decision_case_insensitive.

(* ---- ignored tokens *)

(* [U] white space, line breaks and comments never reach the parser: a token
   returned by the lexer was matched by a terminal outside the ignore set *)
Theorem C05_ignored_tokens_invisible :
  forall g wc lx fuel st t st',
    next_token g wc lx fuel st = LTok t st' ->
    exists ty0, memN ty0 (lx_ignore lx) = false /\
                ttype t = match assocN ty0 (lx_unless lx) with
                          | Some l => match unless_retype l (tval t) with Some x => x | None => ty0 end
                          | None => ty0
                          end.
Proof. exact next_token_not_ignored. Qed.
Print Assumptions C05_ignored_tokens_invisible.

(* ---- separators *)

(* [U]+[F] in every scanner of the generated grammar (root lexer and all
   contextual lexers, [F] readiness computed by the kernel) and for every
   comment body in which no "*/" begins: the whole comment is one ignored token
   (recorded for the comments pipeline when comments are requested) *)
Theorem C05_c_comment_is_one_ignored_token :
  forall wc lx fuel st body rest',
    In lx (all_lexers the_grammar) ->
    lazy_ok body = true ->
    ls_rest st = (47 :: 42 :: body ++ [42; 47]) ++ rest' ->
    (length (ls_rest st) <= fuel)%nat ->
    next_token the_grammar wc lx (S fuel) st =
    next_token the_grammar wc lx fuel (skip_state the_grammar wc lx TM_CCOMMENT st (47 :: 42 :: body ++ [42; 47]) rest').
Proof. exact ccomment_skipped. Qed.
Print Assumptions C05_c_comment_is_one_ignored_token.

(* a # comment runs to the end of its line, whatever it contains *)
Theorem C05_hash_comment_is_one_ignored_token :
  forall wc lx fuel st line rest',
    In lx (all_lexers the_grammar) ->
    forallb (fun c => negb (c =? 10)) line = true ->
    match rest' with [] => True | c :: _ => c = 10 end ->
    ls_rest st = (35 :: line) ++ rest' ->
    (length (ls_rest st) <= fuel)%nat ->
    next_token the_grammar wc lx (S fuel) st =
    next_token the_grammar wc lx fuel (skip_state the_grammar wc lx TM_COMMENT st (35 :: line) rest').
Proof. exact comment_skipped. Qed.
Print Assumptions C05_hash_comment_is_one_ignored_token.

(* a maximal run of blanks (space, tab, form feed) is skipped - except that a
   run starting with a space is part of the item inside the braces of a list
   expression, the one scanner that knows UNQUOTED_STRING_SPACE *)
Theorem C05_blanks_are_skipped :
  forall wc lx fuel st c run rest',
    In lx (all_lexers the_grammar) ->
    (c = 32 -> has_uss lx = false) ->
    forallb is_blank (c :: run) = true ->
    match rest' with [] => True | c' :: _ => is_blank c' = false end ->
    ls_rest st = (c :: run) ++ rest' ->
    (length (ls_rest st) <= fuel)%nat ->
    next_token the_grammar wc lx (S fuel) st =
    next_token the_grammar wc lx fuel (skip_state the_grammar wc lx TM_WS st (c :: run) rest').
Proof. exact blanks_skipped. Qed.
Print Assumptions C05_blanks_are_skipped.

Theorem C05_blank_sensitive_scanners :
  length (filter has_uss (g_lexers the_grammar)) = 1%nat /\ has_uss (g_root_lexer the_grammar) = true.
Proof. exact uss_scanners. Qed.
Print Assumptions C05_blank_sensitive_scanners.

(* a maximal run of line breaks (LF, CR in any mixture) is skipped *)
Theorem C05_line_breaks_are_skipped :
  forall wc lx fuel st c run rest',
    In lx (all_lexers the_grammar) ->
    forallb is_break (c :: run) = true ->
    match rest' with [] => True | c' :: _ => is_break c' = false end ->
    ls_rest st = (c :: run) ++ rest' ->
    (length (ls_rest st) <= fuel)%nat ->
    next_token the_grammar wc lx (S fuel) st =
    next_token the_grammar wc lx fuel (skip_state the_grammar wc lx TM__NL st (c :: run) rest').
Proof. exact breaks_skipped. Qed.
Print Assumptions C05_line_breaks_are_skipped.

(* non-vacuity: comment bodies with interior asterisks, slashes, quotes, hashes *)
Example C05_comment_bodies :
  lazy_ok (Str " width = lanes * 1.5 ") = true /\ lazy_ok (Str "* doc *") = true /\
  lazy_ok (Str " a / b # ""q"" ") = true /\ lazy_ok (Str "") = true /\ lazy_ok (Str "/") = true /\
  lazy_ok (Str " x */ y ") = false.
Proof. vm_compute. repeat split; reflexivity. Qed.

(* ---- separators do not change the parse (Proofs/C05U.v, C05U_Transform.v) *)

(* [U] lexing and parsing read positions only to record them: from two lexer
   states with the same remaining text (any line counters, either comment mode)
   and stacks equal up to positions, the parse loop yields the same token types
   and values, the same tree up to positions/metas, the same error class
   ([F] no terminal pattern uses an anchor that reads the absolute offset) *)
Theorem C05_parse_is_position_independent :
  forall h wc wc' fuel st st' ss vs vs' acc acc',
    ls_rest st = ls_rest st' -> map erase_tree vs = map erase_tree vs' -> map erase_tok acc = map erase_tok acc' ->
    erase_run (parse_loop the_grammar h wc fuel st ss vs acc) =
    erase_run (parse_loop the_grammar h wc' fuel st' ss vs' acc').
Proof. exact C05U_parse_loop_position_independent. Qed.
Print Assumptions C05_parse_is_position_independent.

(* [U] any sequence of separators (the four forms above, each standing where
   the next one or the text begins) in front of ANY text: same tokens, same tree
   up to positions, same error class *)
Theorem C05_leading_separators_parse :
  forall wc wc' cs text,
    seps_ok false cs text ->
    erase_pres (parse_text the_grammar the_hook wc (concat cs ++ text)) = erase_pres (parse_text the_grammar the_hook wc' text).
Proof. exact C05U_leading_separators_parse_text. Qed.
Print Assumptions C05_leading_separators_parse.

(* [U] ... and the same dictionary from loads (bookkeeping off), literally, when
   it holds no key spelled __position__ ... *)
Theorem C05_leading_separators_loads :
  forall cs text w, seps_ok false cs text ->
    loads false false text = Ok w -> no_pos_key w = true ->
    loads false false (concat cs ++ text) = Ok w.
Proof. exact C05U_loads_leading_separators_guarded. Qed.
Print Assumptions C05_leading_separators_loads.

(* [R] ... and not otherwise: an attribute spelled __type__ is taken for a block
   by composite() and its position record leaks into the plain dictionary, so a
   leading line break changes the result (known finding C05-attr-named-type;
   same two results on mappyfile.loads) *)
Theorem C05_leading_separator_refuted :
  exists (c text : str) (v w : value),
    sep_ok false c text /\
    loads false false (c ++ text) = Ok v /\ loads false false text = Ok w /\ v <> w.
Proof. exact loads_leading_separator_refuted. Qed.
Print Assumptions C05_leading_separator_refuted.

(* [U] any two separator sequences between the same two tokens give the same
   dictionary up to the values under __position__ keys.  PARTIAL: assumes that
   the lexer finishes the tokens of [pre] at the same place with the same stacks
   in both texts - not derivable in general, because a token may run into the
   separator ([R] below: PATH takes the slash of a following C comment, known
   finding C05-path-swallows-c-comment) *)
Theorem C05_separators_between_tokens_partial :
  forall pre cs cs' post C C' state ss,
    reaches the_grammar the_hook false (init the_grammar (pre ++ concat cs ++ post)) C ->
    ls_rest (c_st C) = concat cs ++ post ->
    reaches the_grammar the_hook false (init the_grammar (pre ++ concat cs' ++ post)) C' ->
    ls_rest (c_st C') = concat cs' ++ post ->
    c_ss C = state :: ss -> c_ss C' = state :: ss ->
    map erase_tree (c_vs C) = map erase_tree (c_vs C') ->
    map erase_tok (c_acc C) = map erase_tok (c_acc C') ->
    seps_ok (state_uss the_grammar state) cs post -> seps_ok (state_uss the_grammar state) cs' post ->
    erase_lres (loads false false (pre ++ concat cs ++ post)) =
    erase_lres (loads false false (pre ++ concat cs' ++ post)).
Proof. exact C05U_loads_separators_between_tokens_partial. Qed.
Print Assumptions C05_separators_between_tokens_partial.

Theorem C05_separator_after_extensible_token_refuted :
  exists pre chunk post,
    sep_ok false chunk post /\
    (exists t, erase_pres (parse_text the_grammar the_hook false (pre ++ post)) = Ok t) /\
    erase_pres (parse_text the_grammar the_hook false (pre ++ chunk ++ post)) = Err (LarkUnexpectedToken 0 0).
Proof. exact separator_after_extensible_token_refuted. Qed.
Print Assumptions C05_separator_after_extensible_token_refuted.

(* ---- quote choice *)

(* [U] single or double quotes around the same body give the same value; an
   unquoted bare word is kept verbatim *)
Theorem C05_quote_choice :
  forall body, clean_string_s (34%N :: body ++ [34%N]) = clean_string_s (39%N :: body ++ [39%N]) /\
               clean_string_s (34%N :: body ++ [34%N]) = body.
Proof.
  intros body. rewrite (clean_quoted 34%N body (or_introl eq_refl)), (clean_quoted 39%N body (or_intror eq_refl)).
  split; reflexivity.
Qed.
Print Assumptions C05_quote_choice.

(* non-vacuity *)
Example C05_example :
  eq_ci (Str "ConnectionOptions") (Str "CONNECTIONOPTIONS") = true /\
  lower (Str "LaYeR") = Str "layer".
Proof. vm_compute. split; reflexivity. Qed.
