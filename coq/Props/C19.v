(* Property C19 - grammar, keyword tables and schemas describe one vocabulary.
   The quantifier is finite: the product below is generated from the schema
   files on every run (Gen/SlotDocs*.v) and pushed through the whole model by
   the kernel (vm_compute, eight shards).  Theorems only. *)
From MF Require Import Lib.Base Model.SlotDoc Model.SlotCheck Model.Api Proofs.SlotsAll
  Proofs.GrammarFacts.

(* The slot documents that do NOT load to their intended structure: exactly
   these (each is a known finding of the pinned tree, replayed on the real
   code by the check); a new failing slot breaks this equation. *)
Definition known_failing_slots : list (str * str * str * str) :=
  [ (Str "symbol", Str "backgroundcolor", Str "hexcolor", Str "nested/first");
    (Str "outputformat", Str "imagemode", Str "enum:feature", Str "nested/first");
    (Str "symbol", Str "backgroundcolor", Str "rgb", Str "root/only");
    (Str "symbol", Str "backgroundcolor", Str "rgb", Str "nested/first");
    (Str "symbol", Str "backgroundcolor", Str "hexcolor-alpha", Str "root/only");
    (Str "symbol", Str "backgroundcolor", Str "hexcolor-alpha", Str "nested/first");
    (Str "symbol", Str "backgroundcolor", Str "rgb-none", Str "root/only");
    (Str "symbol", Str "backgroundcolor", Str "rgb-none", Str "nested/first");
    (Str "querymap", Str "style", Str "enum:normal", Str "nested/first");
    (Str "symbol", Str "backgroundcolor", Str "hexcolor", Str "root/only") ].

Lemma failing_equals_known : same_ids all_failing_ids known_failing_slots = true.
Proof. vm_compute. reflexivity. Qed.

Theorem C19_failing_slots_are_exactly_the_known_ones :
  forall id, In id all_failing_ids <-> In id known_failing_slots.
Proof. exact (same_ids_spec all_failing_ids known_failing_slots failing_equals_known). Qed.
Print Assumptions C19_failing_slots_are_exactly_the_known_ones.

(* [F] every (object type x keyword x value alternative x position) document of
   the product - written the way MapServer writes that alternative, at the root
   and nested in its parent chain, first and last in the block - is accepted
   with the keyword attached to that object and the intended value, except the
   known ones. *)
Theorem C19_slots_parse_to_intended_structure :
  forall sd, In sd all_slotdocs -> ~ In (slot_id sd) known_failing_slots -> slot_ok sd = true.
Proof.
  intros sd Hin Hnot. apply slots_ok_except; [exact Hin|].
  intros H. apply Hnot. apply C19_failing_slots_are_exactly_the_known_ones. exact H.
Qed.
Print Assumptions C19_slots_parse_to_intended_structure.

(* [F] every block type the grammar can open parses at the root (shared with C11) *)
Theorem C19_block_types_parse_at_root :
  forall name, In name block_type_names -> root_ok name = true.
Proof. exact (proj1 (forallb_forall root_ok block_type_names) every_block_type_is_a_root). Qed.
Print Assumptions C19_block_types_parse_at_root.

(* the defect, as a witness: SYMBOL BACKGROUNDCOLOR is rejected *)
Theorem C19_symbol_backgroundcolor_refuted :
  exists e, loads false false (Str "SYMBOL BACKGROUNDCOLOR 255 0 128 END") = Err e.
Proof. vm_compute. eexists. reflexivity. Qed.
Print Assumptions C19_symbol_backgroundcolor_refuted.

Example C19_product_is_large : (2000 <=? n_slotdocs)%nat = true.
Proof. vm_compute. reflexivity. Qed.
