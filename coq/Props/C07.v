(* Property C07 - Validation verdict equals the schema's verdict.
   Theorems only; every proof is [exact] of a lemma in Proofs/.

   Model: Model/Schema.v ([ierr] = jsonschema Draft4Validator.iter_errors over
   the $ref-expanded schema tree, [wf_schema] = the keyword shapes the model
   covers), Model/Validator.v (convert_lowercase, create_message, validate).
   Specification: Spec/Draft4.v ([conforms], [inline]).  [rx_search] is the
   table of recognisers for the schema regexes, tied to re.search by O-rx. *)
From MF Require Import Lib.Base Lib.Json Lib.PyDict Gen.Schemas Model.Case Model.SchemaStore Model.Schema
  Model.Validator Model.Api Spec.Versioned Spec.Draft4 Proofs.C07 Proofs.C07Paths Proofs.C07F Proofs.C07U.
Open Scope Z_scope.

(* [U] iter_errors_complete: for every well-formed schema tree (any nesting of
   properties / patternProperties / additionalProperties / items / allOf /
   anyOf / oneOf / not and the leaf keywords) and every instance, the model of
   iter_errors yields no error exactly when the instance conforms in the sense
   of Draft 4.  Induction on the schema. *)
Theorem C07_iter_errors_complete :
  forall s j, wf_schema s = true -> (ierr s j = [] <-> conforms rx_search s j = true).
Proof. exact iter_errors_complete_lemma. Qed.
Print Assumptions C07_iter_errors_complete.

(* [U] with $ref: what Draft4Validator sees through the jsonref proxies / the
   registry is the specification's inlining of the referenced files; a
   reference that cannot be resolved makes the model fail closed *)
Theorem C07_iter_errors_complete_refs :
  forall st root j errs,
    iter_errors st root j = Ok errs ->
    (errs = [] <-> conforms rx_search (inline (S (length st)) st root) j = true).
Proof. exact iter_errors_store_lemma. Qed.
Print Assumptions C07_iter_errors_complete_refs.

(* [F] the generated schema files are well-formed for the model *)
Theorem C07_shipped_schemas_wf :
  forallb (fun kv => wf_schema (expand schema_files (snd kv))) schema_files = true.
Proof. exact shipped_wf. Qed.
Print Assumptions C07_shipped_schemas_wf.

(* [U] verdict: validate (on one dictionary) returns no message exactly when
   the lower-cased JSON form conforms to the schema tree *)
Theorem C07_validate_verdict :
  forall tree d, wf_schema tree = true -> not_list d ->
    (run_validator tree d = Ok [] <-> conforms rx_search tree (to_json (convert_lowercase d)) = true).
Proof. exact validate_verdict_lemma. Qed.
Print Assumptions C07_validate_verdict.

(* [U] messages_cover, part 1: when validate returns, there is one message per
   schema error, in order; its "message" is ERROR: Invalid value in KEY where
   KEY is the last key of the error path; for a path that is empty or ends in
   a list index, the __type__ of the object it points to; and for a path that
   ends in a list index pointing to a non-object (an item of a list-valued
   keyword such as SIZE, EXTENT, POINTS) the last key of the path, i.e. the
   keyword holding the list ([target]) - for paths of any depth *)
Theorem C07_messages_cover :
  forall d errs msgs, get_error_messages d errs = Ok msgs -> Forall2 (message_for d) errs msgs.
Proof. exact messages_cover_lemma. Qed.
Print Assumptions C07_messages_cover.

(* [U] messages_cover, part 2: where the errors are.  A keyword whose value
   violates its schema yields errors at or below that keyword; an element of an
   object list at its index; unknown and missing keywords at the object itself;
   keywords without sub-schemas report exactly at the instance they judge *)
Theorem C07_errors_are_located :
  (forall kws props inst pk sub x e',
      In (Schema.K_properties, JObj props) kws -> In (pk, sub) props -> assoc pk inst = Some x ->
      In e' (ierr sub x) -> In (push (PKey pk) e') (ierr (JObj kws) (JObj inst))) /\
  (forall kws sch xs i x e',
      In (K_items, JObj sch) kws -> nth_error xs i = Some x -> In e' (ierr (JObj sch) x) ->
      In (push (PIdx (N.of_nat i)) e') (ierr (JObj kws) (JArr xs))) /\
  (forall kws inst,
      In (K_additionalProperties, JBool false) kws -> find_additional kws inst <> [] ->
      In (mk_verr [] K_additionalProperties) (ierr (JObj kws) (JObj inst))) /\
  (forall kws req inst p,
      In (K_required, JArr req) kws -> In (JStr p) req -> od_mem p inst = false ->
      In (mk_verr [] K_required) (ierr (JObj kws) (JObj inst))) /\
  (forall k v kws j, Forall (fun e => epath e = []) (leaf_errs k v kws j)).
Proof.
  exact (conj violating_property_reported (conj violating_item_reported
          (conj unknown_keyword_reported (conj missing_required_reported leaf_errs_here)))).
Qed.
Print Assumptions C07_errors_are_located.

(* [U] validate_never_raises: for every schema tree the model covers and every
   root dictionary of the shape loads / create produce - keys stored lower-case
   and once, a string __type__ on the root and on every dictionary that is a
   member of a list, no __position__ records (include_position=False, the
   default) - validate returns messages and does not raise; the same for a list
   of such dictionaries.  Proof: every error path of the model of iter_errors
   leads to a node of the instance (C07_error_paths_valid), the same path can
   be followed in the original dictionary, and create_message finds a
   dictionary to name in each of its four cases (since commit 4abf0be an error
   on an item of a list-valued keyword names the keyword holding the list).
   PARTIAL with respect to the property text in two ways: that loads / create
   produce [root_ok] dictionaries is an assumption about the transformer
   (checked on every document by the hunter), and dictionaries carrying
   __position__ records are covered by the guarded statement below and by
   O-val only. *)
Theorem C07_validate_never_raises_partial :
  forall tree d, wf_schema tree = true -> root_ok d = true -> exists msgs, run_validator tree d = Ok msgs.
Proof. exact validate_never_raises_lemma. Qed.
Print Assumptions C07_validate_never_raises_partial.

Theorem C07_validate_list_never_raises_partial :
  forall tree ds, wf_schema tree = true -> forallb root_ok ds = true ->
    exists msgs, run_validator tree (VList ds) = Ok msgs.
Proof. exact validate_list_never_raises_lemma. Qed.
Print Assumptions C07_validate_list_never_raises_partial.

(* ---- the assumption discharged for loaded dictionaries (Proofs/C07U.v, agent prover-c07) *)

(* [U] for EVERY text and flag combination the dictionary loads returns has the
   shape the never-raises theorem asks for - lower-case pairwise distinct keys, a
   string __type__ on the root and on every dictionary in a list - except,
   possibly, for __position__ entries *)
Theorem C07_loaded_dictionaries_are_shaped :
  forall ip ic text v, loads ip ic text = Ok v -> root_okS_any v.
Proof. exact loads_root_okS. Qed.
Print Assumptions C07_loaded_dictionaries_are_shaped.

(* [U] hence validate never raises on a dictionary loads returned (positions
   off) that holds no __position__ key, for every well-formed schema tree; the
   guard is exactly what is missing ([loads_root_ok_iff]) and is needed: [R] *)
Theorem C07_validate_loaded_never_raises :
  forall tree ic text v, wf_schema tree = true -> nopos_any v = true -> loads false ic text = Ok v ->
    exists msgs, run_validator tree v = Ok msgs.
Proof. exact validate_loaded_never_raises. Qed.
Print Assumptions C07_validate_loaded_never_raises.

Theorem C07_loaded_dictionary_with_position_key_refuted :
  exists text v, loads false false text = Ok v /\ ~ root_ok_any v /\ nopos_any v = false.
Proof. exact loads_root_ok_refuted_type_attribute. Qed.
Print Assumptions C07_loaded_dictionary_with_position_key_refuted.

(* [U] with positions recorded (any flags), against the shipped MAP schema:
   validate never raises on a loaded dictionary whose position records are
   records or non-empty lists of records wherever a message can be located
   ([posok_any]; PARTIAL: not proved for every loaded dictionary).  Before the
   fix b8dd688 recorded in known_findings.json this was refuted by
   MAP LAYER PROCESSING 5 END END (a list of records under a repeatable keyword). *)
Theorem C07_validate_loaded_never_raises_with_positions_partial :
  forall ip ic text v, posok_any v = true -> loads ip ic text = Ok v ->
    exists msgs, run_validator map_tree v = Ok msgs.
Proof. exact validate_loaded_never_raises_positions_map. Qed.
Print Assumptions C07_validate_loaded_never_raises_with_positions_partial.

(* [U] every error path of the model of iter_errors leads to a node of the
   instance (objects with distinct keys), for every schema tree *)
Theorem C07_error_paths_valid :
  forall s j e, jnodup j = true -> In e (ierr s j) -> valid j e.
Proof. exact ierr_paths_valid. Qed.
Print Assumptions C07_error_paths_valid.

(* [U] with position records (or any other dictionary tree): validate returns
   whenever every error has a dictionary as its target that names itself when
   the message is not named after a key, and that carries no position record *)
Theorem C07_validate_never_raises_guarded :
  forall tree d, wf_schema tree = true -> not_list d ->
    (forall e, In e (ierr tree (to_json (convert_lowercase d))) -> guard d e) ->
    exists msgs, run_validator tree d = Ok msgs.
Proof. exact validate_never_raises_guarded_lemma. Qed.
Print Assumptions C07_validate_never_raises_guarded.

(* [U] verdict_case_insensitive: lower-casing is idempotent, the verdict only
   depends on the lower-cased form, and changing nothing but the letter case of
   keys and string values does not change the lower-cased form *)
Theorem C07_convert_lowercase_idempotent :
  forall d, convert_lowercase (convert_lowercase d) = convert_lowercase d.
Proof. exact convert_lowercase_idem. Qed.
Print Assumptions C07_convert_lowercase_idempotent.

Theorem C07_verdict_case_insensitive :
  forall tree f d, not_list d -> not_list (recase f d) -> (forall s, lower (f s) = lower s) ->
    (run_validator tree (recase f d) = Ok [] <-> run_validator tree d = Ok []).
Proof.
  intros tree f d Hd Hr Hf.
  exact (verdict_depends_on_lowercase_lemma tree (recase f d) d Hr Hd (recase_same_lowercase f d Hf)).
Qed.
Print Assumptions C07_verdict_case_insensitive.

(* [F]+[U] hidden_keys_admitted: in the generated schema files every object
   schema that rejects unknown keys carries patternProperties
   "^__[a-z]+__$": {} ; such a key is never an "additional" property and the
   empty schema yields no error, so hidden keys never produce a message *)
Theorem C07_hidden_keys_admitted :
  forallb (fun kv => Proofs.C09.jall admits_hidden (snd kv)) schema_files = true /\
  (forall kws pps pat inst k x,
      assoc K_patternProperties kws = Some (JObj pps) -> In pat (keys pps) -> rx_search pat k = true ->
      ~ In (k, x) (find_additional kws inst)) /\
  (forall pat inst, pprops_errs ierr [(pat, JObj [])] inst = []) /\
  (forallb (fun k => rx_search hidden_pat k) [Str "__type__"; Str "__position__"; Str "__comments__"] = true /\
   existsb (fun k => rx_search hidden_pat k) [Str "type"; Str "__Type__"; Str "__x"; Str "____"; Str "__a_b__"] = false).
Proof.
  exact (conj hidden_everywhere (conj pattern_key_not_additional (conj empty_pattern_no_errors hidden_names))).
Qed.
Print Assumptions C07_hidden_keys_admitted.

(* [U] list_is_pointwise: a list of root dictionaries is validated one by one,
   messages concatenated (the first raising member raises) *)
Theorem C07_list_is_pointwise :
  forall tree ds, wf_schema tree = true ->
    run_validator tree (VList ds) = res_concat (map (_get_errors tree) ds).
Proof. exact list_is_pointwise_lemma. Qed.
Print Assumptions C07_list_is_pointwise.

(* non-vacuity: faults outside list-valued keywords at depth 3 inside object
   lists are reported with the right names (unknown keyword -> STYLE, wrong
   type -> WIDTH, value outside the enum -> TYPE) *)
Example C07_example :
  match fst (validate schema_files deep_fault_doc (Str "map") None init_state) with
  | Ok msgs => map (fun m => msg_field m (Str "message")) msgs
  | Err _ => []
  end
  = [Some (VStr (Str "ERROR: Invalid value in STYLE"));
     Some (VStr (Str "ERROR: Invalid value in WIDTH"));
     Some (VStr (Str "ERROR: Invalid value in TYPE"))].
Proof. exact deep_fault_messages. Qed.

(* the former counterexample to validate_never_raises (MAP SIZE 10.5 20 END,
   refuted before commit 4abf0be): validate now returns one message, located at
   ["size", 0] and naming SIZE; the document meets the hypothesis of
   C07_validate_never_raises_partial *)
Example C07_former_witness :
  match fst (validate schema_files size_doc (Str "map") None init_state) with
  | Ok msgs => map (fun m => (msg_field m (Str "path"), msg_field m (Str "message"))) msgs
  | Err _ => []
  end
  = [(Some (VList [VStr (Str "size"); VInt 0]), Some (VStr (Str "ERROR: Invalid value in SIZE")))]
  /\ root_ok size_doc = true /\ root_ok deep_fault_doc = true.
Proof. exact (conj size_doc_message example_docs_root_ok). Qed.
