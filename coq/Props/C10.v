(* Property C10 - expression rewriting preserves structure.
   Theorems only; every proof is [exact] of a lemma in Proofs/C10.v.

   Vocabulary (Model/Expr.v): [etree] is the expression sub-grammar as Lark
   builds it, [wf] the precedence ladder of mapfile.lark (the trees the grammar
   derives for [src_toks t]), [norm t] the string MapfileTransformer stores,
   [source t] an independent rendering of the source text, [norm_pieces] /
   [norm_toks] the tokens (and single spaces) of the stored string.
   Spec/MsExpr.v: [read], MapServer's precedence reader (OR < AND < NOT <
   comparisons < + - < * / % ^ < unary minus), written from the property text.
   Proofs/C10.v: [isrc t] / [inorm t] are the item lists (parenthesised groups
   nested) of the source and of the stored string; [items_texts] gives back
   their token texts. *)
From MF Require Import Lib.Base Lib.Json Model.Case Model.Expr Model.ObsExpr Spec.MsExpr Proofs.C10.

(* --- 1. leaves preserved ----------------------------------------------------
   The stored string is exactly the concatenation of its tokens and single
   spaces; dropping parentheses, its operand / operator sequence is the
   source's (unary plus, the identity, dropped); && || ! are spelled AND OR
   NOT, comparison and arithmetic operators, function names, bindings, strings,
   regular expressions and lists of plain elements are spelled verbatim,
   numerals and booleans keep their value. *)
Theorem C10_leaves_preserved :
  forall t : etree,
    norm t = flat (norm_pieces t)
    /\ unparen (norm_toks t) = drop_pos (unparen (src_toks t))
    /\ (forall k : tok,
          match k with
          | TAnd _ => tok_norm k = Str "AND"
          | TOr _ => tok_norm k = Str "OR"
          | TNot _ => tok_norm k = Str "NOT"
          | TLeaf l =>
              (leaf_verbatim l = true -> tok_norm k = tok_src k)
              /\ tok_norm k = tok_src (TLeaf (canon_leaf l)) /\ leaf_value_eq (canon_leaf l) l
          | _ => tok_norm k = tok_src k
          end).
Proof. exact leaves_preserved_lemma. Qed.
Print Assumptions C10_leaves_preserved.

(* ... except list elements that are attribute bindings: they lose their
   brackets (MapfileTransformer.list joins str(token)). *)
Theorem C10_list_elements_verbatim_refuted :
  exists l : leaf, leaf_src l = Str "{[a],[b]}" /\ leaf_str l = Str "{a,b}".
Proof. exact list_verbatim_refuted. Qed.
Print Assumptions C10_list_elements_verbatim_refuted.

(* --- 2. no regrouping -------------------------------------------------------
   Full statement: for every well-formed t, read (inorm t) = read (isrc t).
   It is FALSE of the faithful model (two witnesses below).  Proved under the
   guards [spell_ok] (every operator is spelled as MapServer's table has it:
   in particular "%" is not used as a comparison operator - spell_ok implies
   percent_free) and [paren_safe] (the textual in_parenthesis test of
   MapfileTransformer.expression never mistakes "(x) op (y)" for a
   parenthesised string).  The item lists are tied to the strings by
   C10_items_are_the_tokens. *)
Theorem C10_no_regrouping :
  forall t : etree,
    wf t = true -> spell_ok t = true -> paren_safe t = true ->
    read (inorm t) = read (isrc t) /\ aexpr_ok (read (isrc t)) = true.
Proof. exact no_regrouping_lemma. Qed.
Print Assumptions C10_no_regrouping.

Theorem C10_spell_ok_is_percent_free :
  forall t : etree, spell_ok t = true -> percent_free t = true.
Proof. exact spell_ok_percent_free. Qed.
Print Assumptions C10_spell_ok_is_percent_free.

Theorem C10_items_are_the_tokens :
  forall t : etree,
    items_texts (inorm t) = map tok_norm (norm_toks t)
    /\ items_texts (isrc t) = map tok_read (src_toks t).
Proof. intros t. split; [exact (inorm_texts t)|exact (isrc_texts t)]. Qed.
Print Assumptions C10_items_are_the_tokens.

(* "%" sits in compare_op: ( [a] = 1 % 2 ) is stored as ( ( [a] = 1 ) % 2 ) *)
Theorem C10_no_regrouping_refuted :
  wf W_percent = true /\ paren_safe W_percent = true
  /\ source W_percent = Str "( [a] = 1 % 2 )"
  /\ norm W_percent = Str "( ( [a] = 1 ) % 2 )"
  /\ read (inorm W_percent) <> read (isrc W_percent).
Proof. exact no_regrouping_refuted_percent. Qed.
Print Assumptions C10_no_regrouping_refuted.

(* the textual in_parenthesis test drops a group's parentheses *)
Theorem C10_no_regrouping_refuted_textual :
  wf W_textual_regroup = true /\ spell_ok W_textual_regroup = true
  /\ source W_textual_regroup = Str "( 2 / ( ( [a] + 1 ) * ( [b] + 2 ) ) )"
  /\ norm W_textual_regroup = Str "(2 / ([a] + 1) * ([b] + 2))"
  /\ read (inorm W_textual_regroup) <> read (isrc W_textual_regroup).
Proof. exact no_regrouping_refuted_textual. Qed.
Print Assumptions C10_no_regrouping_refuted_textual.

(* --- 3. re-parsing, at grammar level ----------------------------------------
   Full statement: for every well-formed t there is a well-formed t' whose
   source tokens are the tokens of norm t, which is a parenthesised expression
   again, and whose stored string is norm t.  FALSE without [paren_safe]
   (witness below); that the LALR automaton and the lexer pick t' is checked
   by the correspondence runs only (partial). *)
Theorem C10_reparse_fixed_point_partial :
  forall t : etree,
    wf t = true -> paren_safe t = true ->
    exists t' : etree,
      src_toks t' = map canon_tok (norm_toks t)
      /\ map tok_src (src_toks t') = map tok_norm (norm_toks t)
      /\ wf t' = true /\ norm t' = norm t
      /\ (is_group t = true -> is_group t' = true).
Proof. exact reparse_lemma. Qed.
Print Assumptions C10_reparse_fixed_point_partial.

Theorem C10_reparse_fixed_point_refuted :
  exists t : etree,
    wf t = true /\ is_group t = true
    /\ norm t = Str "([a] + 1) * ([b] + 2)"
    /\ forall t' : etree, is_group t' = true -> src_toks t' <> map canon_tok (norm_toks t).
Proof. exact reparse_refuted_lemma. Qed.
Print Assumptions C10_reparse_fixed_point_refuted.

(* unconditionally: the stored string's own tree has that stored string *)
Theorem C10_norm_idempotent_on_trees :
  forall t : etree, norm (renorm t) = norm t /\ src_toks (renorm t) = map canon_tok (norm_toks t).
Proof. intros t. split; [exact (norm_renorm t)|exact (src_toks_renorm t)]. Qed.
Print Assumptions C10_norm_idempotent_on_trees.

(* a stored integer numeral denotes the value it was printed from: re-reading
   it with int() gives the same value (floats: exact for <= 15 significant
   digits, checked by the O-literal correspondence only) *)
Theorem C10_int_numeral_value_kept :
  (forall z : Z, int_of_lit (py_int_repr z) = z)
  /\ (forall sp z, leaf_lit_ok (canon_leaf (LInt sp z)) = true).
Proof. split; [exact int_roundtrip|exact canon_int_lit_ok]. Qed.
Print Assumptions C10_int_numeral_value_kept.

(* MapfileTransformer.neg glues "-" to its operand: the tokens "-" "-" "[a]"
   are written "--[a]" (one bare word for the lexer; outside the token-level
   theorems above, found by the hunter) *)
Theorem C10_neg_glued_refuted :
  exists t : etree,
    wf t = true /\ paren_safe t = true /\ spell_ok t = true /\ neg_safe t = false
    /\ norm t = Str "(--[a])"
    /\ map tok_norm (norm_toks t) = [LP; Str "-"; Str "-"; Str "[a]"; RP].
Proof. exact neg_glued_refuted. Qed.
Print Assumptions C10_neg_glued_refuted.

(* --- 4. the printer leaves parenthesised values untouched -------------------- *)
Theorem C10_printer_leaves_parenthesised :
  forall (attr : str) (props : json) (v : str),
    slot_guard props = true -> in_parenthesis v = true ->
    format_value_str lower upper attr props v = v.
Proof. exact (printer_guard_lemma lower upper). Qed.
Print Assumptions C10_printer_leaves_parenthesised.

(* every expression-capable slot of the generated schemas meets the guard *)
Theorem C10_printer_slots :
  forallb (fun s => match attribute_properties (fst s) (snd s) with
                    | Some p => slot_guard p
                    | None => false
                    end) expression_slots = true.
Proof. exact printer_slots_lemma. Qed.
Print Assumptions C10_printer_slots.

(* non-vacuity: a mixed-precedence tree meets every hypothesis; its source,
   stored string and reading *)
Example C10_example :
  wf ex_tree = true /\ spell_ok ex_tree = true /\ paren_safe ex_tree = true /\ neg_safe ex_tree = true
  /\ source ex_tree = Str "( [a] > 007 + 2 * - [b] && ! length ( [n] ) eq 3 || ( [c] ~ /x/ ) )"
  /\ norm ex_tree = Str "( ( ( [a] > 7 + 2 * -[b] ) AND NOT ( (length([n])) eq 3 ) ) OR ( [c] ~ /x/ ) )"
  /\ read (inorm ex_tree) = abs ex_tree.
Proof. repeat split; vm_compute; reflexivity. Qed.
