(* Property C16 - pretty-printer layout contract.  Theorems only; every proof
   is [exact] of a lemma in Proofs/.  The statements are about pprint_lines
   (the list of lines PrettyPrinter.pprint joins with newlinechar) of the
   function-by-function model Model/PPrint.v and use the predicates of
   Spec/Layout.v only. *)
From MF Require Import Lib.Base Lib.PyDict Gen.Tokens Model.Case Model.Quoter Model.PPrint
  Spec.Layout Proofs.PPrintFacts Proofs.C16 Proofs.C16Breaks Proofs.C16Align Proofs.C16All.

(* compute_aligned_max_indent L = (L / max 1 indent + 1) * max 1 indent, the
   first multiple of max 1 indent strictly past L (unique).  Python computes
   int((int(L / indent) + 1) * indent) with a float division, which is the
   same integer for L < 2^53 (not modelled: floats). *)
Theorem C16_aligned_column_formula :
  forall o L,
    compute_aligned_max_indent o L = (L / Nat.max 1 (indent o) + 1) * Nat.max 1 (indent o)
    /\ first_multiple_past (Nat.max 1 (indent o)) L (compute_aligned_max_indent o L)
    /\ (forall c, first_multiple_past (Nat.max 1 (indent o)) L c -> c = compute_aligned_max_indent o L).
Proof. exact c16_aligned_column_formula_lemma. Qed.
Print Assumptions C16_aligned_column_formula.

(* Every block opened is closed by an END at the opener's indentation and the
   nesting is well bracketed: for every option set and every document (one
   object or a list of root objects) of the class layout_doc, the printed lines
   are a sequence of root blocks of the block grammar of Spec/Layout.v. *)
Theorem C16_end_matches_opener :
  forall o v lines v',
    quote_ok o = true -> roots_ok v = true ->
    pprint_lines o v = Ok (lines, v') ->
    laid_out (indent o) (spacer o) (end_comment o) lines.
Proof. exact c16_end_matches_opener_lemma. Qed.
Print Assumptions C16_end_matches_opener.

(* Each opener, keyword/value line and END starts with exactly (nesting depth x
   indent) copies of spacer followed by a non-blank, the nesting depth being
   the one of the block grammar. *)
Theorem C16_indent_is_depth_times_indent :
  forall o v lines v',
    quote_ok o = true -> roots_ok v = true ->
    pprint_lines o v = Ok (lines, v') ->
    exists al, roots (indent o) (spacer o) (end_comment o) al /\ map snd al = lines
               /\ Forall (fun dl => at_depth (indent o) (spacer o) (fst dl) (snd dl)) al.
Proof. exact c16_indent_is_depth_times_indent_lemma. Qed.
Print Assumptions C16_indent_is_depth_times_indent.

(* With end_comment the END of every block is followed by "# " and the word of
   its opener (the upper-cased type): the grammar instantiated at
   end_comment = true; a block is exactly opener :: body ++ [END # opener-word]. *)
Theorem C16_end_comment_names_type :
  forall o v lines v',
    quote_ok o = true -> roots_ok v = true -> end_comment o = true ->
    pprint_lines o v = Ok (lines, v') ->
    exists al, roots (indent o) (spacer o) true al /\ map snd al = lines
    /\ (forall d b, block (indent o) (spacer o) true d b ->
          exists name body, b = (d, margin (indent o) (spacer o) d ++ name) :: body
                                  ++ [(d, margin (indent o) (spacer o) d ++ Str "END # " ++ name)]).
Proof. exact c16_end_comment_names_type_lemma. Qed.
Print Assumptions C16_end_comment_names_type.

(* The full statement is false of the implementation for a root object that is
   itself a key-value block (METADATA, VALIDATION, CONNECTIONOPTIONS parsed
   directly): it is printed one level deep although its nesting depth is 0.
   root_ok excludes exactly these roots. *)
Theorem C16_root_keyvalue_refuted :
  exists v lines v',
    layout_doc v = true /\ pprint_lines default_opts v = Ok (lines, v')
    /\ ~ laid_out (indent default_opts) (spacer default_opts) (end_comment default_opts) lines.
Proof. exact c16_root_keyvalue_refuted_lemma. Qed.
Print Assumptions C16_root_keyvalue_refuted.

(* Every line break of the printed text is newlinechar: the text is the lines
   joined by newlinechar and, when no printed string (keyword, value, key or
   value of a key-value block) and not the spacer contains LF / CR, no line
   contains one.  (Strings or comments that themselves contain a break are the
   exception the property text makes.) *)
Theorem C16_every_break_is_newlinechar :
  forall o v text v',
    quote_ok o = true -> no_break (spacer o) = true -> break_free_roots v = true ->
    pprint o v = Ok (text, v') ->
    breaks_are (newlinechar o) text.
Proof. exact c16_every_break_is_newlinechar_lemma. Qed.
Print Assumptions C16_every_break_is_newlinechar.

(* With align_values, in every object of the document (at its nesting depth d)
   there is one column col, the first multiple of max 1 indent strictly past
   the longest simple keyword of that object, such that every simple keyword
   line (keywords printed on one line, each occurrence of a repeated key) is
   margin (d+1) ++ KEYWORD ++ spaces up to col ++ value. *)
Theorem C16_aligned_column :
  forall o v lines v' x d c its,
    quote_ok o = true -> align_values o = true -> roots_ok v = true ->
    pprint_lines o v = Ok (lines, v') ->
    (x = v \/ exists l, v = VList l /\ In x l) ->
    object_in 0 x d (VDict c its) ->
    exists col,
      first_multiple_past (Nat.max 1 (indent o)) (max_length (simple_keys its)) col
      /\ forall k w, In (k, w) its ->
           match kind_of k w with
           | KKeyword =>
               exists line, In line lines /\ keyword_line (indent o) (spacer o) (S d) col (upper k) line
           | KRepeated =>
               forall l y, w = VList l -> In y l ->
                 exists line, In line lines /\ keyword_line (indent o) (spacer o) (S d) col (upper k) line
           | _ => True
           end.
Proof. exact c16_aligned_column_lemma. Qed.
Print Assumptions C16_aligned_column.

(* The same clause is false of the implementation inside key-value blocks
   (METADATA, VALIDATION, VALUES, CONNECTIONOPTIONS): a key spelled like one of
   the printer's ignored block words is left out of the column computation.
   Entries of key-value blocks are therefore not covered by C16_aligned_column
   (partial: the alignment of key-value blocks whose keys avoid those words is
   exercised by the hunter only). *)
Theorem C16_keyvalue_alignment_refuted :
  exists lines v',
    roots_ok kv_align_doc = true
    /\ pprint_lines kv_align_opts kv_align_doc = Ok (lines, v')
    /\ first_multiple_past 4 12 16
    /\ ~ exists line, In line lines
                      /\ keyword_line 4 (Str " ") 2 16 (add_quotes 34%N (Str "projection")) line.
Proof. exact c16_keyvalue_alignment_refuted_lemma. Qed.
Print Assumptions C16_keyvalue_alignment_refuted.

(* the hypotheses are inhabited by a non-trivial document *)
Example C16_guard_inhabited :
  roots_ok example_doc = true /\ break_free_roots example_doc = true
  /\ exists lines v', pprint_lines (mk_opts 2 (Str " ") 39%N [10%N] true true true) example_doc = Ok (lines, v')
                      /\ length lines = 25.
Proof. split; [vm_compute; reflexivity|]. split; [vm_compute; reflexivity|]. eexists _, _. split; vm_compute; reflexivity. Qed.
