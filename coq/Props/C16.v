(* Property C16 - pretty-printer layout contract.  Theorems only; every proof
   is [exact] of a lemma in Proofs/.  The statements are about pprint_lines
   (the list of lines PrettyPrinter.pprint joins with newlinechar) of the
   function-by-function model Model/PPrint.v and use the predicates of
   Spec/Layout.v only. *)
From MF Require Import Lib.Base Lib.PyDict Gen.Tokens Model.Case Model.Quoter Model.PPrint
  Spec.Layout Proofs.PPrintFacts Proofs.C16.

(* compute_aligned_max_indent L = (L / max 1 indent + 1) * max 1 indent, the
   first multiple of max 1 indent strictly past L (unique).  Python computes
   int((int(L / indent) + 1) * indent) with a float division, which is the
   same integer for L < 2^53 (not modelled: floats). *)
Theorem C16_aligned_column_formula :
  forall o L,
    compute_aligned_max_indent o L = (L / Nat.max 1 (indent o) + 1) * Nat.max 1 (indent o)
    /\ first_multiple_past (Nat.max 1 (indent o)) L (compute_aligned_max_indent o L)
    /\ (forall c, first_multiple_past (Nat.max 1 (indent o)) L c -> c = compute_aligned_max_indent o L).
Proof.
  intros o L. split; [exact (compute_aligned_formula o L)|]. split; [exact (compute_aligned_spec o L)|].
  intros c Hc. exact (first_multiple_past_unique _ L _ _ (Nat.le_max_l 1 (indent o)) Hc (compute_aligned_spec o L)).
Qed.
Print Assumptions C16_aligned_column_formula.

(* Every block opened is closed by an END at the opener's indentation and the
   nesting is well bracketed: for every option set and every document (one
   object or a list of root objects) of the class layout_doc, the printed lines
   are a sequence of root blocks of the block grammar of Spec/Layout.v. *)
Theorem C16_end_matches_opener :
  forall o v lines v',
    quote_ok o = true -> roots_ok v = true ->
    pprint_lines o v = Ok (lines, v') ->
    laid_out (indent o) (spacer o) (end_comment o) lines.
Proof. intros o v lines v' Hq Hr H. exact (pprint_lines_laid_out o Hq v lines v' H Hr). Qed.
Print Assumptions C16_end_matches_opener.

(* Each opener, keyword/value line and END starts with exactly (nesting depth x
   indent) copies of spacer followed by a non-blank, the nesting depth being
   the one of the block grammar. *)
Theorem C16_indent_is_depth_times_indent :
  forall o v lines v',
    quote_ok o = true -> roots_ok v = true ->
    pprint_lines o v = Ok (lines, v') ->
    exists al, roots (indent o) (spacer o) (end_comment o) al /\ map snd al = lines
               /\ Forall (fun dl => at_depth (indent o) (spacer o) (fst dl) (snd dl)) al.
Proof.
  intros o v lines v' Hq Hr H.
  destruct (pprint_lines_laid_out o Hq v lines v' H Hr) as (al & Hal & Hm).
  exists al. split; [exact Hal|]. split; [exact Hm|]. exact (roots_depths _ _ _ al Hal).
Qed.
Print Assumptions C16_indent_is_depth_times_indent.

(* With end_comment the END of every block is followed by "# " and the word of
   its opener (the upper-cased type): the grammar instantiated at
   end_comment = true; a block is exactly opener :: body ++ [END # opener-word]. *)
Theorem C16_end_comment_names_type :
  forall o v lines v',
    quote_ok o = true -> roots_ok v = true -> end_comment o = true ->
    pprint_lines o v = Ok (lines, v') ->
    exists al, roots (indent o) (spacer o) true al /\ map snd al = lines
    /\ (forall d b, block (indent o) (spacer o) true d b ->
          exists name body, b = (d, margin (indent o) (spacer o) d ++ name) :: body
                                  ++ [(d, margin (indent o) (spacer o) d ++ Str "END # " ++ name)]).
Proof.
  intros o v lines v' Hq Hr He H.
  destruct (pprint_lines_laid_out o Hq v lines v' H Hr) as (al & Hal & Hm).
  rewrite He in Hal. exists al. split; [exact Hal|]. split; [exact Hm|].
  intros d b Hb. inversion Hb as [d0 name body _ _ _]; subst. exists name, body. reflexivity.
Qed.
Print Assumptions C16_end_comment_names_type.

(* The full statement is false of the implementation for a root object that is
   itself a key-value block (METADATA, VALIDATION, CONNECTIONOPTIONS parsed
   directly): it is printed one level deep although its nesting depth is 0.
   root_ok excludes exactly these roots. *)
Theorem C16_root_keyvalue_refuted :
  exists v lines v',
    layout_doc v = true /\ pprint_lines default_opts v = Ok (lines, v')
    /\ ~ laid_out (indent default_opts) (spacer default_opts) (end_comment default_opts) lines.
Proof. exact root_keyvalue_counterexample. Qed.
Print Assumptions C16_root_keyvalue_refuted.

(* the hypotheses are inhabited by a non-trivial document *)
Example C16_guard_inhabited :
  roots_ok example_doc = true
  /\ exists lines v', pprint_lines (mk_opts 2 (Str " ") 39%N [10%N] true true true) example_doc = Ok (lines, v')
                      /\ length lines = 25.
Proof. split; [vm_compute; reflexivity|]. eexists _, _. split; vm_compute; reflexivity. Qed.
