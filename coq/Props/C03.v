(* Property C03 - pretty-printed text says exactly what the dictionary says.
   Theorems only; every proof is [exact] of a lemma in Proofs/.  Statements are
   about the function-by-function model Model/PPrint.v / Model/Quoter.v, the
   independent reader Spec/Reader.v and the schema slots of Gen/Schemas.v. *)
From MF Require Import Lib.Base Lib.PyDict Lib.Json Gen.Tokens Model.Case Model.Quoter Model.PPrint
  Spec.Layout Spec.Reader Proofs.PPrintFacts Proofs.C16 Proofs.C03 Proofs.C03Slots Proofs.C03All.

(* lexical_class, strings: for every keyword slot whose printer shape agrees with
   what its schema offers ([consistent], decided by computation below), and
   every string without the output quote and backslash, the text written is what
   the property requires ([required_string], Spec/Reader.v): an enumerated word
   bare and upper-cased, a binding / parenthesised expression / regular
   expression / list expression verbatim where the schema offers that
   alternative, a free string between quotes.  The word case is stated for plain
   ASCII words, the quoted case for strings that are none of the special forms. *)
Theorem C03_lexical_class_strings :
  forall o slot props s,
    quote_ok o = true -> consistent slot = true ->
    get_attribute_properties (fst (fst slot)) (snd (fst slot)) = Ok props ->
    string_ok (quote o) s = true ->
    exists out, format_value o (snd (fst slot)) props (VStr s) = Ok (VStr out)
                /\ required_met (quote o) (required_string (snd (fst slot)) (slot_offers slot) s) s out.
Proof. exact c03_lexical_class_strings_lemma. Qed.
Print Assumptions C03_lexical_class_strings.

(* the quantification over the 349 (type, keyword) slots of the generated schema:
   all are consistent except exactly the 14 keywords whose schema is
   allOf:[$ref] and offers strings (the defect below) *)
Theorem C03_lexical_class_slots :
  length all_slots = 349
  /\ inconsistent_slots = allof_defect_slots
  /\ forall slot, In slot all_slots -> consistent slot = true \/ In (slot_name slot) allof_defect_slots.
Proof. exact c03_slots_consistent_lemma. Qed.
Print Assumptions C03_lexical_class_slots.

(* refuted on the allOf:[$ref] slots: free strings, hex colours and enumerated
   words are written raw (unquoted, not upper-cased) *)
Theorem C03_lexical_class_allof_refuted :
  fv default_opts (Str "label") (Str "expression") (VStr (Str "abc")) = Ok (VStr (Str "abc"))
  /\ required_for (Str "label") (Str "expression") (Str "abc") = Some (RQuoted (Str "abc"))
  /\ fv default_opts (Str "class") (Str "backgroundcolor") (VStr (Str "#ff0000")) = Ok (VStr (Str "#ff0000"))
  /\ required_for (Str "class") (Str "backgroundcolor") (Str "#ff0000") = Some (RQuoted (Str "#ff0000"))
  /\ fv default_opts (Str "layer") (Str "debug") (VStr (Str "on")) = Ok (VStr (Str "on"))
  /\ required_for (Str "layer") (Str "debug") (Str "on") = Some (RWord (Str "ON")).
Proof. exact allof_unquoted_witness. Qed.
Print Assumptions C03_lexical_class_allof_refuted.

(* lexical_class, booleans: TRUE / FALSE, one bare word, for every keyword *)
Theorem C03_lexical_class_booleans :
  forall o attr props b,
    format_value o attr props (VBool b) = Ok (VStr (if b then Str "TRUE" else Str "FALSE"))
    /\ tokenize (if b then Str "TRUE" else Str "FALSE") = Some [(TWord, if b then Str "TRUE" else Str "FALSE")].
Proof. exact bool_text. Qed.
Print Assumptions C03_lexical_class_booleans.

(* lexical_class, numbers: written as they are (bare) except under a keyword
   typed string, where the number is written as a quoted string *)
Theorem C03_lexical_class_numbers :
  forall o attr props v,
    number_value v = true ->
    match pshape_of props with
    | PSString true => True
    | PSString false => format_value o attr props v = Ok (VStr (add_quotes (quote o) (py_str v)))
    | _ => format_value o attr props v = Ok v
    end.
Proof. exact number_text. Qed.
Print Assumptions C03_lexical_class_numbers.

(* lists of numbers: the numbers separated by single spaces *)
Theorem C03_lexical_class_number_lists :
  forall o attr props l,
    forallb number_value l = true ->
    match pshape_of props with
    | PSOneOf _ | PSFall => format_value o attr props (VList l) = Ok (VStr (join [c_sp] (map py_str l)))
    | _ => True
    end.
Proof. exact number_list_text. Qed.
Print Assumptions C03_lexical_class_number_lists.

(* refuted: bindings inside a list are quoted unless the keyword is offset / polaroffset *)
Theorem C03_list_binding_refuted :
  fv default_opts (Str "label") (Str "shadowsize") (VList [VStr (Str "[a]"); VStr (Str "[b]")])
    = Ok (VStr (add_quotes 34%N (Str "[a]") ++ Str " " ++ add_quotes 34%N (Str "[b]")))
  /\ fv default_opts (Str "label") (Str "offset") (VList [VStr (Str "[a]"); VStr (Str "[b]")])
    = Ok (VStr (Str "[a] [b]")).
Proof. exact list_binding_witness. Qed.
Print Assumptions C03_list_binding_refuted.

(* unrepresentable_refused: an empty dict is refused (ValueError) under each of
   the 46 keywords whose schema has a top-level enum *)
Theorem C03_unrepresentable_refused_enum :
  length enum_slots = 46
  /\ (forall o attr props c, pshape_of props = PSEnum -> format_value o attr props (VDict c []) = Err PyValueError)
  /\ (forall o slot c, In slot enum_slots -> fv o (fst (fst slot)) (snd (fst slot)) (VDict c []) = Err PyValueError).
Proof. split; [exact enum_slot_count|]. split; [exact empty_dict_refused_enum|exact empty_dict_refused_slots]. Qed.
Print Assumptions C03_unrepresentable_refused_enum.

(* refuted for the other keywords: the empty auto-created dict is written as text *)
Theorem C03_unrepresentable_refused_refuted :
  fv default_opts (Str "layer") (Str "group") (VDict (DCI false) []) = Ok (VStr (add_quotes 34%N (Str "{}")))
  /\ fv default_opts (Str "map") (Str "web") (VDict (DCI false) []) = Ok (VDict (DCI false) [])
  /\ exists text v', pprint default_opts autocreated_layer = Ok (text, v')
                     /\ str_contains (Str "GROUP ""{}""") text = true.
Proof. exact empty_dict_printed_witness. Qed.
Print Assumptions C03_unrepresentable_refused_refuted.

(* hidden_never_printed: the loop of _format adds no line for a __x__ key, a
   key-value block skips it, it does not count for the alignment column, and
   every line of an object's body comes from a visible key *)
Theorem C03_hidden_never_printed :
  (forall o rec type_ comments level aligned k v,
      hidden_key k = true -> format_item o rec type_ comments level aligned k v = Ok ([], v))
  /\ (forall o level aligned comments k v l,
      hidden_key k = true ->
      process_dict_lines o level aligned comments ((k, v) :: l) = process_dict_lines o level aligned comments l)
  /\ (forall o level c its lines v',
      _format o level (VDict c its) = Ok (lines, v') ->
      exists type_ head (sorted : list (str * value)) (rs : list (list str * value)),
        lines = head ++ concat (map fst rs) ++ [add_end_line o level 0 type_]
        /\ (forall x, In x sorted <-> In x its)
        /\ Forall2 (fun kv r => hidden_key (fst kv) = true -> fst r = []) sorted rs).
Proof. split; [exact hidden_item_no_lines|]. split; [exact hidden_entry_no_line|exact body_lines_from_visible_keys]. Qed.
Print Assumptions C03_hidden_never_printed.

(* refuted inside CONFIG blocks, which are not filtered *)
Theorem C03_hidden_config_refuted :
  exists text v',
    pprint default_opts
      (VDict (DCI true) [(Str "__type__", VStr (Str "map"));
                         (Str "config", VDict (DCI true) [(Str "__x__", VStr (Str "y"))])]) = Ok (text, v')
    /\ str_contains (Str "__X__") text = true.
Proof. exact hidden_config_witness. Qed.
Print Assumptions C03_hidden_config_refuted.

(* print_reads_back_partial: the independent reader reads a quoted string, a
   clean bare word and a decimal integer back as exactly one token of the right
   class and content.  NOT proved (exercised by the hunter on every run): the
   same for floats and balanced groups, and the composition to whole documents
   (Reader.tokenize (join newlinechar lines) = tokens of the dictionary). *)
Theorem C03_print_reads_back_partial :
  (forall q s, is_quote q = true -> string_ok q s = true -> tokenize (add_quotes q s) = Some [(TQuoted, s)])
  /\ (forall w, clean_word w = true -> tokenize w = Some [word_token w])
  /\ (forall z, tokenize (py_str_int z) = Some [(TNumber, py_str_int z)]).
Proof. exact c03_tokens_read_back_lemma. Qed.
Print Assumptions C03_print_reads_back_partial.

Example C03_guards_inhabited :
  option_map consistent (find_slot (Str "layer") (Str "name")) = Some true
  /\ string_ok 34%N (Str "two words") = true /\ no_form (Str "two words") = true
  /\ required_for (Str "layer") (Str "name") (Str "two words") = Some (RQuoted (Str "two words")).
Proof. repeat split; vm_compute; reflexivity. Qed.
