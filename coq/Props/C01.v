(* Property C01 - parse -> pretty-print -> parse preserves Mapfile content.
   Theorems only. *)
From MF Require Import Lib.Base Model.SlotDoc Model.SlotCheck Model.PPrint Model.Roundtrip Model.Api
  Proofs.SlotsAll.

(* The root-level slot documents whose round trip does NOT preserve content:
   exactly these (type, keyword, value alternative) - every one is a keyword
   whose schema is wrapped in allOf (the printer's schema lookup falls through
   and writes strings / hex colours / bindings in the wrong lexical class).
   Known finding C01/C03; a new failing slot breaks this theorem. *)
Definition known_roundtrip_failures : list (str * str * str * str) :=
  map (fun p => (fst (fst p), snd (fst p), snd p, Str "root/only"))
   [ (Str "class", Str "backgroundcolor", Str "hexcolor"); (Str "class", Str "backgroundcolor", Str "hexcolor-alpha");
     (Str "class", Str "color", Str "hexcolor"); (Str "class", Str "color", Str "hexcolor-alpha");
     (Str "class", Str "outlinecolor", Str "hexcolor"); (Str "class", Str "outlinecolor", Str "hexcolor-alpha");
     (Str "label", Str "backgroundcolor", Str "hexcolor"); (Str "label", Str "backgroundcolor", Str "hexcolor-alpha");
     (Str "label", Str "backgroundshadowcolor", Str "hexcolor"); (Str "label", Str "backgroundshadowcolor", Str "hexcolor-alpha");
     (Str "label", Str "expression", Str "string"); (Str "label", Str "shadowsize", Str "tuple2");
     (Str "style", Str "backgroundcolor", Str "hexcolor"); (Str "style", Str "backgroundcolor", Str "hexcolor-alpha") ].

Lemma rt_failing_equals_known : same_ids all_rt_failing_ids known_roundtrip_failures = true.
Proof. vm_compute. reflexivity. Qed.

(* [F] PARTIAL.  Full statement wanted: for EVERY text loads accepts (keywords
   known to the schema, documented exclusions aside), dumps of the loaded
   dictionary is accepted again and loads to approximately the same dictionary.
   Proved by the kernel for every root-level document of the schema-generated
   slot product through the whole model (lexer, LR, transformer, printer with its
   schema lookups, and back), except the listed known failures.  For unbounded
   documents the statement rests on C03's printer theorems, C02's parser-side
   theorems and the correspondence / hunter runs (parser completeness on printer
   output is not a theorem). *)
Theorem C01_roundtrip_on_slot_product_partial :
  forall sd, In sd all_slotdocs -> root_only sd = true ->
             ~ In (slot_id sd) known_roundtrip_failures ->
             roundtrip_ok default_opts (sd_text sd) = true.
Proof.
  intros sd Hin Hr Hnot. apply roundtrip_ok_except; [exact Hin|exact Hr|].
  intros H. apply Hnot. apply (same_ids_spec _ _ rt_failing_equals_known). exact H.
Qed.
Print Assumptions C01_roundtrip_on_slot_product_partial.

(* [R] the defect as a witness: a quoted LABEL EXPRESSION string comes back bare and is rejected or retyped *)
Theorem C01_allof_slot_refuted :
  roundtrip_ok default_opts (Str "LABEL EXPRESSION ""w_expression value"" END") = false.
Proof. vm_compute. reflexivity. Qed.
Print Assumptions C01_allof_slot_refuted.

(* non-vacuity: a multi-object document survives the round trip *)
Example C01_example :
  roundtrip_ok default_opts (Str "MAP NAME ""m"" EXTENT 0 0 10 10.5 LAYER NAME 'l1' TYPE polygon CLASS STYLE COLOR 1 2 3 END END END LAYER NAME 'l2' PROCESSING ""A=1"" PROCESSING ""B=2"" END END") = true.
Proof. vm_compute. reflexivity. Qed.
