(* Property C11 - any input is parsed or rejected with a parse error.
   Theorems only.  Wall-clock time and the interpreter recursion limit are
   outside the model (checked by the hunter). *)
From MF Require Import Lib.Base Lib.Regex Model.GrammarTypes Model.Lexer Model.LR Model.Transformer Model.Api
  Proofs.C11 Proofs.GrammarFacts Proofs.LRFacts Proofs.Fuel Proofs.LRTyping Gen.Grammar.

(* [U] mappyfile's token-retyping hook is total: its only partial operation,
   value_stack[-1], is guarded (before the fix recorded in known_findings.json
   it raised IndexError for a bare word or GRID at the start of the input). *)
Theorem C11_hook_total : forall h t vs, exists t', hook h t vs = Ok t'.
Proof. exact hook_total. Qed.
Print Assumptions C11_hook_total.

(* [U] every failure of the transformer stage - plain or with comments, with
   or without positions, on ANY tree - is a lark VisitError: no assertion,
   IndexError, KeyError or AttributeError of a callback escapes unwrapped. *)
Theorem C11_transformer_failures_are_visit_errors :
  forall ip ic t e, transform ip ic t = Err e -> e = LarkVisitError.
Proof. exact (fun ip ic t => ov_transform ip ic t). Qed.
Print Assumptions C11_transformer_failures_are_visit_errors.

(* [F] the LALR table Lark built for the current grammar passes the table
   validator of Proofs/LRFacts.v (every reduce action is preceded, on every path
   of the automaton, by states spelling its right-hand side; the goto after
   popping exists; the end marker is never shifted; inlined children are always
   tree nodes), and every token type the scanners can produce is a terminal *)
Theorem C11_lalr_table_validated : LRFacts.table_ok the_grammar = true /\ LRFacts.types_ok the_grammar the_hook = true.
Proof. exact (conj the_grammar_table_ok the_grammar_types_ok). Qed.
Print Assumptions C11_lalr_table_validated.

(* [U] for EVERY text, loads returns a value or fails with a lark VisitError, or
   UnexpectedCharacters / UnexpectedToken carrying the offending position - and
   nothing else.  The LR driver's internal failure modes (missing rule or goto,
   stack underflow, assertion, attribute error) are excluded by the stack
   invariant the validated table maintains; exhaustion of the model's own fuel
   (parse loop, lexer, matcher, consecutive reductions, transformer helpers) is
   excluded by Proofs/Fuel.v: every terminal pattern of every scanner is non-
   nullable ([F], sound nullability analysis), so each token consumes a character,
   and the table passes a validator bounding the reductions between two shifts
   ([F]) by the model's reduce_fuel. *)
Theorem C11_loads_failure_classes :
  forall ip ic text e,
    loads ip ic text = Err e ->
    e = LarkVisitError \/ lark_syntax_error e.
Proof. exact loads_errors_total. Qed.
Print Assumptions C11_loads_failure_classes.

(* [U] the parse never stops for lack of fuel; the matcher's answer does not
   depend on its fuel once it covers the remaining input (so the model's fuel
   parameters are artefacts of structural recursion, not behaviour) *)
Theorem C11_parse_never_out_of_fuel :
  forall wc text, parse_text the_grammar the_hook wc text <> Err OutOfFuel.
Proof. exact parse_text_never_out_of_fuel. Qed.
Print Assumptions C11_parse_never_out_of_fuel.

Theorem C11_matcher_fuel_irrelevant :
  forall r A f1 f2 (s : inp) (k : inp -> option A),
    (length (snd s) <= f1)%nat -> (length (snd s) <= f2)%nat -> rmatch r f1 s k = rmatch r f2 s k.
Proof. exact rmatch_fuel_stable. Qed.
Print Assumptions C11_matcher_fuel_irrelevant.

(* [F] the two validators behind it, on the generated grammar *)
Theorem C11_fuel_validators : lexers_nonnull the_grammar = true /\ reduce_fuel_ok the_grammar = true.
Proof. exact (conj the_grammar_lexers_nonnull the_grammar_reduce_fuel_ok). Qed.
Print Assumptions C11_fuel_validators.

(* [U] every tree the parser returns conforms to the grammar: each node was
   built by a rule of the grammar from values whose symbols spell the rule's
   expansion (Proofs/LRTyping.v: symbol-typing invariant of the LR stacks) *)
Theorem C11_parse_tree_conforms :
  forall ic text t, parse_tree ic text = Ok t ->
    has_sym the_grammar (acc the_grammar (g_end the_grammar)) (strip t) /\ conforms the_grammar (strip t).
Proof. exact parse_tree_strip_conforms. Qed.
Print Assumptions C11_parse_tree_conforms.

(* [F] every block type the generated grammar can open (its composite_type
   alternatives, plus METADATA, VALIDATION, CONNECTIONOPTIONS, SYMBOLSET) is
   accepted as the root of a partial Mapfile and yields a dict of that type. *)
Theorem C11_every_block_type_is_a_root :
  forall name, In name block_type_names -> root_ok name = true.
Proof. exact (proj1 (forallb_forall root_ok block_type_names) every_block_type_is_a_root). Qed.
Print Assumptions C11_every_block_type_is_a_root.

Theorem C11_block_types_counted : length block_type_names = 23%nat.
Proof. exact block_type_count. Qed.
Print Assumptions C11_block_types_counted.

(* non-vacuity: a syntax error with its position, a VisitError, a root GRID *)
Example C11_examples :
  loads false false (Str "MAP 1 END") = Err (LarkUnexpectedToken 1 5) /\
  loads false false (Str "FEATURE POINTS END END") = Err LarkVisitError /\
  loads false false (Str "foo bar") = Err (LarkUnexpectedToken 1 1) /\
  (exists v, loads false false (Str "GRID LABELFORMAT ""DD"" END") = Ok v).
Proof. vm_compute. repeat split. eexists; reflexivity. Qed.
