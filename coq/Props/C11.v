(* Property C11 - any input is parsed or rejected with a parse error.
   Theorems only.  Wall-clock time and the interpreter recursion limit are
   outside the model (checked by the hunter). *)
From MF Require Import Lib.Base Model.GrammarTypes Model.Lexer Model.LR Model.Transformer Model.Api
  Proofs.C11 Proofs.GrammarFacts Gen.Grammar.

(* [U] mappyfile's token-retyping hook is total: its only partial operation,
   value_stack[-1], is guarded (before the fix recorded in known_findings.json
   it raised IndexError for a bare word or GRID at the start of the input). *)
Theorem C11_hook_total : forall h t vs, exists t', hook h t vs = Ok t'.
Proof. exact hook_total. Qed.
Print Assumptions C11_hook_total.

(* [U] every failure of the transformer stage - plain or with comments, with
   or without positions, on ANY tree - is a lark VisitError: no assertion,
   IndexError, KeyError or AttributeError of a callback escapes unwrapped. *)
Theorem C11_transformer_failures_are_visit_errors :
  forall ip ic t e, transform ip ic t = Err e -> e = LarkVisitError.
Proof. exact (fun ip ic t => ov_transform ip ic t). Qed.
Print Assumptions C11_transformer_failures_are_visit_errors.

(* [U] PARTIAL.  Full statement wanted: for every text, loads returns a value or
   fails with VisitError / UnexpectedCharacters / UnexpectedToken carrying the
   offending position.  Proved: those three, or one of the LR driver's internal
   failure modes (missing goto / stack underflow / exhausted fuel), which a
   well-formed LALR table never triggers; excluding them needs an LR table
   validator and is left to the correspondence runs (no explored input reaches
   them). *)
Theorem C11_loads_failure_classes_partial :
  forall ip ic text e,
    loads ip ic text = Err e ->
    e = LarkVisitError \/ lark_syntax_error e \/ driver_internal e.
Proof. exact loads_errors. Qed.
Print Assumptions C11_loads_failure_classes_partial.

(* [F] every block type the generated grammar can open (its composite_type
   alternatives, plus METADATA, VALIDATION, CONNECTIONOPTIONS, SYMBOLSET) is
   accepted as the root of a partial Mapfile and yields a dict of that type. *)
Theorem C11_every_block_type_is_a_root :
  forall name, In name block_type_names -> root_ok name = true.
Proof. exact (proj1 (forallb_forall root_ok block_type_names) every_block_type_is_a_root). Qed.
Print Assumptions C11_every_block_type_is_a_root.

Theorem C11_block_types_counted : length block_type_names = 23%nat.
Proof. exact block_type_count. Qed.
Print Assumptions C11_block_types_counted.

(* non-vacuity: a syntax error with its position, a VisitError, a root GRID *)
Example C11_examples :
  loads false false (Str "MAP 1 END") = Err (LarkUnexpectedToken 1 5) /\
  loads false false (Str "FEATURE POINTS END END") = Err LarkVisitError /\
  loads false false (Str "foo bar") = Err (LarkUnexpectedToken 1 1) /\
  (exists v, loads false false (Str "GRID LABELFORMAT ""DD"" END") = Ok v).
Proof. vm_compute. repeat split. eexists; reflexivity. Qed.
