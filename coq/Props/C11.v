(* Property C11 - any input is parsed or rejected with a parse error.
   Theorems only.  Wall-clock time and the interpreter recursion limit are
   outside the model (checked by the hunter). *)
From MF Require Import Lib.Base Model.GrammarTypes Model.Lexer Model.LR Model.Transformer Model.Api
  Proofs.C11 Proofs.GrammarFacts Proofs.LRFacts Gen.Grammar.

(* [U] mappyfile's token-retyping hook is total: its only partial operation,
   value_stack[-1], is guarded (before the fix recorded in known_findings.json
   it raised IndexError for a bare word or GRID at the start of the input). *)
Theorem C11_hook_total : forall h t vs, exists t', hook h t vs = Ok t'.
Proof. exact hook_total. Qed.
Print Assumptions C11_hook_total.

(* [U] every failure of the transformer stage - plain or with comments, with
   or without positions, on ANY tree - is a lark VisitError: no assertion,
   IndexError, KeyError or AttributeError of a callback escapes unwrapped. *)
Theorem C11_transformer_failures_are_visit_errors :
  forall ip ic t e, transform ip ic t = Err e -> e = LarkVisitError.
Proof. exact (fun ip ic t => ov_transform ip ic t). Qed.
Print Assumptions C11_transformer_failures_are_visit_errors.

(* [F] the LALR table Lark built for the current grammar passes the table
   validator of Proofs/LRFacts.v (every reduce action is preceded, on every path
   of the automaton, by states spelling its right-hand side; the goto after
   popping exists; the end marker is never shifted; inlined children are always
   tree nodes), and every token type the scanners can produce is a terminal *)
Theorem C11_lalr_table_validated : LRFacts.table_ok the_grammar = true /\ LRFacts.types_ok the_grammar the_hook = true.
Proof. exact (conj the_grammar_table_ok the_grammar_types_ok). Qed.
Print Assumptions C11_lalr_table_validated.

(* [U] for EVERY text, loads returns a value or fails with a lark VisitError, or
   UnexpectedCharacters / UnexpectedToken carrying the offending position: the
   LR driver's internal failure modes (missing rule or goto, stack underflow,
   assertion, attribute error) are excluded by the stack invariant the validated
   table maintains.  PARTIAL only in that exhaustion of the model's reduce fuel
   (a bound on consecutive reductions, with no counterpart in Python) is not
   excluded by a theorem; no explored input reaches it. *)
Theorem C11_loads_failure_classes_partial :
  forall ip ic text e,
    loads ip ic text = Err e ->
    e = LarkVisitError \/ lark_syntax_error e \/ e = OutOfFuel.
Proof. exact loads_errors_strong. Qed.
Print Assumptions C11_loads_failure_classes_partial.

(* [F] every block type the generated grammar can open (its composite_type
   alternatives, plus METADATA, VALIDATION, CONNECTIONOPTIONS, SYMBOLSET) is
   accepted as the root of a partial Mapfile and yields a dict of that type. *)
Theorem C11_every_block_type_is_a_root :
  forall name, In name block_type_names -> root_ok name = true.
Proof. exact (proj1 (forallb_forall root_ok block_type_names) every_block_type_is_a_root). Qed.
Print Assumptions C11_every_block_type_is_a_root.

Theorem C11_block_types_counted : length block_type_names = 23%nat.
Proof. exact block_type_count. Qed.
Print Assumptions C11_block_types_counted.

(* non-vacuity: a syntax error with its position, a VisitError, a root GRID *)
Example C11_examples :
  loads false false (Str "MAP 1 END") = Err (LarkUnexpectedToken 1 5) /\
  loads false false (Str "FEATURE POINTS END END") = Err LarkVisitError /\
  loads false false (Str "foo bar") = Err (LarkUnexpectedToken 1 1) /\
  (exists v, loads false false (Str "GRID LABELFORMAT ""DD"" END") = Ok v).
Proof. vm_compute. repeat split. eexists; reflexivity. Qed.
