(* Property C13 - position and comment bookkeeping is transparent.  Theorems only. *)
From MF Require Import Lib.Base Model.GrammarTypes Model.Transformer Model.SlotDoc Model.SlotCheck Model.Api
  Proofs.SlotsAll Proofs.C13U Proofs.C13U_Comments Proofs.LRTyping Proofs.LRTyping_Gkv
  Proofs.C13C_Parse Proofs.C13C_Erase Proofs.C13C Proofs.C13C_Align Proofs.C13C_Conv.

(* ---- include_position, universally *)

(* [U] for EVERY text and either comment mode: when the load with positions and
   the load without both succeed, they are equal once every __position__ entry
   is removed at every depth (logical relation over all 48 transformer callbacks,
   the comments transformer and the final conversion) *)
Theorem C13_position_transparent :
  forall ic text v w, loads true ic text = Ok v -> loads false ic text = Ok w -> strip_pos v = strip_pos w.
Proof. exact position_transparent_loads. Qed.
Print Assumptions C13_position_transparent.

(* [U] one-sided form (the plain load IS the positioned load with the entries
   removed) whenever the plain result holds no key spelled __position__ ... *)
Theorem C13_position_erasure_guarded :
  forall ic text v w, loads true ic text = Ok v -> loads false ic text = Ok w -> no_pos w = true -> strip_pos v = w.
Proof. exact position_erasure_loads_guarded. Qed.
Print Assumptions C13_position_erasure_guarded.

(* [R] ... and false without that guard: a METADATA entry whose key is the string
   __position__ is overwritten by the position record (known finding
   C13-kv-key-named-position; same two results on mappyfile.loads) *)
Theorem C13_position_erasure_refuted :
  exists text v w, loads true false text = Ok v /\ loads false false text = Ok w /\ strip_pos v <> w.
Proof. exact position_erasure_loads_one_sided_refuted. Qed.
Print Assumptions C13_position_erasure_refuted.

(* [U] acceptance, comments off: a text that loads with positions loads without ... *)
Theorem C13_position_acceptance_on_to_off_partial :
  forall text v, loads true false text = Ok v -> exists w, loads false false text = Ok w.
Proof. exact position_alignment_loads_on_to_off_partial. Qed.
Print Assumptions C13_position_acceptance_on_to_off_partial.

(* ... and conversely: the shape guard the transformer-level argument needs
   (children of key-value blocks are tokens or pairs) is discharged for every
   tree the parser returns by the grammar-conformance theorem of the LR driver
   (Proofs/LRTyping.v).  PARTIAL only in being stated for include_comments=False.
   For arbitrary trees it is false ([R] below). *)
Theorem C13_position_acceptance_off_to_on_partial :
  forall text w, loads false false text = Ok w -> exists v, loads true false text = Ok v.
Proof. exact position_alignment_loads_off_to_on_unguarded_partial. Qed.
Print Assumptions C13_position_acceptance_off_to_on_partial.

Theorem C13_position_acceptance_unguarded_refuted :
  exists ic (t : tree), (exists y, tr_main false ic (gtree_of t) = Ok y) /\ tr_main true ic (gtree_of t) = Err LarkVisitError.
Proof. exact position_alignment_off_to_on_unguarded_refuted. Qed.
Print Assumptions C13_position_acceptance_unguarded_refuted.

(* ---- include_comments, universally *)

(* [U] the parser: with or without comments the same texts are accepted, with
   the same error otherwise, the same token stream, and trees of the same shape
   (node names and tokens; only metas differ) *)
Theorem C13_parser_comment_mode_same_shape :
  forall text, res_shape (parse_tree true text) (parse_tree false text).
Proof. exact parse_tree_comments_shape. Qed.
Print Assumptions C13_parser_comment_mode_same_shape.

(* [U] for EVERY text and either position mode: when the load with comments and
   the load without both succeed, they are equal once every __comments__ entry
   is removed at every depth *)
Theorem C13_comments_transparent :
  forall ip text v w, loads ip true text = Ok v -> loads ip false text = Ok w -> strip_cm v = strip_cm w.
Proof. exact comments_transparent_loads. Qed.
Print Assumptions C13_comments_transparent.

(* [U] a text that loads with comments loads without ... *)
Theorem C13_comments_acceptance_on_to_off :
  forall ip text v, loads ip true text = Ok v -> exists w, loads ip false text = Ok w.
Proof. exact comments_alignment_loads_on_to_off. Qed.
Print Assumptions C13_comments_acceptance_on_to_off.

(* [R] ... the converse is false: a key-value entry spelled __comments__ makes
   the comments run fail (known finding C13-kv-key-named-comments; same on the
   real loads). *)
Theorem C13_comments_acceptance_off_to_on_refuted :
  exists text, forall ip, (exists w, loads ip false text = Ok w) /\ loads ip true text = Err LarkVisitError.
Proof. exact comments_alignment_loads_off_to_on_refuted. Qed.
Print Assumptions C13_comments_acceptance_off_to_on_refuted.

(* [U] ... and that is the ONLY way: for every text in whose parse tree no pair
   of a VALUES / METADATA / VALIDATION / CONNECTIONOPTIONS block has a key that,
   unquoted and lower-cased, is spelled __comments__ (KEYGUARD, a boolean computed
   from the text alone; Proofs/C13C_Conv.v, agent prover-c13g), a text that loads
   without comments loads with comments, in either position mode.  Totality of the
   comments transformer and of the comments callback on parser-shaped trees, and
   the alignment of tr_main in the other direction.  The shape side conditions are
   discharged by the grammar-conformance theorems of Proofs/LRTyping.v. *)
Theorem C13_comments_acceptance_off_to_on_guarded :
  forall ip text w, loads ip false text = Ok w -> KEYGUARD text = true -> exists v, loads ip true text = Ok v.
Proof. exact comments_alignment_loads_off_to_on_keyguarded. Qed.
Print Assumptions C13_comments_acceptance_off_to_on_guarded.

(* [U] under the guard the two comment modes accept exactly the same texts *)
Theorem C13_comments_acceptance_iff_guarded :
  forall ip text, KEYGUARD text = true ->
  ((exists v, loads ip true text = Ok v) <-> (exists w, loads ip false text = Ok w)).
Proof. exact comments_alignment_loads_iff_keyguarded. Qed.
Print Assumptions C13_comments_acceptance_iff_guarded.

(* the guard is met by a commented document with METADATA and VALIDATION blocks,
   is violated by the refutation witness, and is sufficient but not necessary *)
Example C13_keyguard_nonvacuous :
  KEYGUARD commented_sample = true /\ KEYGUARD cex_comments_text = false.
Proof. split; [exact keyguard_holds_on_a_commented_text|exact keyguard_rejects_the_witness]. Qed.

(* ---- all four flag combinations *)

(* [U] THE property on the model, for every text: any two of the four loads that
   succeed are equal after removing both hidden keys at every depth, and whenever
   any of them succeeds the plain load succeeds *)
Theorem C13_bookkeeping_transparent :
  forall ip ic ip' ic' text v v',
    loads ip ic text = Ok v -> loads ip' ic' text = Ok v' -> strip_hidden v = strip_hidden v'.
Proof. exact bookkeeping_transparent_loads_any. Qed.
Print Assumptions C13_bookkeeping_transparent.

Theorem C13_plain_load_succeeds :
  forall ip ic text v, loads ip ic text = Ok v -> exists w, loads false false text = Ok w.
Proof. exact plain_load_succeeds. Qed.
Print Assumptions C13_plain_load_succeeds.

(* ---- the finite product (kept: it also covers acceptance in every direction on those documents) *)

(* [F] on every document of the schema-generated slot product (about 2500
   documents x 3 flag combinations, through lexer, LR driver, tree builder with
   propagate_positions, comment assignment, CommentsTransformer and
   MapfileTransformer) the four loads agree after removing the hidden keys AND
   succeed or fail together - the acceptance half that the universal theorems
   above leave partial (comments off -> on).  The name keeps _partial because it
   is a finite product. *)
Theorem C13_bookkeeping_transparent_on_slot_product_partial :
  forall sd, In sd all_slotdocs -> bookkeeping_ok (sd_text sd) = true.
Proof. exact bookkeeping_all_slots. Qed.
Print Assumptions C13_bookkeeping_transparent_on_slot_product_partial.

(* a commented document outside the product, to show the comment path is exercised *)
Example C13_example_with_comments :
  bookkeeping_ok (Str "# head
MAP # m
  NAME 'x' # trailing
  /* block */ LAYER TYPE POINT END
  METADATA 'a' 'b' # kv
  END
END") = true.
Proof. vm_compute. reflexivity. Qed.
