(* Property C13 - position and comment bookkeeping is transparent.  Theorems only. *)
From MF Require Import Lib.Base Model.SlotDoc Model.SlotCheck Model.Api Proofs.SlotsAll.

(* [F] PARTIAL.  Full statement wanted: for EVERY text, the result of loads with
   include_position and/or include_comments, with the hidden __position__ and
   __comments__ keys removed at every depth, equals the plain load (and fails
   exactly when the plain load fails).  Proved here by the kernel for every
   document of the schema-generated slot product (about 2500 documents x 3 flag
   combinations, through lexer, LR driver, tree builder with propagate_positions,
   comment assignment, CommentsTransformer and MapfileTransformer); the
   universal induction over trees is not done.  The correspondence runs compare
   the extracted model with the real loads under all four flag combinations on
   the corpus and on generated documents with comments. *)
Theorem C13_bookkeeping_transparent_on_slot_product_partial :
  forall sd, In sd all_slotdocs -> bookkeeping_ok (sd_text sd) = true.
Proof. exact bookkeeping_all_slots. Qed.
Print Assumptions C13_bookkeeping_transparent_on_slot_product_partial.

(* a commented document outside the product, to show the comment path is exercised *)
Example C13_example_with_comments :
  bookkeeping_ok (Str "# head
MAP # m
  NAME 'x' # trailing
  /* block */ LAYER TYPE POINT END
  METADATA 'a' 'b' # kv
  END
END") = true.
Proof. vm_compute. reflexivity. Qed.
