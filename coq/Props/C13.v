(* Property C13 - position and comment bookkeeping is transparent.  Theorems only. *)
From MF Require Import Lib.Base Model.GrammarTypes Model.Transformer Model.SlotDoc Model.SlotCheck Model.Api
  Proofs.SlotsAll Proofs.C13U Proofs.C13U_Comments.

(* ---- include_position, universally *)

(* [U] for EVERY text and either comment mode: when the load with positions and
   the load without both succeed, they are equal once every __position__ entry
   is removed at every depth (logical relation over all 48 transformer callbacks,
   the comments transformer and the final conversion) *)
Theorem C13_position_transparent :
  forall ic text v w, loads true ic text = Ok v -> loads false ic text = Ok w -> strip_pos v = strip_pos w.
Proof. exact position_transparent_loads. Qed.
Print Assumptions C13_position_transparent.

(* [U] one-sided form (the plain load IS the positioned load with the entries
   removed) whenever the plain result holds no key spelled __position__ ... *)
Theorem C13_position_erasure_guarded :
  forall ic text v w, loads true ic text = Ok v -> loads false ic text = Ok w -> no_pos w = true -> strip_pos v = w.
Proof. exact position_erasure_loads_guarded. Qed.
Print Assumptions C13_position_erasure_guarded.

(* [R] ... and false without that guard: a METADATA entry whose key is the string
   __position__ is overwritten by the position record (known finding
   C13-kv-key-named-position; same two results on mappyfile.loads) *)
Theorem C13_position_erasure_refuted :
  exists text v w, loads true false text = Ok v /\ loads false false text = Ok w /\ strip_pos v <> w.
Proof. exact position_erasure_loads_one_sided_refuted. Qed.
Print Assumptions C13_position_erasure_refuted.

(* [U] acceptance, comments off: a text that loads with positions loads without ... *)
Theorem C13_position_acceptance_on_to_off_partial :
  forall text v, loads true false text = Ok v -> exists w, loads false false text = Ok w.
Proof. exact position_alignment_loads_on_to_off_partial. Qed.
Print Assumptions C13_position_acceptance_on_to_off_partial.

(* ... and conversely under a shape guard on the parse tree (children of
   key-value blocks are tokens or pairs) that every tree the parser returns
   satisfies but for which no grammar-conformance theorem is available: PARTIAL.
   Without the guard it is false of arbitrary trees ([R] below). *)
Theorem C13_position_acceptance_off_to_on_partial :
  forall text w,
    (forall t, parse_tree false text = Ok t -> gkv (canonize (gtree_of t)) = true) ->
    loads false false text = Ok w -> exists v, loads true false text = Ok v.
Proof. exact position_alignment_loads_off_to_on_partial. Qed.
Print Assumptions C13_position_acceptance_off_to_on_partial.

Theorem C13_position_acceptance_unguarded_refuted :
  exists ic (t : tree), (exists y, tr_main false ic (gtree_of t) = Ok y) /\ tr_main true ic (gtree_of t) = Err LarkVisitError.
Proof. exact position_alignment_off_to_on_unguarded_refuted. Qed.
Print Assumptions C13_position_acceptance_unguarded_refuted.

(* ---- include_comments *)

(* [F] PARTIAL.  Full statement wanted: for EVERY text, the result of loads with
   include_position and/or include_comments, with the hidden __position__ and
   __comments__ keys removed at every depth, equals the plain load (and fails
   exactly when the plain load fails).  Proved here by the kernel for every
   document of the schema-generated slot product (about 2500 documents x 3 flag
   combinations, through lexer, LR driver, tree builder with propagate_positions,
   comment assignment, CommentsTransformer and MapfileTransformer); the
   universal induction over trees is not done.  The correspondence runs compare
   the extracted model with the real loads under all four flag combinations on
   the corpus and on generated documents with comments. *)
Theorem C13_bookkeeping_transparent_on_slot_product_partial :
  forall sd, In sd all_slotdocs -> bookkeeping_ok (sd_text sd) = true.
Proof. exact bookkeeping_all_slots. Qed.
Print Assumptions C13_bookkeeping_transparent_on_slot_product_partial.

(* a commented document outside the product, to show the comment path is exercised *)
Example C13_example_with_comments :
  bookkeeping_ok (Str "# head
MAP # m
  NAME 'x' # trailing
  /* block */ LAYER TYPE POINT END
  METADATA 'a' 'b' # kv
  END
END") = true.
Proof. vm_compute. reflexivity. Qed.
