From MF Require Import Lib.Base Lib.PyDict Gen.Tokens Model.Case Model.OrderedDict Model.DictUtils Proofs.CaseFacts Proofs.C18.

Theorem C18_delete_root :
  forall ow d2 d1, delete_flag lower d2 = true -> update lower ow d2 d1 = Ok (VDict DPlain []).
Proof. exact (update_root_delete lower). Qed.
Print Assumptions C18_delete_root.
