(* Property C18 - update / find helpers obey their documented laws.
   Theorems only; every proof is [exact] of a lemma in Proofs/C18.v (or a
   concrete witness checked by vm_compute for the refutations).

   The model (Model/DictUtils.v) is instantiated with str.lower (generated case
   table, idempotence proved in Proofs/CaseFacts.v) and OBJECT_LIST_KEYS
   (generated from tokens.py).  The vocabulary (lookup, mentions, marker,
   carries_delete, plain_value, object_list, zip_spec, silent, compatible,
   spec_find, spec_findall, increasing, get_path ...) is Spec/UpdateSpec.v.

   update is called as [update lower overwrite d2 d1] (patch first); d1 is a
   dictionary [VDict c1 m] satisfying its representation invariant [wf_items]
   (no key twice; Mapfile dicts hold lower-case keys), d2 = [VDict c2 p] does
   not carry __delete__ at the root (that case is C18_update_delete_root) and
   names each key of d1 at most once ([patch_keys_distinct]: true of every
   patch whose keys differ after lower-casing).  All laws are about every
   successful call ([= Ok r]); C18_update_total says the call succeeds whenever
   the shapes are compatible. *)
From MF Require Import Lib.Base Lib.PyDict Gen.Tokens Model.Case Model.OrderedDict Model.DictUtils
  Spec.UpdateSpec Proofs.CaseFacts Proofs.C18.

Notation OLK := OBJECT_LIST_KEYS.
Notation update' := (update lower).
Notation lookup' := (lookup lower).
Notation wf' := (wf_items lower).
Notation carries' := (carries_delete lower).
Notation distinct' := (patch_keys_distinct lower).
Notation mentions' := (mentions lower).
Notation key_of' := (key_of lower).
Notation item_value' := (item_value lower).
Notation find' := (find lower OLK).
Notation findall' := (findall lower OLK).
Notation findunique' := (findunique lower).
Notation findkey' := (findkey lower OLK).

(* ================================================================== update *)

(* update returns d1: a dictionary of d1's own class, still well formed *)
Theorem C18_update_returns_d1 :
  forall ow c1 c2 m p r,
    wf' c1 m -> carries' (VDict c2 p) = false ->
    update' ow (VDict c2 p) (VDict c1 m) = Ok r ->
    exists m', r = VDict c1 m' /\ wf' c1 m'.
Proof. exact (fun ow c1 c2 m p r Hw Hc => update_result_dict lower lower_idem ow c1 c2 m p Hw Hc r). Qed.
Print Assumptions C18_update_returns_d1.

(* frame: every key of d1 not mentioned in d2 keeps its value ... *)
Theorem C18_update_frame :
  forall ow c1 c2 m p r k,
    wf' c1 m -> carries' (VDict c2 p) = false ->
    update' ow (VDict c2 p) (VDict c1 m) = Ok r ->
    mentions' c1 p (key_of' c1 k) = false ->
    lookup' r k = lookup' (VDict c1 m) k.
Proof. exact (fun ow c1 c2 m p r k Hw Hc => update_frame lower lower_idem ow c1 c2 m p Hw Hc r k). Qed.
Print Assumptions C18_update_frame.

(* ... and its position relative to the other unmentioned keys *)
Theorem C18_update_frame_position :
  forall ow c1 c2 m p m',
    wf' c1 m -> carries' (VDict c2 p) = false ->
    update' ow (VDict c2 p) (VDict c1 m) = Ok (VDict c1 m') ->
    filter (fun k0 => negb (mentions' c1 p k0)) (keys m') =
    filter (fun k0 => negb (mentions' c1 p k0)) (keys m).
Proof. exact (fun ow c1 c2 m p m' Hw Hc => update_frame_order lower lower_idem ow c1 c2 m p Hw Hc m'). Qed.
Print Assumptions C18_update_frame_position.

(* the complete key order of the result: the keys of d1 that survive, in
   their old order, then the new keys in the order of the patch *)
Theorem C18_update_key_order :
  forall ow c1 c2 m p m',
    wf' c1 m -> carries' (VDict c2 p) = false -> distinct' c1 p ->
    update' ow (VDict c2 p) (VDict c1 m) = Ok (VDict c1 m') ->
    keys m' = filter (fun k0 => od_mem k0 m') (keys m)
              ++ filter (fun k0 => negb (od_mem k0 m) && od_mem k0 m') (map (key_of' c1) (keys p)).
Proof. exact (fun ow c1 c2 m p m' Hw Hc Hd => update_key_order lower lower_idem ow c1 c2 m p Hw Hc Hd m'). Qed.
Print Assumptions C18_update_key_order.

(* frame at every depth: along any path of dictionary keys about which the
   patch is silent (at some depth it does not mention the next key, and above
   that it only descends through unflagged dicts) the value is untouched *)
Theorem C18_update_frame_every_depth :
  forall ow ks d2 d1 r,
    silent lower d2 d1 ks -> update' ow d2 d1 = Ok r ->
    dict_path lower r ks = dict_path lower d1 ks.
Proof. exact (update_frame_deep lower lower_idem). Qed.
Print Assumptions C18_update_frame_every_depth.

(* scalar and non-object-list values of d2 replace those of d1 *)
Theorem C18_update_scalar_replace :
  forall c1 c2 m p r k v,
    wf' c1 m -> carries' (VDict c2 p) = false -> distinct' c1 p ->
    update' true (VDict c2 p) (VDict c1 m) = Ok r ->
    In (k, v) p -> plain_value v = true -> v <> marker ->
    lookup' r k = Some v.
Proof.
  exact (fun c1 c2 m p r k v Hw Hc Hd HU Hin Hp Hm =>
           update_scalar_replace lower lower_idem true c1 c2 m p Hw Hc Hd r k v HU Hin Hp Hm eq_refl).
Qed.
Print Assumptions C18_update_scalar_replace.

(* a key absent from d1 is added with d2's value, in both overwrite modes *)
Theorem C18_update_new_key :
  forall ow c1 c2 m p r k v,
    wf' c1 m -> carries' (VDict c2 p) = false -> distinct' c1 p ->
    update' ow (VDict c2 p) (VDict c1 m) = Ok r ->
    In (k, v) p -> plain_value v = true -> lookup' (VDict c1 m) k = None ->
    lookup' r k = Some v.
Proof. exact (fun ow c1 c2 m p r k v Hw Hc Hd => update_new_key lower lower_idem ow c1 c2 m p Hw Hc Hd r k v). Qed.
Print Assumptions C18_update_new_key.

(* never when overwrite=False and the key exists *)
Theorem C18_update_no_overwrite :
  forall c1 c2 m p r k v old,
    wf' c1 m -> carries' (VDict c2 p) = false -> distinct' c1 p ->
    update' false (VDict c2 p) (VDict c1 m) = Ok r ->
    In (k, v) p -> plain_value v = true -> v <> marker ->
    lookup' (VDict c1 m) k = Some old ->
    lookup' r k = Some old.
Proof.
  exact (fun c1 c2 m p r k v old Hw Hc Hd HU Hin Hp Hm =>
           update_no_overwrite lower lower_idem false c1 c2 m p Hw Hc Hd r k v old HU Hin Hp Hm eq_refl).
Qed.
Print Assumptions C18_update_no_overwrite.

(* nested dicts merge recursively: the value under k afterwards is the update
   of the old value (or of {} when k was absent) with the nested patch *)
Theorem C18_update_dict_merge_recursive :
  forall ow c1 c2 m p r k v,
    wf' c1 m -> carries' (VDict c2 p) = false -> distinct' c1 p ->
    update' ow (VDict c2 p) (VDict c1 m) = Ok r ->
    In (k, v) p -> is_dict v = true -> carries' v = false ->
    exists sub', update' ow v (old_or (lookup' (VDict c1 m) k) (VDict DPlain [])) = Ok sub' /\
                 lookup' r k = Some sub'.
Proof. exact (fun ow c1 c2 m p r k v Hw Hc Hd => update_dict_merge lower lower_idem ow c1 c2 m p Hw Hc Hd r k v). Qed.
Print Assumptions C18_update_dict_merge_recursive.

(* lists of dicts merge index by index (Spec zip_spec: None skips an index,
   a flagged dict drops the item, extra items are appended, index order) *)
Theorem C18_update_list_zip :
  forall ow c1 c2 m p r k pl orig,
    wf' c1 m -> carries' (VDict c2 p) = false -> distinct' c1 p ->
    update' ow (VDict c2 p) (VDict c1 m) = Ok r ->
    In (k, VList pl) p -> object_list (VList pl) = true ->
    old_or (lookup' (VDict c1 m) k) (VList []) = VList orig ->
    exists newl, lookup' r k = Some (VList newl) /\
                 zip_spec lower (fun n o => ok_of (update' ow n o)) orig pl = Some newl.
Proof. exact (fun ow c1 c2 m p r k pl orig Hw Hc Hd => update_list_zip lower lower_idem ow c1 c2 m p Hw Hc Hd r k pl orig). Qed.
Print Assumptions C18_update_list_zip.

(* ... in particular: placeholders for every existing item followed by new
   objects appends the new objects (each merged into an empty dict) *)
Theorem C18_update_list_append :
  forall ow c1 c2 m p r k extras orig,
    wf' c1 m -> carries' (VDict c2 p) = false -> distinct' c1 p ->
    update' ow (VDict c2 p) (VDict c1 m) = Ok r ->
    In (k, VList (repeat VNone (length orig) ++ extras)) p ->
    Forall (fun n => is_dict n = true /\ carries' n = false) extras ->
    lookup' (VDict c1 m) k = Some (VList orig) -> Forall (fun o => o <> VNone) orig ->
    exists news, each_new (update' ow) extras = Ok news /\ lookup' r k = Some (VList (orig ++ news)).
Proof. exact (fun ow c1 c2 m p r k extras orig => update_list_append lower lower_idem ow c1 c2 m p r k extras orig). Qed.
Print Assumptions C18_update_list_append.

(* a value '__delete__' removes the corresponding key.
   FULL STATEMENT (false of the code): after update, lookup r k = None for every
   entry (k, '__delete__') of the patch.  It fails when d1 does not have the
   key: the marker string itself is stored (C18_update_delete_key_absent_refuted).
   Proved under the guard that the key exists in d1. *)
Theorem C18_update_delete_key :
  forall ow c1 c2 m p r k,
    wf' c1 m -> carries' (VDict c2 p) = false -> distinct' c1 p ->
    update' ow (VDict c2 p) (VDict c1 m) = Ok r ->
    In (k, marker) p -> lookup' (VDict c1 m) k <> None ->
    lookup' r k = None.
Proof. exact (fun ow c1 c2 m p r k Hw Hc Hd => update_delete_key lower lower_idem ow c1 c2 m p Hw Hc Hd r k). Qed.
Print Assumptions C18_update_delete_key.

Theorem C18_update_delete_key_absent_refuted :
  exists ow d1 d2 r k,
    update' ow d2 d1 = Ok r /\ lookup' d2 k = Some marker /\ lookup' d1 k = None /\
    lookup' r k = Some marker.
Proof.
  exists true, (VDict DPlain []), (VDict DPlain [(Str "a", marker)]),
         (VDict DPlain [(Str "a", marker)]), (Str "a").
  vm_compute. repeat split; reflexivity.
Qed.
Print Assumptions C18_update_delete_key_absent_refuted.

(* a dict carrying __delete__ removes the object (the key necessarily existed:
   otherwise the call raises KeyError) *)
Theorem C18_update_delete_object :
  forall ow c1 c2 m p r k v,
    wf' c1 m -> carries' (VDict c2 p) = false -> distinct' c1 p ->
    update' ow (VDict c2 p) (VDict c1 m) = Ok r ->
    In (k, v) p -> is_dict v = true -> carries' v = true ->
    lookup' r k = None.
Proof. exact (fun ow c1 c2 m p r k v Hw Hc Hd => update_delete_object lower lower_idem ow c1 c2 m p Hw Hc Hd r k v). Qed.
Print Assumptions C18_update_delete_object.

(* ... removes the list item: i placeholders and a flagged dict delete item i *)
Theorem C18_update_delete_item :
  forall ow c1 c2 m p r k i n orig,
    wf' c1 m -> carries' (VDict c2 p) = false -> distinct' c1 p ->
    update' ow (VDict c2 p) (VDict c1 m) = Ok r ->
    In (k, VList (repeat VNone i ++ [n])) p -> carries' n = true ->
    lookup' (VDict c1 m) k = Some (VList orig) -> Forall (fun o => o <> VNone) orig ->
    (i < length orig)%nat ->
    lookup' r k = Some (VList (firstn i orig ++ skipn (S i) orig)).
Proof. exact (fun ow c1 c2 m p r k i n orig => update_delete_item lower lower_idem ow c1 c2 m p r k i n orig). Qed.
Print Assumptions C18_update_delete_item.

(* ... and at the root: the result is the empty dict *)
Theorem C18_update_delete_root :
  forall ow d2 d1, carries' d2 = true -> update' ow d2 d1 = Ok (VDict DPlain []).
Proof. exact (update_root_delete lower). Qed.
Print Assumptions C18_update_delete_root.

(* within shape compatibility (Spec compatible) update raises nothing *)
Theorem C18_update_total :
  forall ow d2 d1, compatible lower d2 d1 -> exists r, update' ow d2 d1 = Ok r.
Proof. exact (update_total lower lower_idem). Qed.
Print Assumptions C18_update_total.

(* the two shortcuts taken by the model of the list loop are sound: an empty
   patch returns d1 itself, and update never returns None for a d1 that is
   not None *)
Theorem C18_update_model_shortcuts :
  (forall ow c d1, update' ow (VDict c []) d1 = Ok d1) /\
  (forall ow d2 d1 r, update' ow d2 d1 = Ok r -> d1 <> VNone -> r <> VNone).
Proof. split; [exact (update_empty_patch lower)|exact (update_not_none lower)]. Qed.
Print Assumptions C18_update_model_shortcuts.

(* ================================================================== find *)

(* find returns the first item whose key equals the value, or None, and leaves
   the list alone.
   FULL STATEMENT (false of the code): for every list of dicts,
     find lst key want = (lst, Ok (spec_find lst key want)),
   items lacking the key being skipped and left unchanged.  It fails on any
   item lacking the key (C18_find_lacking_* below).  Proved for lists whose
   items all have the key, and (laziness) for any list up to the first match. *)
Theorem C18_find_first :
  forall lst key want,
    Forall (fun it => item_value' key it <> None) lst ->
    find' lst key want = (lst, Ok (spec_find lower lst key want)).
Proof. exact (fun lst key want => find_loop_present lower OLK lower_idem key want lst). Qed.
Print Assumptions C18_find_first.

Theorem C18_find_first_stops :
  forall key want pre it post v,
    Forall (fun x => exists u, item_value' key x = Some u /\ py_eqb u want = false) pre ->
    item_value' key it = Some v -> py_eqb v want = true ->
    find' (pre ++ it :: post) key want = (pre ++ it :: post, Ok it).
Proof. exact (find_loop_first lower OLK lower_idem). Qed.
Print Assumptions C18_find_first_stops.

(* what really happens to an item lacking the key: KeyError without a default
   factory; with one (Mapfile dicts) the key is inserted with a fresh {} / [] *)
Theorem C18_find_lacking_keyerror :
  forall key want c s rest,
    no_factory c = true -> item_value' key (VDict c s) = None ->
    find' (VDict c s :: rest) key want = (VDict c s :: rest, Err PyKeyError).
Proof. exact (find_loop_lacking_keyerror lower OLK lower_idem). Qed.
Print Assumptions C18_find_lacking_keyerror.

Theorem C18_find_lacking_autocreates :
  forall key want c s rest,
    no_factory c = false -> item_value' key (VDict c s) = None ->
    py_eqb (fresh OLK (lower key)) want = false ->
    find' (VDict c s :: rest) key want =
      (VDict c (s ++ [(lower key, fresh OLK (lower key))]) :: fst (find' rest key want),
       snd (find' rest key want)).
Proof. exact (find_loop_lacking_factory lower OLK lower_idem). Qed.
Print Assumptions C18_find_lacking_autocreates.

Theorem C18_find_lacking_unchanged_refuted :
  (exists lst key want lst', find' lst key want = (lst', Ok VNone) /\ lst' <> lst) /\
  (exists lst key want it, find' lst key want = (lst, Err PyKeyError) /\ spec_find lower lst key want = it /\ it <> VNone).
Proof.
  split.
  - exists [VDict (DCI true) [(Str "name", VStr (Str "a"))]], (Str "group"), (VStr (Str "x")),
           [VDict (DCI true) [(Str "name", VStr (Str "a")); (Str "group", VDict (DCI false) [])]].
    split; [vm_compute; reflexivity|discriminate].
  - exists [VDict DPlain [(Str "a", VInt 1)]; VDict DPlain [(Str "b", VInt 2)]], (Str "b"), (VInt 2),
           (VDict DPlain [(Str "b", VInt 2)]).
    split; [vm_compute; reflexivity|split; [vm_compute; reflexivity|discriminate]].
Qed.
Print Assumptions C18_find_lacking_unchanged_refuted.

(* ================================================================== findall *)

(* findall returns the items, in list order, whose key equals the value asked
   for (or is one of the values when a list of values is given).
   FULL STATEMENT (false of the code): for every list of dicts and every value,
     findall lst key want = (lst, Ok (spec_findall lst key want)).
   Refuted four ways below (substring matching, falsy values skipped, TypeError
   from the in operator, items lacking the key).  Proved on the domain where
   `item[key] and item[key] in value` means what the text says
   (Spec findall_in_domain: truthy item value; a list of values asked for, or a
   string of which the item's string value is not a proper substring). *)
Theorem C18_findall_filter :
  forall lst key want,
    Forall (fun it => exists v, item_value' key it = Some v /\ findall_in_domain want v = true) lst ->
    findall' lst key want = (lst, Ok (spec_findall lower lst key want)).
Proof. exact (fun lst key want => findall_loop_in_domain lower OLK lower_idem key want lst). Qed.
Print Assumptions C18_findall_filter.

Theorem C18_findall_substring_refuted :
  exists lst key want it v,
    findall' lst key want = (lst, Ok [it]) /\ item_value' key it = Some v /\ asked want v = false.
Proof.
  exists [VDict DPlain [(Str "name", VStr (Str "road"))]], (Str "name"), (VStr (Str "roads")),
         (VDict DPlain [(Str "name", VStr (Str "road"))]), (VStr (Str "road")).
  vm_compute. repeat split; reflexivity.
Qed.
Print Assumptions C18_findall_substring_refuted.

Theorem C18_findall_falsy_refuted :
  exists lst key want it v,
    findall' lst key want = (lst, Ok []) /\ In it lst /\ item_value' key it = Some v /\ asked want v = true.
Proof.
  exists [VDict DPlain [(Str "v", VInt 0)]], (Str "v"), (VList [VInt 0; VInt 1]),
         (VDict DPlain [(Str "v", VInt 0)]), (VInt 0).
  split; [vm_compute; reflexivity|]. split; [left; reflexivity|]. split; vm_compute; reflexivity.
Qed.
Print Assumptions C18_findall_falsy_refuted.

Theorem C18_findall_in_operator_refuted :
  exists lst key want it v,
    findall' lst key want = (lst, Err PyTypeError) /\ In it lst /\ item_value' key it = Some v /\ asked want v = true.
Proof.
  exists [VDict DPlain [(Str "v", VInt 5)]], (Str "v"), (VInt 5),
         (VDict DPlain [(Str "v", VInt 5)]), (VInt 5).
  split; [vm_compute; reflexivity|]. split; [left; reflexivity|]. split; vm_compute; reflexivity.
Qed.
Print Assumptions C18_findall_in_operator_refuted.

Theorem C18_findall_lacking_keyerror :
  forall key want c s rest,
    no_factory c = true -> item_value' key (VDict c s) = None ->
    findall' (VDict c s :: rest) key want = (VDict c s :: rest, Err PyKeyError).
Proof. exact (findall_loop_lacking_keyerror lower OLK lower_idem). Qed.
Print Assumptions C18_findall_lacking_keyerror.

(* a Mapfile dict lacking the key is skipped in the result (that half of the
   clause holds) but is changed: the key is inserted *)
Theorem C18_findall_lacking_skipped_but_changed :
  forall key want c s rest,
    no_factory c = false -> item_value' key (VDict c s) = None ->
    findall' (VDict c s :: rest) key want =
      (VDict c (s ++ [(lower key, fresh OLK (lower key))]) :: fst (findall' rest key want),
       snd (findall' rest key want)).
Proof. exact (findall_loop_lacking_factory lower OLK lower_idem). Qed.
Print Assumptions C18_findall_lacking_skipped_but_changed.

Theorem C18_findall_lacking_unchanged_refuted :
  exists lst key want lst', findall' lst key want = (lst', Ok []) /\ lst' <> lst.
Proof.
  exists [VDict (DCI true) [(Str "name", VStr (Str "a"))]], (Str "layers"), (VStr (Str "x")),
         [VDict (DCI true) [(Str "name", VStr (Str "a")); (Str "layers", VList [])]].
  split; [vm_compute; reflexivity|discriminate].
Qed.
Print Assumptions C18_findall_lacking_unchanged_refuted.

(* ================================================================== findunique *)

(* findunique returns the sorted distinct values present: for string values
   (the documented use) the result is strictly increasing and contains exactly
   the strings held under the key.  The model of findunique is a function of
   the list only (.get never creates keys): the list is unchanged. *)
Theorem C18_findunique_sorted_distinct :
  forall lst key,
    Forall (findunique_item_ok lower key) lst ->
    exists rs, findunique' lst key = Ok (map VStr rs) /\ increasing rs /\
               forall s, In s rs <-> exists it, In it lst /\ item_value' key it = Some (VStr s).
Proof. exact (findunique_strings lower). Qed.
Print Assumptions C18_findunique_sorted_distinct.

(* items lacking the key are skipped (and, findunique being a function of the
   list, left unchanged) *)
Theorem C18_findunique_lacking_skipped :
  forall pre it post key,
    is_dict it = true -> item_value' key it = None ->
    findunique' (pre ++ it :: post) key = findunique' (pre ++ post) key.
Proof. exact (findunique_lacking_skipped lower). Qed.
Print Assumptions C18_findunique_lacking_skipped.

(* ================================================================== findkey *)

(* findkey returns the element at a key/index path (Spec get_path: dict keys by
   the dict's own key rule, list indexes as in Python incl. negative ones) and
   leaves d unchanged, whenever the path exists *)
Theorem C18_findkey_path :
  forall path d v, get_path lower d path = Some v -> findkey' d path = (d, Ok v).
Proof. exact (findkey_path lower OLK lower_idem). Qed.
Print Assumptions C18_findkey_path.

(* ================================================================== examples *)

(* non-vacuity: a Mapfile layer and a patch with mixed-case keys meet every
   hypothesis above (well formed, distinct, compatible) and show replacement,
   recursion, placeholder / deletion / appending in a list, key deletion,
   a new key, and the untouched key keeping its place *)
Definition ex_d1 : value :=
  VDict (DCI true)
    [(Str "name", VStr (Str "x"));
     (Str "type", VStr (Str "POINT"));
     (Str "styles", VList [VDict (DCI true) [(Str "color", VInt 1)]; VDict (DCI true) [(Str "color", VInt 2)]]);
     (Str "metadata", VDict (DCI true) [(Str "a", VInt 1)]);
     (Str "old", VInt 0)].

Definition ex_d2 : value :=
  VDict DPlain
    [(Str "NAME", VStr (Str "y"));
     (Str "Styles", VList [VNone; VDict DPlain [(Str "__delete__", VBool true)]; VDict DPlain [(Str "width", VInt 3)]]);
     (Str "metadata", VDict DPlain [(Str "B", VInt 2)]);
     (Str "old", marker);
     (Str "group", VStr (Str "g"))].

Ltac nodup_tac := repeat constructor; cbn; intuition discriminate.
Ltac wf_tac := split; [nodup_tac|repeat constructor].

Example C18_example_update :
  update' true ex_d2 ex_d1 =
    Ok (VDict (DCI true)
          [(Str "name", VStr (Str "y"));
           (Str "type", VStr (Str "POINT"));
           (Str "styles", VList [VDict (DCI true) [(Str "color", VInt 1)]; VDict DPlain [(Str "width", VInt 3)]]);
           (Str "metadata", VDict (DCI true) [(Str "a", VInt 1); (Str "b", VInt 2)]);
           (Str "group", VStr (Str "g"))])
  /\ compatible lower ex_d2 ex_d1
  /\ silent lower ex_d2 ex_d1 [Str "metadata"; Str "a"]
  /\ mentions' (DCI true) [(Str "NAME", VNone)] (key_of' (DCI true) (Str "type")) = false.
Proof.
  split; [vm_compute; reflexivity|].
  assert (Hw : wf' (DCI true) [(Str "a", VInt 1)]) by wf_tac.
  assert (Hwd : wf' (DCI true)
                    [(Str "name", VStr (Str "x")); (Str "type", VStr (Str "POINT"));
                     (Str "styles", VList [VDict (DCI true) [(Str "color", VInt 1)]; VDict (DCI true) [(Str "color", VInt 2)]]);
                     (Str "metadata", VDict (DCI true) [(Str "a", VInt 1)]); (Str "old", VInt 0)]) by wf_tac.
  assert (Hdd : distinct' (DCI true)
                    [(Str "NAME", VStr (Str "y"));
                     (Str "Styles", VList [VNone; VDict DPlain [(Str "__delete__", VBool true)]; VDict DPlain [(Str "width", VInt 3)]]);
                     (Str "metadata", VDict DPlain [(Str "B", VInt 2)]); (Str "old", marker); (Str "group", VStr (Str "g"))]).
  { unfold patch_keys_distinct. vm_compute. nodup_tac. }
  split; [|split; [|vm_compute; reflexivity]].
  - right. split; [exact Hwd|]. split; [exact Hdd|].
    cbn [compat_entries]. split; [exact I|]. split.
    { cbn [compat_entry object_list forallb andb].
      exists [VDict (DCI true) [(Str "color", VInt 1)]; VDict (DCI true) [(Str "color", VInt 2)]].
      split; [vm_compute; reflexivity|].
      cbn [compat_items hd tl none_to_empty]. split; [left; reflexivity|].
      split; [right; left; vm_compute; reflexivity|].
      split; [|exact I]. right; right. right.
      split; [split; [constructor|exact I]|]. split; [unfold patch_keys_distinct; vm_compute; nodup_tac|].
      cbn [compat_entries compat_entry]. auto. }
    split.
    { change (compatible lower (VDict DPlain [(Str "B", VInt 2)]) (VDict (DCI true) [(Str "a", VInt 1)])).
      right. split; [exact Hw|]. split; [unfold patch_keys_distinct; vm_compute; nodup_tac|].
      cbn [compat_entries compat_entry]. auto. }
    exact (conj I (conj I I)).
  - cbn [silent ex_d1 ex_d2]. split; [exact Hwd|]. split; [exact Hdd|]. split; [vm_compute; reflexivity|].
    right. exists (Str "metadata"), (VDict DPlain [(Str "B", VInt 2)]), (VDict (DCI true) [(Str "a", VInt 1)]).
    split; [cbn; tauto|]. split; [reflexivity|]. split; [reflexivity|]. split; [vm_compute; reflexivity|].
    split; [vm_compute; reflexivity|].
    cbn [silent]. split; [exact Hw|].
    split; [unfold patch_keys_distinct; vm_compute; nodup_tac|].
    split; [vm_compute; reflexivity|]. left. vm_compute. reflexivity.
Qed.

Example C18_example_find :
  let layers := [VDict (DCI true) [(Str "name", VStr (Str "l1")); (Str "group", VStr (Str "roads"))];
                 VDict (DCI true) [(Str "name", VStr (Str "l2")); (Str "group", VStr (Str "rail"))];
                 VDict (DCI true) [(Str "name", VStr (Str "l3")); (Str "group", VStr (Str "roads"))]] in
  Forall (fun it => exists v, item_value' (Str "GROUP") it = Some v /\
                              findall_in_domain (VList [VStr (Str "roads")]) v = true) layers
  /\ findall' layers (Str "GROUP") (VList [VStr (Str "roads")]) =
       (layers, Ok [VDict (DCI true) [(Str "name", VStr (Str "l1")); (Str "group", VStr (Str "roads"))];
                    VDict (DCI true) [(Str "name", VStr (Str "l3")); (Str "group", VStr (Str "roads"))]])
  /\ find' layers (Str "Name") (VStr (Str "l2")) =
       (layers, Ok (VDict (DCI true) [(Str "name", VStr (Str "l2")); (Str "group", VStr (Str "rail"))]))
  /\ findunique' layers (Str "group") = Ok [VStr (Str "rail"); VStr (Str "roads")]
  /\ findkey' (VDict (DCI true) [(Str "layers", VList layers)]) [PKey (Str "LAYERS"); PIdx (-1)%Z; PKey (Str "name")]
     = (VDict (DCI true) [(Str "layers", VList layers)], Ok (VStr (Str "l3"))).
Proof.
  cbv zeta. split.
  - repeat constructor; eexists; (split; [vm_compute; reflexivity|vm_compute; reflexivity]).
  - repeat split; vm_compute; reflexivity.
Qed.
