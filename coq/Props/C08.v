(* Property C08 - recorded positions and validation error locations are exact.
   Theorems only. *)
From MF Require Import Lib.Base Lib.Regex Model.GrammarTypes Model.Lexer Model.LR Model.Api
  Proofs.LexFacts Proofs.ParseFacts Proofs.GrammarFacts Gen.Grammar.

(* The position formula of the property text: 1-based line = 1 + number of line
   feeds before the token, 1-based column = 1 + number of characters since the
   last line feed (tabs and CR count one), for EVERY text and layout. *)

(* [F] on the generated grammar: in each of the contextual scanners and in the
   root scanner, the terminals Lark does not inspect for newlines cannot match
   a line feed (otherwise its line counter would drift). *)
Theorem C08_scanners_count_every_newline : lexers_ok the_grammar = true.
Proof. exact the_grammar_lexers_ok. Qed.
Print Assumptions C08_scanners_count_every_newline.

(* [U] every token handed to the LR driver - hence every keyword token - lies in
   the text exactly where its recorded line/column say, with the text before it
   and after it accounted for (nothing skipped, nothing read twice). *)
Theorem C08_token_positions :
  forall (wc : bool) (text : str),
    Forall (token_at text) (fst (parse_text_tr the_grammar the_hook wc text)).
Proof. exact (fun wc text => parse_trace_positions the_grammar the_hook wc text the_grammar_lexers_ok). Qed.
Print Assumptions C08_token_positions.

(* [U] the parse tree contains only such tokens (the tree builder neither
   invents nor moves tokens), so every position the transformer copies from a
   key token is the position of that keyword in the text. *)
Theorem C08_tree_token_positions :
  forall (wc : bool) (text : str) po,
    parse_text the_grammar the_hook wc text = Ok po ->
    Forall (token_at text) (leaves (po_tree po)).
Proof. exact (fun wc text po => tree_tokens_positions the_grammar the_hook wc text po the_grammar_lexers_ok). Qed.
Print Assumptions C08_tree_token_positions.

(* non-vacuity: a two-line text with a tab; LAYER starts at line 2, column 2 *)
Example C08_example :
  exists t, In t (fst (parse_text_tr the_grammar the_hook false (Str "MAP
	LAYER END END"))) /\ tval t = Str "LAYER" /\ tline t = 2%N /\ tcol t = 2%N.
Proof. vm_compute. eexists. split; [do 2 right; left; reflexivity|]. repeat split. Qed.
