(* Property C08 - recorded positions and validation error locations are exact.
   Theorems only. *)
From MF Require Import Lib.Base Lib.Regex Model.GrammarTypes Model.Lexer Model.LR Model.Transformer Model.Api
  Proofs.LexFacts Proofs.ParseFacts Proofs.GrammarFacts Proofs.C08U Proofs.C08U_Named Gen.Grammar.

(* The position formula of the property text: 1-based line = 1 + number of line
   feeds before the token, 1-based column = 1 + number of characters since the
   last line feed (tabs and CR count one), for EVERY text and layout. *)

(* [F] on the generated grammar: in each of the contextual scanners and in the
   root scanner, the terminals Lark does not inspect for newlines cannot match
   a line feed (otherwise its line counter would drift). *)
Theorem C08_scanners_count_every_newline : lexers_ok the_grammar = true.
Proof. exact the_grammar_lexers_ok. Qed.
Print Assumptions C08_scanners_count_every_newline.

(* [U] every token handed to the LR driver - hence every keyword token - lies in
   the text exactly where its recorded line/column say, with the text before it
   and after it accounted for (nothing skipped, nothing read twice). *)
Theorem C08_token_positions :
  forall (wc : bool) (text : str),
    Forall (token_at text) (fst (parse_text_tr the_grammar the_hook wc text)).
Proof. exact (fun wc text => parse_trace_positions the_grammar the_hook wc text the_grammar_lexers_ok). Qed.
Print Assumptions C08_token_positions.

(* [U] the parse tree contains only such tokens (the tree builder neither
   invents nor moves tokens), so every position the transformer copies from a
   key token is the position of that keyword in the text. *)
Theorem C08_tree_token_positions :
  forall (wc : bool) (text : str) po,
    parse_text the_grammar the_hook wc text = Ok po ->
    Forall (token_at text) (leaves (po_tree po)).
Proof. exact (fun wc text po => tree_tokens_positions the_grammar the_hook wc text po the_grammar_lexers_ok). Qed.
Print Assumptions C08_tree_token_positions.

(* [U] the transformer half (Proofs/C08U.v, C08U_Named.v, by agent prover-c08:
   a logical predicate preserved by all 48 callbacks and the comments pipeline):
   for EVERY text and either comment mode, in the dictionary loads returns with
   include_position=True every dict that has a __type__, at every depth, has a
   __position__ record; its own line/column, the record filed under each keyword
   (one record, a list of records for repeated keywords and POINTS, a dict of
   records under CONFIG) and every [line, column] pair of a values list are the
   line/column at which a token NAMED LIKE THAT KEYWORD (resp. like the block's
   type) starts in the text - [positions_named_in_text] spells this out; the
   guard on trees it needs is discharged for parser output by the grammar-
   conformance theorem.  The single synthetic token (SYMBOLSET root) carries
   (None, None), allowed only when the root is a symbolset. *)
Theorem C08_recorded_positions_are_keyword_positions :
  forall ic text v po,
    parse_text the_grammar the_hook ic text = Ok po -> loads true ic text = Ok v ->
    positions_named_in_text text (is_symbolset_root (po_tree po)) v.
Proof. exact recorded_positions_are_named_text_positions. Qed.
Print Assumptions C08_recorded_positions_are_keyword_positions.

(* [R] what is NOT true of the code: "the own line of a block's record is a
   number" - an attribute spelled LINE (or COLUMN) is filed under that very key
   of the record and overwrites the block's own line (known finding
   C08-keyword-named-line; same on mappyfile.loads: MAP LINE 5 END) *)
Theorem C08_own_line_overwritten_refuted :
  exists text c items c' p r,
    loads true false text = Ok (VDict c items) /\
    assoc s_position items = Some (VDict c' p) /\ assoc s_line p = Some (VDict DPlain r).
Proof. exact own_line_is_a_number_refuted. Qed.
Print Assumptions C08_own_line_overwritten_refuted.

(* PARTIAL (not theorems): that the value positions of a record are in source
   order, and create_message's choice of the record for a validation error
   (covered by correspondence and the message-location hunter). *)

(* non-vacuity: a two-line text with a tab; LAYER starts at line 2, column 2 *)
Example C08_example :
  exists t, In t (fst (parse_text_tr the_grammar the_hook false (Str "MAP
	LAYER END END"))) /\ tval t = Str "LAYER" /\ tline t = 2%N /\ tcol t = 2%N.
Proof. vm_compute. eexists. split; [do 2 right; left; reflexivity|]. repeat split. Qed.
