(* Property C09 - Version-aware validation follows minVersion / maxVersion.
   Theorems only; every proof is [exact] of a lemma in Proofs/.

   Model: Model/Validator.v (a jsonref load = root document + store of shared
   file objects; get_versioned_properties mutates the store in place),
   Model/Schema.v (expand = what walking the proxies sees).  Specification:
   Spec/Versioned.v (in_range, tprune), decimals related to Q in Proofs/DecQ.v.
   [schema_files] / [schema_map] are regenerated from /repo on every run. *)
From Coq Require Import QArith.
From MF Require Import Lib.Base Lib.Json Lib.PyDict Gen.Schemas Model.SchemaStore Model.Schema
  Model.Validator Spec.Versioned Proofs.C09 Proofs.C09F Proofs.DecQ.
Open Scope Z_scope.

(* [U] range test: with the documented defaults 0.0 / 1000.0 for a missing
   bound, is_valid_for_version answers True exactly for min <= version <= max,
   as rational numbers; for every store, node (plain or proxy) and version. *)
Theorem C09_range_test :
  forall st d v md0 md,
    jget K_metadata (subject st d) = Some md0 -> subject st md0 = JObj md -> numeric_bounds md ->
    (is_valid_for_version st d v = Ok true <->
     (toQ (bound_or md K_minVersion (0, 0)%Z) <= toQ v)%Q /\ (toQ v <= toQ (bound_or md K_maxVersion (1, 3)%Z))%Q).
Proof. exact range_test_Q. Qed.
Print Assumptions C09_range_test.

(* [U] a node without "metadata" is valid for every version *)
Theorem C09_unannotated_valid :
  forall st d v, jget K_metadata (subject st d) = None -> is_valid_for_version st d v = Ok true.
Proof. exact unannotated_valid. Qed.
Print Assumptions C09_unannotated_valid.

(* [U] parametricity: the in-place pruning of a load depends on the version
   only through its comparisons with the numbers B that occur as bounds in the
   load (universal over stores, documents, fuel and versions) *)
Theorem C09_prune_parametric :
  forall B v1 v2 e,
    has_defaults B -> vsame B v1 v2 -> entry_bounded B e -> prune_entry v1 e = prune_entry v2 e.
Proof. exact prune_entry_param. Qed.
Print Assumptions C09_prune_parametric.

(* [U] over versions, [F] over the generated schema files: every version
   compares with the bounds of the schema files like one of the 2|B|+1
   representatives *)
Theorem C09_representatives :
  forall v, exists r, In r shipped_reps /\ vsame shipped_B v r.
Proof. exact shipped_rep. Qed.
Print Assumptions C09_representatives.

(* [F]+[U] every annotation, every version, every parent context: for EVERY
   truthy version, the schema get_versioned_schema(version) returns on a fresh
   Validator - and validate(version) runs on - is, as a walked tree, the fully
   expanded map schema with each annotated keyword / object / alternative
   removed exactly when the version is outside its range, at every depth and
   below lists too, and nothing else changed. *)
Theorem C09_every_annotation_every_version :
  forall v : vnum, vtruthy (Some v) = true ->
    exists e, fst (get_versioned_schema schema_files (Some v) (Str "map") init_state) = Ok e /\
              entry_tree e = tprune (vnum_num v) (expand schema_files schema_map).
Proof. exact map_versioned_tree. Qed.
Print Assumptions C09_every_annotation_every_version.

Theorem C09_validate_uses_pruned_schema :
  forall v : vnum, vtruthy (Some v) = true ->
    fst (validator_tree schema_files (Str "map") (Some v) init_state)
    = Ok (tprune (vnum_num v) (expand schema_files schema_map)).
Proof. exact map_validator_tree. Qed.
Print Assumptions C09_validate_uses_pruned_schema.

(* without a version (None, 0, 0.0) validation runs on the unpruned schema *)
Theorem C09_versionless_unpruned :
  forall ver, vtruthy ver = false ->
    fst (validator_tree schema_files (Str "map") ver init_state) = Ok (expand schema_files schema_map).
Proof. exact map_versionless_tree. Qed.
Print Assumptions C09_versionless_unpruned.

(* how to read [tprune]: an object-valued entry / alternative stays exactly
   when [in_range], and [in_range] is min <= v <= max on the rationals *)
Theorem C09_tprune_keeps_exactly_in_range :
  (forall v k x l,
      tprune v (JObj ((k, x) :: l)) =
      match tprune v (JObj l) with
      | JObj l' => if is_obj x && negb (in_range v x) then JObj l' else JObj ((k, tprune v x) :: l')
      | other => other
      end) /\
  (forall v x l,
      tprune v (JArr (x :: l)) =
      match tprune v (JArr l) with
      | JArr l' => if is_obj x && negb (in_range v x) then JArr l' else JArr (tprune v x :: l')
      | other => other
      end) /\
  (forall v node md,
      jget (Str "metadata") node = Some (JObj md) ->
      (in_range v node = true <->
       (toQ (bound_or md (Str "minVersion") (0, 0)%Z) <= toQ v)%Q /\ (toQ v <= toQ (bound_or md (Str "maxVersion") (1, 3)%Z))%Q)).
Proof. exact (conj tprune_obj_cons (conj tprune_arr_cons in_range_Q)). Qed.
Print Assumptions C09_tprune_keeps_exactly_in_range.

(* [F]+[U] prune_idem: for every schema file and EVERY version, pruning the
   already pruned (cached) object again changes nothing, and the first pruning
   can only fail with KeyError (a file without "properties") *)
Theorem C09_prune_idem :
  forall name root (v : num) e1,
    assoc name schema_files = Some root ->
    prune_entry v (mk_entry root schema_files) = Ok e1 -> prune_entry v e1 = Ok e1.
Proof. exact prune_idem_shipped. Qed.
Print Assumptions C09_prune_idem.

Theorem C09_prune_fails_only_without_properties :
  forall name root (v : num) x,
    assoc name schema_files = Some root ->
    prune_entry v (mk_entry root schema_files) = Err x -> x = PyKeyError.
Proof. exact prune_total_shipped. Qed.
Print Assumptions C09_prune_fails_only_without_properties.

(* [U] cache_coherent: for every history of validate / get_versioned_schema /
   get_expanded_schema calls with arbitrary documents, schema names and
   versions on ONE Validator, each answer is the answer of a fresh Validator
   (for get_expanded_schema WITH a version, which hands out the per-version
   cache object itself: the fresh answer or the versioned schema) - under the
   side condition that the cache keys name + str(version) used in the history
   do not collide. *)
Theorem C09_cache_coherent :
  forall cs, collision_free (map call_pair cs) ->
    Forall2 (coherent schema_files) cs (run schema_files init_state cs).
Proof. exact (cache_coherent_lemma schema_files (fun n r v e1 => prune_idem_shipped _ r v e1)). Qed.
Print Assumptions C09_cache_coherent.

(* [R] the side condition is not vacuous: "hex" + str(2) = "hex2"; after
   get_versioned_schema(2, "hex") the same Validator answers
   get_versioned_schema(None, "hex2") with the wrong file *)
Theorem C09_cache_key_collision_refuted :
  ~ collision_free (map call_pair collision_calls) /\
  nth_error (run schema_files init_state collision_calls) 1
  <> Some (fresh schema_files (CVersioned None (Str "hex2"))).
Proof. exact (conj collision_not_free collision_witness). Qed.
Print Assumptions C09_cache_key_collision_refuted.

(* [F]+[U] prune_spec / visit_order_irrelevant, PARTIAL in the schema (proved
   for the generated schema files, root map, EVERY version; not for arbitrary
   stores): after the pruning traversal, a file of the store is its locally
   pruned content (Spec.Versioned.lprune: unavailable object-valued entries and
   list members dropped, references kept or dropped as a whole) if it is
   reachable from the root's "properties" through object values only, and is
   untouched otherwise; the root's "properties" is pruned the same way.  The
   right-hand side mentions no order of visits and no number of visits, so any
   two traversal orders agree. *)
Theorem C09_prune_spec_partial :
  forall (v : num) e,
    prune_entry v map_entry = Ok e ->
    e_store e = pruned_store schema_files v map_properties reach_fuel /\ e_root e = spec_root v.
Proof. exact prune_spec_shipped. Qed.
Print Assumptions C09_prune_spec_partial.

(* [F] all_blocks_dict_reachable: in the map schema every file that carries an
   annotation below its root is reached through object values only - this is
   why files referred to from list members (leader below allOf, style/label
   below items, symbol below oneOf) are pruned all the same - and there are
   such files *)
Theorem C09_all_blocks_dict_reachable :
  forallb (fun f => negb (file_annotated f) || mem_str f map_reached) map_reached_all = true /\
  existsb file_annotated map_reached_all = true.
Proof. exact all_blocks_dict_reachable. Qed.
Print Assumptions C09_all_blocks_dict_reachable.

(* non-vacuity: at 8.0 the STYLE reached through CLASS -> LEADER (an allOf list
   member the pruning recursion never enters) has lost ANTIALIAS (maxVersion
   7.6), at 7.6 it still has it; 8.0 lies strictly inside the bounds *)
Definition style_under_leader (t : json) : option json :=
  match jget (Str "properties") t with
  | Some p =>
    match jget (Str "layers") p with
    | Some l =>
      match jget (Str "items") l with
      | Some layer =>
        match jget (Str "properties") layer with
        | Some lp =>
          match jget (Str "classes") lp with
          | Some cl =>
            match jget (Str "items") cl with
            | Some class =>
              match jget (Str "properties") class with
              | Some cp =>
                match jget (Str "leader") cp with
                | Some ld =>
                  match jget (Str "allOf") ld with
                  | Some (JArr (leader :: _)) =>
                    match jget (Str "properties") leader with
                    | Some ldp =>
                      match jget (Str "styles") ldp with
                      | Some st =>
                        match jget (Str "items") st with
                        | Some style => jget (Str "properties") style
                        | None => None
                        end
                      | None => None
                      end
                    | None => None
                    end
                  | _ => None
                  end
                | None => None
                end
              | None => None
              end
            | None => None
            end
          | None => None
          end
        | None => None
        end
      | None => None
      end
    | None => None
    end
  | None => None
  end.

Example C09_example :
  (match fst (validator_tree schema_files (Str "map") (Some (NFloat 8 0)) init_state) with
   | Ok t => match style_under_leader t with Some p => Some (jhas (Str "antialias") p, jhas (Str "color") p) | None => None end
   | Err _ => None
   end) = Some (false, true) /\
  (match fst (validator_tree schema_files (Str "map") (Some (NFloat 76 (-1))) init_state) with
   | Ok t => match style_under_leader t with Some p => Some (jhas (Str "antialias") p, jhas (Str "color") p) | None => None end
   | Err _ => None
   end) = Some (true, true).
Proof. split; vm_compute; reflexivity. Qed.
