(* Property C06 - formatting options never change content.  Theorems only. *)
From MF Require Import Lib.Base Lib.PyDict Model.SlotDoc Model.SlotCheck Model.PPrint Model.Roundtrip Model.Api
  Proofs.SlotsAll Proofs.C06 Spec.Reader Proofs.PrintU.

(* [F] PARTIAL: for every root-level document of the slot product and every
   option set of a covering family (each value of indent 0/1/2/3/4/8, both
   spacers, both quotes, LF/CRLF/space newline, the three booleans occurs),
   loading the formatted text gives the same dictionary as loading the default
   formatting - evaluated by the kernel through the whole model.  The universal
   statement over all dictionaries and ALL indents is not proved; the hunter runs
   the full 9x2x2x3x2x2x2 product on corpus samples and generated documents. *)
Lemma no_opts_failures : all_opts_failing_ids = [].
Proof. vm_compute. reflexivity. Qed.

Theorem C06_options_on_slot_product_partial :
  forall sd o, In sd all_slotdocs -> root_only sd = true -> In o option_sets -> options_ok o (sd_text sd) = true.
Proof.
  intros sd o Hin Hr Ho.
  assert (H : forallb (fun o => options_ok o (sd_text sd)) option_sets = true).
  { apply options_ok_except; [exact Hin|exact Hr|]. rewrite no_opts_failures. intros []. }
  rewrite forallb_forall in H. apply H. exact Ho.
Qed.
Print Assumptions C06_options_on_slot_product_partial.

(* [U] separate_complex_types is a stable partition: the loop of move_to_end
   calls yields the non-moved keys in their order followed by the moved keys in
   their order *)
Theorem C06_separate_is_stable_partition :
  forall (A : Type) (moved : str -> bool) (items : list (str * A)),
    NoDup (keys items) ->
    move_all moved (keys items) items =
      filter (fun kv => negb (moved (fst kv))) items ++ filter (fun kv => moved (fst kv)) items.
Proof. exact (fun A moved items => @move_all_partition A moved items). Qed.
Print Assumptions C06_separate_is_stable_partition.

(* ---- universal theorems on the printer model (Proofs/PrintU*.v, agent prover-printer) *)

(* [U] success, the exception raised and the dictionary left behind do not
   depend on indent, spacer, newlinechar, end_comment, align_values: the printer
   factors through a layout-free abstract document *)
Theorem C06_outcome_layout_independent :
  forall o o' d, same_content_opts o o' ->
    match pprint o d, pprint o' d with
    | Ok (_, d1), Ok (_, d2) => d1 = d2
    | Err e1, Err e2 => e1 = e2
    | _, _ => False
    end.
Proof. exact pprint_outcome_layout_independent. Qed.
Print Assumptions C06_outcome_layout_independent.

(* [U] the content an independent reader (Spec/Reader.v) finds in the text is the
   same under any two layouts - for every dictionary whose printed pieces are
   complete token sequences (content_closed: e.g. no string holding the output
   quote unescaped, the documented exclusion) and layouts made of blanks with a
   newlinechar that breaks the line (layout_ok) *)
Theorem C06_layout_options_preserve_content :
  forall o o' d s d1,
    same_content_opts o o' -> layout_ok o = true -> layout_ok o' = true ->
    content_closed (quote o) (separate_complex_types o) d = true ->
    pprint o d = Ok (s, d1) ->
    exists s', pprint o' d = Ok (s', d1) /\ tokenize s' = tokenize s
               /\ tokenize s = content_tokens (quote o) (separate_complex_types o) d.
Proof. exact layout_options_preserve_content. Qed.
Print Assumptions C06_layout_options_preserve_content.

(* [U] all six options at once: same content, up to the quote character chosen *)
Theorem C06_formatting_options_preserve_content :
  forall o o' d s d1,
    separate_complex_types o' = separate_complex_types o ->
    quote_ok o' = true ->
    layout_ok o = true -> layout_ok o' = true ->
    roots_qf d = true ->
    content_closed (quote o) (separate_complex_types o) d = true ->
    pprint o d = Ok (s, d1) ->
    exists s', pprint o' d = Ok (s', d1)
               /\ (tokenize s' = tokenize s \/ tokenize s' = option_map (map swt) (tokenize s)).
Proof. exact formatting_options_preserve_content. Qed.
Print Assumptions C06_formatting_options_preserve_content.

(* [R] the guards are needed: newlinechar " " with end_comment comments out the
   rest of the text (outside the property's quantifier: "newlinechar containing
   a line break") ... *)
Theorem C06_newlinechar_without_break_refuted :
  exists o o' d,
    same_content_opts o o' /\ newlinechar o = newlinechar o' /\ forallb is_blank (newlinechar o) = true
    /\ layout_ok o = false
    /\ content_closed (quote o) (separate_complex_types o) d = true
    /\ tokenize (pu_text_of (pprint o d)) <> tokenize (pu_text_of (pprint o' d)).
Proof. exact newlinechar_without_break_refuted. Qed.
Print Assumptions C06_newlinechar_without_break_refuted.

(* ... and align_values glues a keyword to its value when upper-casing the key
   lengthens it (a key containing U+00DF: the column is computed from len(key),
   the line prints key.upper()); such a key is outside the schema vocabulary the
   property quantifies over - recorded in DESIGN.md as an observation *)
Theorem C06_align_values_glues_keyword_refuted :
  exists o o' d,
    same_content_opts o o' /\ layout_ok o = true /\ layout_ok o' = true
    /\ content_closed (quote o) (separate_complex_types o) d = false
    /\ tokenize (pu_text_of (pprint o d)) <> tokenize (pu_text_of (pprint o' d)).
Proof. exact align_values_glues_keyword_refuted. Qed.
Print Assumptions C06_align_values_glues_keyword_refuted.

(* PARTIAL: composing the reader's tokens with the parser model (loads of the two
   texts gives the same dictionary) is done by the kernel on the slot product
   above and by the runners, not by a universal theorem. *)
