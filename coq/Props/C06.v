(* Property C06 - formatting options never change content.  Theorems only. *)
From MF Require Import Lib.Base Lib.PyDict Model.SlotDoc Model.SlotCheck Model.PPrint Model.Roundtrip Model.Api
  Proofs.SlotsAll Proofs.C06.

(* [F] PARTIAL: for every root-level document of the slot product and every
   option set of a covering family (each value of indent 0/1/2/3/4/8, both
   spacers, both quotes, LF/CRLF/space newline, the three booleans occurs),
   loading the formatted text gives the same dictionary as loading the default
   formatting - evaluated by the kernel through the whole model.  The universal
   statement over all dictionaries and ALL indents is not proved; the hunter runs
   the full 9x2x2x3x2x2x2 product on corpus samples and generated documents. *)
Lemma no_opts_failures : all_opts_failing_ids = [].
Proof. vm_compute. reflexivity. Qed.

Theorem C06_options_on_slot_product_partial :
  forall sd o, In sd all_slotdocs -> root_only sd = true -> In o option_sets -> options_ok o (sd_text sd) = true.
Proof.
  intros sd o Hin Hr Ho.
  assert (H : forallb (fun o => options_ok o (sd_text sd)) option_sets = true).
  { apply options_ok_except; [exact Hin|exact Hr|]. rewrite no_opts_failures. intros []. }
  rewrite forallb_forall in H. apply H. exact Ho.
Qed.
Print Assumptions C06_options_on_slot_product_partial.

(* [U] separate_complex_types is a stable partition: the loop of move_to_end
   calls yields the non-moved keys in their order followed by the moved keys in
   their order *)
Theorem C06_separate_is_stable_partition :
  forall (A : Type) (moved : str -> bool) (items : list (str * A)),
    NoDup (keys items) ->
    move_all moved (keys items) items =
      filter (fun kv => negb (moved (fst kv))) items ++ filter (fun kv => moved (fst kv)) items.
Proof. exact (fun A moved items => @move_all_partition A moved items). Qed.
Print Assumptions C06_separate_is_stable_partition.
