(* Property C14 - kept comments are verbatim, never invented or duplicated, and
   stay attached.  Theorems only.  The verbatim / never-invented / never-
   duplicated clauses are proved end to end for every text (parser, transformer,
   printer: section "end to end" below).  PARTIAL: the placement clauses (a
   trailing comment stays on its keyword's line, comments above an opener stay
   above it) and "the output with comments loads to the same content" are
   covered by correspondence and the hunter, not by theorems. *)
From Coq Require Import Permutation.
From MF Require Import Lib.Base Model.GrammarTypes Model.Lexer Model.LR Model.Transformer Model.Api
  Model.PPrint Proofs.C14 Proofs.C13U Proofs.PrintU Proofs.C14U_Multiset Proofs.C14U_Trans Proofs.C14U_Print Proofs.C14U_Guard Proofs.C14U Gen.Grammar.

(* [U] for every text: the comments attached to tree nodes, together with the
   comments left unattached, are a permutation of the line-indexed comment
   dictionary - no comment is attached twice, none is invented *)
Theorem C14_attached_comments_are_a_linear_resource :
  forall text po,
    parse_text the_grammar the_hook true text = Ok po ->
    exists leftover,
      Permutation (map snd (comments_dict (po_comments po)))
                  (leftover ++ attached (assign_comments (po_comments po) (po_tree po))).
Proof. exact (assigned_comments_are_source_comments the_grammar the_hook). Qed.
Print Assumptions C14_attached_comments_are_a_linear_resource.

(* [U] every entry of that dictionary is the exact (stripped) text of a comment
   token of the source, keyed by that token's line; several comments on one line
   keep only the last one (the code's own representation) *)
Theorem C14_comment_dictionary_is_verbatim :
  forall cs line v, In (line, v) (comments_dict cs) ->
    exists c, In c cs /\ GrammarTypes.tline c = line /\ v = strip (tval c).
Proof. exact comments_dict_from_tokens. Qed.
Print Assumptions C14_comment_dictionary_is_verbatim.

(* [U] the one-node step: what a node takes plus what it leaves is what was there *)
Theorem C14_take_is_partition :
  forall (cd : list (N * str)) line,
    Permutation (map snd cd)
                (map snd (filter (fun kv => N.leb (fst kv) line) (sort_by_line cd))
                 ++ map snd (filter (fun kv => negb (N.leb (fst kv) line)) cd)).
Proof. exact take_is_partition. Qed.
Print Assumptions C14_take_is_partition.

(* ---- end to end (Proofs/C14U*.v, agent prover-c14) *)

(* [U] for EVERY text and either position mode: the comment strings stored
   anywhere in the loaded dictionary (dict-valued __comments__ entries at every
   depth), counted with multiplicity, are a sub-multiset of the stripped texts
   of the comment tokens of the source - nothing invented, nothing stored twice *)
Theorem C14_loaded_comments_are_source_comments :
  forall ip text v po,
    parse_text the_grammar the_hook true text = Ok po -> loads ip true text = Ok v ->
    exists rest, Permutation (cstored v ++ rest)
                 (map (fun c => strip (tval c)) (po_comments po)).
Proof. exact loads_comments_sub_source. Qed.
Print Assumptions C14_loaded_comments_are_source_comments.

(* [U] ... and for EVERY printer option set: the comment items dumps writes for
   that dictionary, counted with multiplicity, are a sub-multiset of the stored
   ones and of the source comment tokens: every comment written is the exact
   (stripped) text of a source comment, none is written more often than it
   occurs.  The printer guard (keys distinct, __comments__ a dict of string
   lists) is discharged for every loaded dictionary. *)
Theorem C14_dumped_comments_are_source_comments :
  forall ip text v po o s v',
    parse_text the_grammar the_hook true text = Ok po -> loads ip true text = Ok v ->
    pprint o v = Ok (s, v') ->
    exists T, t_pprint (quote o) (separate_complex_types o) v = Ok (T, v')
              /\ s = render o (untrace T)
              /\ (exists rest, Permutation (written T ++ rest) (pstored v))
              /\ (exists rest, Permutation (written T ++ rest)
                     (map VStr (map (fun c => strip (tval c)) (po_comments po)))).
Proof. exact dumped_comments_are_source_comments. Qed.
Print Assumptions C14_dumped_comments_are_source_comments.

(* [R] a __comments__ entry is not always a dict: CONFIG / METADATA keys are free
   text (MAP CONFIG "__comments__" "x" END); the theorems above therefore speak
   of the dict-valued entries *)
Theorem C14_comments_entry_is_always_a_dict_refuted :
  exists text v, loads false true text = Ok v /\ comments_entries_are_dicts v = false.
Proof. exact comments_entry_is_always_a_dict_refuted. Qed.
Print Assumptions C14_comments_entry_is_always_a_dict_refuted.

(* non-vacuity: trailing and block comments end up in the loaded dictionary *)
Example C14_example :
  exists v, loads false true (Str "# above
MAP
  NAME 'x' # trailing
END") = Ok v.
Proof. vm_compute. eexists. reflexivity. Qed.
