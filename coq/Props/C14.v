(* Property C14 - kept comments are verbatim, never invented or duplicated, and
   stay attached.  Theorems only.  PARTIAL: the theorems cover the parser-side
   pass that attaches comments to tree nodes (where duplication or invention
   could arise from the line-number bookkeeping); the transformer's hoisting of
   node comments into __comments__ and the printer's placement are tied by
   correspondence and checked against the real API by the hunter. *)
From Coq Require Import Permutation.
From MF Require Import Lib.Base Model.GrammarTypes Model.Lexer Model.LR Model.Transformer Model.Api
  Proofs.C14 Gen.Grammar.

(* [U] for every text: the comments attached to tree nodes, together with the
   comments left unattached, are a permutation of the line-indexed comment
   dictionary - no comment is attached twice, none is invented *)
Theorem C14_attached_comments_are_a_linear_resource :
  forall text po,
    parse_text the_grammar the_hook true text = Ok po ->
    exists leftover,
      Permutation (map snd (comments_dict (po_comments po)))
                  (leftover ++ attached (assign_comments (po_comments po) (po_tree po))).
Proof. exact (assigned_comments_are_source_comments the_grammar the_hook). Qed.
Print Assumptions C14_attached_comments_are_a_linear_resource.

(* [U] every entry of that dictionary is the exact (stripped) text of a comment
   token of the source, keyed by that token's line; several comments on one line
   keep only the last one (the code's own representation) *)
Theorem C14_comment_dictionary_is_verbatim :
  forall cs line v, In (line, v) (comments_dict cs) ->
    exists c, In c cs /\ tline c = line /\ v = strip (tval c).
Proof. exact comments_dict_from_tokens. Qed.
Print Assumptions C14_comment_dictionary_is_verbatim.

(* [U] the one-node step: what a node takes plus what it leaves is what was there *)
Theorem C14_take_is_partition :
  forall (cd : list (N * str)) line,
    Permutation (map snd cd)
                (map snd (filter (fun kv => N.leb (fst kv) line) (sort_by_line cd))
                 ++ map snd (filter (fun kv => negb (N.leb (fst kv) line)) cd)).
Proof. exact take_is_partition. Qed.
Print Assumptions C14_take_is_partition.

(* non-vacuity: trailing and block comments end up in the loaded dictionary *)
Example C14_example :
  exists v, loads false true (Str "# above
MAP
  NAME 'x' # trailing
END") = Ok v.
Proof. vm_compute. eexists. reflexivity. Qed.
