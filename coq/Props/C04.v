(* Property C04 - formatting is a deterministic normal form (idempotent).
   Theorems only. *)
From MF Require Import Lib.Base Model.SlotDoc Model.SlotCheck Model.Quoter Model.PPrint Model.Roundtrip Model.Api Proofs.PrintU
  Proofs.SlotsAll Proofs.C04 Proofs.CaseFacts.

(* [U] the same dictionary and options always produce the same text: the
   printer is a function (in Python what could break this is iteration over an
   unordered container; the correspondence runs repeat every case under three
   PYTHONHASHSEED values) *)
Theorem C04_print_deterministic : forall o d r1 r2, pprint o d = r1 -> pprint o d = r2 -> r1 = r2.
Proof. intros o d r1 r2 <- <-. reflexivity. Qed.
Print Assumptions C04_print_deterministic.

(* [U] escaping quotes is idempotent: already escaped quotes are not escaped again *)
Theorem C04_escape_quotes_idempotent :
  forall q s, q <> 92%N -> escape_quotes_s q (escape_quotes_s q s) = escape_quotes_s q s.
Proof. exact escape_quotes_idem. Qed.
Print Assumptions C04_escape_quotes_idempotent.

(* [U] upper-casing (enumerated words, keywords) is idempotent *)
Theorem C04_upper_idempotent : forall s, Case.upper (Case.upper s) = Case.upper s.
Proof. exact upper_idem. Qed.
Print Assumptions C04_upper_idempotent.

(* [F] PARTIAL: format-twice on every root-level document of the slot product
   through the whole model: dumps(loads(t)) = t byte for byte and
   loads(t) = loads(dumps(loads t)) exactly, for t = dumps(loads(text)).
   No failing slot. *)
Lemma no_idem_failures : all_idem_failing_ids = [].
Proof. vm_compute. reflexivity. Qed.

Theorem C04_idempotent_on_slot_product_partial :
  forall sd, In sd all_slotdocs -> root_only sd = true -> idempotent_ok default_opts (sd_text sd) = true.
Proof.
  intros sd Hin Hr. apply idempotent_ok_except; [exact Hin|exact Hr|]. rewrite no_idem_failures. intros [].
Qed.
Print Assumptions C04_idempotent_on_slot_product_partial.

(* [U] printing the dictionary a print call leaves behind gives the same text
   and leaves it unchanged (relevant with separate_complex_types, which reorders
   its argument): Proofs/PrintU_Twice.v *)
Theorem C04_print_twice_same_text :
  forall o d s d', uniq_keys d = true -> pprint o d = Ok (s, d') -> pprint o d' = Ok (s, d').
Proof. exact pprint_twice. Qed.
Print Assumptions C04_print_twice_same_text.
