(* Property C12 - calls are pure, history-independent and safe to run
   concurrently.  Theorems only.  PARTIAL: real GIL schedules and third-party
   process-wide state (lark, jsonref, re caches) are outside the model; they are
   exercised by the hunter with real threads. *)
From MF Require Import Lib.Base Model.GrammarTypes Model.Lexer Model.LR Model.Transformer Model.Api Model.Workers Model.PPrint Proofs.PrintU
  Model.SlotDoc Model.SlotCheck Model.PPrint Proofs.C12 Proofs.SlotsAll Gen.SharedState.

(* [U] a reused Parser object: the result of parse depends on the text only,
   whatever earlier parses (successful or failed, comments on or off) left in
   its comment buffer - because the buffer is cleared at parse entry *)
Theorem C12_parser_history_free :
  forall ic p1 p2 text, snd (parser_parse ic p1 text) = snd (parser_parse ic p2 text).
Proof. exact parser_history_free. Qed.
Print Assumptions C12_parser_history_free.

Theorem C12_reused_parser_equals_fresh_function :
  forall ic p text, snd (parser_parse ic p text) = parse_tree ic text.
Proof. exact parser_parse_is_parse_tree. Qed.
Print Assumptions C12_reused_parser_equals_fresh_function.

(* [F] regenerated from the source on every run: no function body of
   mappyfile/*.py rebinds or mutates a module-level name (a module-level parser
   or schema cache would make this fail) *)
Theorem C12_no_mutated_module_state : mutated_module_globals = [].
Proof. reflexivity. Qed.
Print Assumptions C12_no_mutated_module_state.

(* [U] threads whose steps touch only their own state: every interleaving gives
   each thread the result of its isolated run *)
Theorem C12_interleaving_irrelevant :
  forall (St Call Res : Type) (step : St -> Call -> St * Res) sched pool i d,
    (i < length pool)%nat ->
    nth i (run_schedule St Call Res step sched pool) d =
    run_alone St Call Res step (count i sched) (nth i pool d).
Proof. exact interleaving_irrelevant. Qed.
Print Assumptions C12_interleaving_irrelevant.

(* [U] purity of dumps (Proofs/PrintU_Pure.v, agent prover-printer): with
   separate_complex_types off, the dictionary after ANY successful print is the
   argument itself; with it on, the argument is only reordered - in every dict
   the printer descends into the block-named keys are moved behind the others as
   a stable partition (same keys, same values: a permutation at every level) -
   and that reordering does happen ([R]); printing the dictionary left behind
   again gives the same text and leaves it as it is. *)
Theorem C12_print_leaves_argument_unchanged :
  forall o d s d', separate_complex_types o = false -> pprint o d = Ok (s, d') -> d' = d.
Proof. exact pprint_argument_unchanged. Qed.
Print Assumptions C12_print_leaves_argument_unchanged.

Theorem C12_print_only_reorders_argument :
  forall o d s d', uniq_keys d = true -> pprint o d = Ok (s, d') -> reordered d d'.
Proof. exact pprint_argument_reordered. Qed.
Print Assumptions C12_print_only_reorders_argument.

Theorem C12_separate_complex_types_reorders_refuted :
  exists o d s d', separate_complex_types o = true /\ uniq_keys d = true
                   /\ pprint o d = Ok (s, d') /\ d' <> d /\ d' = arg_after true d.
Proof. exact pprint_argument_unchanged_sct_refuted. Qed.
Print Assumptions C12_separate_complex_types_reorders_refuted.

(* [F] purity of dumps on every root-level document of the slot product (kept:
   it runs the whole printer model on real vocabulary) *)
Theorem C12_print_pure_on_slot_product_partial :
  forall sd, In sd all_slotdocs -> root_only sd = true -> print_pure sd = true.
Proof. exact print_pure_all_slots. Qed.
Print Assumptions C12_print_pure_on_slot_product_partial.
