(* Property C12 - calls are pure, history-independent and safe to run
   concurrently.  Theorems only.  PARTIAL: real GIL schedules and third-party
   process-wide state (lark, jsonref, re caches) are outside the model; they are
   exercised by the hunter with real threads. *)
From MF Require Import Lib.Base Model.GrammarTypes Model.Lexer Model.LR Model.Transformer Model.Api Model.Workers
  Model.SlotDoc Model.SlotCheck Model.PPrint Proofs.C12 Proofs.SlotsAll Gen.SharedState.

(* [U] a reused Parser object: the result of parse depends on the text only,
   whatever earlier parses (successful or failed, comments on or off) left in
   its comment buffer - because the buffer is cleared at parse entry *)
Theorem C12_parser_history_free :
  forall ic p1 p2 text, snd (parser_parse ic p1 text) = snd (parser_parse ic p2 text).
Proof. exact parser_history_free. Qed.
Print Assumptions C12_parser_history_free.

Theorem C12_reused_parser_equals_fresh_function :
  forall ic p text, snd (parser_parse ic p text) = parse_tree ic text.
Proof. exact parser_parse_is_parse_tree. Qed.
Print Assumptions C12_reused_parser_equals_fresh_function.

(* [F] regenerated from the source on every run: no function body of
   mappyfile/*.py rebinds or mutates a module-level name (a module-level parser
   or schema cache would make this fail) *)
Theorem C12_no_mutated_module_state : mutated_module_globals = [].
Proof. reflexivity. Qed.
Print Assumptions C12_no_mutated_module_state.

(* [U] threads whose steps touch only their own state: every interleaving gives
   each thread the result of its isolated run *)
Theorem C12_interleaving_irrelevant :
  forall (St Call Res : Type) (step : St -> Call -> St * Res) sched pool i d,
    (i < length pool)%nat ->
    nth i (run_schedule St Call Res step sched pool) d =
    run_alone St Call Res step (count i sched) (nth i pool d).
Proof. exact interleaving_irrelevant. Qed.
Print Assumptions C12_interleaving_irrelevant.

(* [F] PARTIAL purity of dumps: for every root-level document of the slot
   product the dictionary after printing (separate_complex_types off) equals the
   argument; universal purity is covered by the correspondence runs, which
   compare the dictionary after every real pprint call with the model's *)
Theorem C12_print_pure_on_slot_product_partial :
  forall sd, In sd all_slotdocs -> root_only sd = true -> print_pure sd = true.
Proof. exact print_pure_all_slots. Qed.
Print Assumptions C12_print_pure_on_slot_product_partial.
