(* Property C02 - the parsed dictionary follows the documented text-to-dict
   contract.  Theorems only. *)
From MF Require Import Lib.Base Lib.PyDict Model.GrammarTypes Model.Lexer Model.LR Model.Transformer
  Model.SlotDoc Model.SlotCheck Model.Api Proofs.LexFacts Proofs.ParseFacts Proofs.GrammarFacts
  Proofs.SlotsAll Proofs.C02 Proofs.C13U Proofs.C08U Proofs.C02U_Spec Proofs.C02U_Guard Proofs.C02U_Order Proofs.C02U Gen.Grammar Gen.Tokens.
From MF Require Props.C19.

(* [U] nothing written in the text is dropped, invented or moved before the
   transformer: the tokens fed to the LR driver partition the text (positions
   exact, C08) and the parse tree contains exactly tokens that were fed. *)
Theorem C02_tree_tokens_come_from_the_text :
  forall (wc : bool) (text : str) po,
    parse_text the_grammar the_hook wc text = Ok po ->
    Forall (token_at text) (leaves (po_tree po)).
Proof. exact (fun wc text po => tree_tokens_positions the_grammar the_hook wc text po the_grammar_lexers_ok). Qed.
Print Assumptions C02_tree_tokens_come_from_the_text.

(* [U] clause lemmas on the callbacks, universal in their arguments *)
Theorem C02_typed_values :
  (forall t s z, pk_val t = VStr s -> parse_int s = Some z ->
     cb_int [TTok t] = Ok (TTok (set_val t (VInt z)))) /\
  (forall t s m e, pk_val t = VStr s -> parse_float s = Some (m, e) ->
     cb_float [TTok t] = Ok (TTok (set_val t (VFloat m e)))) /\
  (forall t, cb_bool true [TTok t] = Ok (TTok (set_val t (VBool true)))) /\
  (forall t, cb_bool false [TTok t] = Ok (TTok (set_val t (VBool false)))) /\
  (forall t s, pk_val t = VStr s ->
     cb_hexcolor [TTok t] = Ok (TTok (set_val t (VStr (Case.lower (clean_string_s s)))))).
Proof. exact typed_values. Qed.
Print Assumptions C02_typed_values.

(* [U] a quoted string loses exactly its outer quotes, anything else is kept verbatim *)
Theorem C02_quoted_string_loses_only_outer_quotes :
  forall q body, (q = 34%N \/ q = 39%N) ->
    clean_string_s (q :: body ++ [q]) = body.
Proof. exact clean_quoted. Qed.
Print Assumptions C02_quoted_string_loses_only_outer_quotes.

Theorem C02_unquoted_string_verbatim :
  forall s, in_quotes s = false -> clean_string_s s = s.
Proof. exact clean_unquoted. Qed.
Print Assumptions C02_unquoted_string_verbatim.

(* [U] repeatable blocks go under the plural key in source order, singleton
   blocks are nested under their own name (last one wins) *)
Theorem C02_block_placement :
  forall ic st c items k,
    assoc s_type items = Some (TVal (VStr k)) ->
    composite_item ic st (TDict c items) =
      if mem_str k SINGLETON_COMPOSITE_NAMES
      then Ok (mk_cs (ci_set k (TDict c items) (cs_dict st)) (cs_pos st) (cs_comments st))
      else match tv_list_append (match ci_get (plural k) (cs_dict st) with Some x => x | None => TSeq [] end)
                                (TDict c items) with
           | Ok cur' => Ok (mk_cs (ci_set (plural k) cur' (cs_dict st)) (cs_pos st) (cs_comments st))
           | Err e => Err e
           end.
Proof. exact block_placement. Qed.
Print Assumptions C02_block_placement.

(* ---- the contract for EVERY text (Proofs/C02U*.v, agent prover-c02: a logical
   predicate kept by all 48 callbacks, the comments pass and the final conversion) *)

(* [U] unguarded shape: no None anywhere; every key of every dict lower-case;
   every block dict carries a lower-case string __type__; the result is a block
   dict or a list of block dicts *)
Theorem C02_contract_shape :
  forall ip ic text v, loads ip ic text = Ok v -> contract_shape v.
Proof. exact loads_contract_shape. Qed.
Print Assumptions C02_contract_shape.

(* [U] the documented contract in full - __type__ first and one of the block
   types; keys lower-case without duplicates; under the plural key of a
   repeatable type a non-empty list of blocks of that type, under a singleton
   name a block of that type, under a repeatable keyword a non-empty list, CONFIG
   and key-value blocks dicts with lower-case keys and string values, POINTS /
   PATTERN lists of number pairs, PROJECTION a list of strings, an ordinary
   keyword a scalar or a list of scalars - AND the provenance of every leaf:
   each int / float / boolean / string is derived from one token of the parse
   tree (which lies in the text where its position says) by the documented
   conversion, expression strings are built from their tokens by the expression
   callbacks.  Guard [lexg]: three spellings of key tokens - block openers are
   spelled like block keywords, CONFIG like config (both hold of every real
   parse; no text-versus-type lemma for the lexer is available: PARTIAL), and no
   attribute is spelled like a reserved name, a block name or a plural key
   (a genuine restriction: [R] below). *)
Theorem C02_contract_with_provenance_guarded :
  forall ip ic text v po,
    parse_text the_grammar the_hook ic text = Ok po -> lexg (po_tree po) = true ->
    loads ip ic text = Ok v ->
    contract_from (leaves (po_tree po)) (is_symbolset_root (po_tree po)) v /\
    Forall (token_at text) (leaves (po_tree po)).
Proof. exact loads_contract_from_text_guarded. Qed.
Print Assumptions C02_contract_with_provenance_guarded.

(* [R] without the guard the plural-key clause is false: an attribute spelled
   LAYERS (not a keyword of the schema vocabulary the property quantifies over)
   overwrites the list of LAYER blocks: MAP LAYER NAME 'a' END LAYERS 5 END *)
Theorem C02_attribute_spelled_like_plural_key_refuted :
  exists text v, loads false false text = Ok v /\ ~ contract_strict v.
Proof. exact loads_contract_strict_refuted_plural_key_overwritten. Qed.
Print Assumptions C02_attribute_spelled_like_plural_key_refuted.

(* [U] a keyword given twice keeps its last value; keys stand in the order of
   their first occurrence (composite() is a fold of dict assignments over the
   children in source order) *)
Theorem C02_keyword_given_twice_keeps_last_value :
  forall ic l kvs st s k,
    Forall2 (fun d kv => attr_of (fst kv) (snd kv) d /\ plain_key (fst kv)) l kvs ->
    comp_fold ic l (Ok st) = Ok s ->
    assoc k (cs_dict s) = match assoc k (rev kvs) with Some v => Some v | None => assoc k (cs_dict st) end.
Proof. exact attribute_given_twice_keeps_last_value. Qed.
Print Assumptions C02_keyword_given_twice_keeps_last_value.

Theorem C02_keys_in_first_occurrence_order :
  forall ic l kvs st s,
    Forall2 (fun d kv => attr_of (fst kv) (snd kv) d /\ plain_key (fst kv)) l kvs ->
    comp_fold ic l (Ok st) = Ok s ->
    keys (cs_dict s) = fold_left add_key (keys kvs) (keys (cs_dict st)).
Proof. exact attribute_keys_in_first_occurrence_order. Qed.
Print Assumptions C02_keys_in_first_occurrence_order.

(* [F] the intended structure of every slot of the schema vocabulary (C19's
   product): loads (render g) = intended g, except the known failing slots *)
Theorem C02_intended_structure_on_slot_product :
  forall sd, In sd all_slotdocs -> ~ In (slot_id sd) C19.known_failing_slots -> slot_ok sd = true.
Proof. exact C19.C19_slots_parse_to_intended_structure. Qed.
Print Assumptions C02_intended_structure_on_slot_product.
