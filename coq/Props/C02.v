(* Property C02 - the parsed dictionary follows the documented text-to-dict
   contract.  Theorems only. *)
From MF Require Import Lib.Base Lib.PyDict Model.GrammarTypes Model.Lexer Model.LR Model.Transformer
  Model.SlotDoc Model.SlotCheck Model.Api Proofs.LexFacts Proofs.ParseFacts Proofs.GrammarFacts
  Proofs.SlotsAll Proofs.C02 Gen.Grammar Gen.Tokens.
From MF Require Props.C19.

(* [U] nothing written in the text is dropped, invented or moved before the
   transformer: the tokens fed to the LR driver partition the text (positions
   exact, C08) and the parse tree contains exactly tokens that were fed. *)
Theorem C02_tree_tokens_come_from_the_text :
  forall (wc : bool) (text : str) po,
    parse_text the_grammar the_hook wc text = Ok po ->
    Forall (token_at text) (leaves (po_tree po)).
Proof. exact (fun wc text po => tree_tokens_positions the_grammar the_hook wc text po the_grammar_lexers_ok). Qed.
Print Assumptions C02_tree_tokens_come_from_the_text.

(* [U] clause lemmas on the callbacks, universal in their arguments *)
Theorem C02_typed_values :
  (forall t s z, pk_val t = VStr s -> parse_int s = Some z ->
     cb_int [TTok t] = Ok (TTok (set_val t (VInt z)))) /\
  (forall t s m e, pk_val t = VStr s -> parse_float s = Some (m, e) ->
     cb_float [TTok t] = Ok (TTok (set_val t (VFloat m e)))) /\
  (forall t, cb_bool true [TTok t] = Ok (TTok (set_val t (VBool true)))) /\
  (forall t, cb_bool false [TTok t] = Ok (TTok (set_val t (VBool false)))) /\
  (forall t s, pk_val t = VStr s ->
     cb_hexcolor [TTok t] = Ok (TTok (set_val t (VStr (Case.lower (clean_string_s s)))))).
Proof. exact typed_values. Qed.
Print Assumptions C02_typed_values.

(* [U] a quoted string loses exactly its outer quotes, anything else is kept verbatim *)
Theorem C02_quoted_string_loses_only_outer_quotes :
  forall q body, (q = 34%N \/ q = 39%N) ->
    clean_string_s (q :: body ++ [q]) = body.
Proof. exact clean_quoted. Qed.
Print Assumptions C02_quoted_string_loses_only_outer_quotes.

Theorem C02_unquoted_string_verbatim :
  forall s, in_quotes s = false -> clean_string_s s = s.
Proof. exact clean_unquoted. Qed.
Print Assumptions C02_unquoted_string_verbatim.

(* [U] repeatable blocks go under the plural key in source order, singleton
   blocks are nested under their own name (last one wins) *)
Theorem C02_block_placement :
  forall ic st c items k,
    assoc s_type items = Some (TVal (VStr k)) ->
    composite_item ic st (TDict c items) =
      if mem_str k SINGLETON_COMPOSITE_NAMES
      then Ok (mk_cs (ci_set k (TDict c items) (cs_dict st)) (cs_pos st) (cs_comments st))
      else match tv_list_append (match ci_get (plural k) (cs_dict st) with Some x => x | None => TSeq [] end)
                                (TDict c items) with
           | Ok cur' => Ok (mk_cs (ci_set (plural k) cur' (cs_dict st)) (cs_pos st) (cs_comments st))
           | Err e => Err e
           end.
Proof. exact block_placement. Qed.
Print Assumptions C02_block_placement.

(* [F] the intended structure of every slot of the schema vocabulary (C19's
   product): loads (render g) = intended g, except the known failing slots *)
Theorem C02_intended_structure_on_slot_product :
  forall sd, In sd all_slotdocs -> ~ In (slot_id sd) C19.known_failing_slots -> slot_ok sd = true.
Proof. exact C19.C19_slots_parse_to_intended_structure. Qed.
Print Assumptions C02_intended_structure_on_slot_product.
