(* Property C17 - Mapfile dicts behave as case-insensitive, insertion-ordered
   dicts.  Theorems only; every proof is [exact] of a lemma in Proofs/. *)
From MF Require Import Lib.Base Lib.PyDict Gen.Tokens Model.Case Model.OrderedDict
  Spec.RefDict Proofs.CaseFacts Proofs.C17.

Notation step' := (step lower OBJECT_LIST_KEYS).
Notation run' := (run lower OBJECT_LIST_KEYS).
Notation ref_step' := (ref_step lower OBJECT_LIST_KEYS).
Notation ref_run' := (ref_run lower OBJECT_LIST_KEYS).
Notation Inv' := (Inv lower).

(* Every finite sequence of get/set/del/in/has_key/get()/pop/setdefault/
   update (positional and keyword)/construction/copy/deepcopy/pickle/move_to_end, from any
   dictionary satisfying the representation invariant and either factory
   setting, produces the outputs and the items() of the reference ordered dict
   keyed by lower-cased keys. *)
Theorem C17_refines_reference :
  forall (d : cid) (ops : list op),
    Inv' (store d) ->
    run' d ops =
      (mk_cid (factory d) (fst (ref_run' (factory d) (store d) ops)),
       snd (ref_run' (factory d) (store d) ops)).
Proof. exact (run_refines lower OBJECT_LIST_KEYS lower_idem). Qed.
Print Assumptions C17_refines_reference.

(* Keys are stored and reported in lower case, once each, in every reachable state. *)
Theorem C17_keys_lower_nodup_invariant :
  forall f m ops, Inv' m -> Inv' (fst (ref_run' f m ops)).
Proof. exact (run_Inv lower OBJECT_LIST_KEYS lower_idem). Qed.
Print Assumptions C17_keys_lower_nodup_invariant.

(* Construction from arbitrary mixed-case / duplicated pairs succeeds and
   establishes the invariant. *)
Theorem C17_construction :
  forall f e, exists d, ci_new lower OBJECT_LIST_KEYS f e = Ok d /\ Inv' (store d) /\ factory d = f
                        /\ store d = od_setall (fold_items lower e) [].
Proof.
  intros f e. eexists. split; [exact (ci_new_spec lower OBJECT_LIST_KEYS lower_idem f e)|].
  split; [|split; reflexivity].
  exact (proj1 (new_Inv lower OBJECT_LIST_KEYS lower_idem f e _
                        (ci_new_spec lower OBJECT_LIST_KEYS lower_idem f e))).
Qed.
Print Assumptions C17_construction.

(* Reading a missing object-list key yields a new empty list stored under it. *)
Theorem C17_missing_list_key :
  forall m k, Inv' m -> mem_str (lower k) OBJECT_LIST_KEYS = true -> assoc (lower k) m = None ->
    step' (mk_cid true m) (OGet k) = (mk_cid true (m ++ [(lower k, VList [])]), OutV (VList [])).
Proof. exact (missing_list_key lower OBJECT_LIST_KEYS lower_idem). Qed.
Print Assumptions C17_missing_list_key.

(* copy, deepcopy and the pickle round trip give an equal dictionary of the
   same class and factory. *)
Theorem C17_copy_deepcopy_pickle :
  forall d, Inv' (store d) ->
    ci_copy lower OBJECT_LIST_KEYS d = Ok d /\
    ci_deepcopy lower OBJECT_LIST_KEYS d = Ok d /\
    ci_pickle_roundtrip lower OBJECT_LIST_KEYS d = Ok d.
Proof.
  intros d H. split; [|split].
  - exact (copy_spec lower OBJECT_LIST_KEYS lower_idem d H).
  - exact (deepcopy_spec lower OBJECT_LIST_KEYS lower_idem d H).
  - exact (pickle_spec lower OBJECT_LIST_KEYS lower_idem d H).
Qed.
Print Assumptions C17_copy_deepcopy_pickle.

(* The reference dict itself keeps first-insertion order and obeys the map
   laws (so the refinement is to something meaningful). *)
Theorem C17_reference_is_ordered_map :
  forall (m : list (str * value)) k v,
    assoc k (od_set k v m) = Some v /\
    (forall k2, k2 <> k -> assoc k2 (od_set k v m) = assoc k2 m) /\
    (od_mem k m = true -> keys (od_set k v m) = keys m) /\
    (od_mem k m = false -> od_set k v m = m ++ [(k, v)]).
Proof.
  intros m k v. split; [exact (get_set_same k v m)|].
  split; [exact (fun k2 H => get_set_other k k2 v m H)|].
  split; [exact (set_existing_keeps_order k v m)|exact (set_new_appends k v m)].
Qed.
Print Assumptions C17_reference_is_ordered_map.

(* non-vacuity: a concrete mixed-case history meets the hypotheses and shows
   folding, order retention, auto-creation and deletion *)
Example C17_example :
  Inv' [(Str "name", VStr (Str "x")); (Str "type", VStr (Str "point"))] /\
  run' (mk_cid true [(Str "name", VStr (Str "x")); (Str "type", VStr (Str "point"))])
       [OSet (Str "NAME") (VInt 1); OGet (Str "Layers"); OIn (Str "TYPE"); ODel (Str "Type"); OGet (Str "name")]
  = (mk_cid true [(Str "name", VInt 1); (Str "layers", VList [])],
     [OutNone; OutV (VList []); OutB true; OutNone; OutV (VInt 1)]).
Proof. split; [split; [repeat constructor|]|vm_compute; reflexivity].
  repeat constructor; cbn; intuition discriminate. Qed.
