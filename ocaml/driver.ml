(* Thin line-protocol driver shared by every extracted component.
   stdin : one case per line, space separated decimal integers "fn t1 t2 ..."
   stdout: one line per case, the integers returned by Model.dispatch.
   The only glue is the conversion between OCaml ints and the extracted
   binary integers (positive / Z). *)

let rec pos_of_int (n : int) : Model.positive =
  if n = 1 then Model.XH
  else if n land 1 = 0 then Model.XO (pos_of_int (n lsr 1))
  else Model.XI (pos_of_int (n lsr 1))

let z_of_int (n : int) : Model.z =
  if n = 0 then Model.Z0 else if n > 0 then Model.Zpos (pos_of_int n) else Model.Zneg (pos_of_int (- n))

let rec int_of_pos (p : Model.positive) : int =
  match p with Model.XH -> 1 | Model.XO q -> 2 * int_of_pos q | Model.XI q -> 2 * int_of_pos q + 1

(* integers beyond the native range are printed exactly through strings *)
let rec string_of_pos (p : Model.positive) : string =
  (* fast path *)
  let rec bits p acc = match p with Model.XH -> acc + 1 | Model.XO q | Model.XI q -> bits q (acc + 1) in
  if bits p 0 < 62 then string_of_int (int_of_pos p)
  else begin
    (* decimal conversion by repeated doubling on a digit array *)
    let digits = ref [0] in
    let double_add (b : int) =
      let carry = ref b in
      digits := List.map (fun d -> let v = 2 * d + !carry in carry := v / 10; v mod 10) !digits;
      if !carry > 0 then digits := !digits @ [!carry] in
    let rec msb_first p acc = match p with
      | Model.XH -> 1 :: acc | Model.XO q -> msb_first q (0 :: acc) | Model.XI q -> msb_first q (1 :: acc) in
    List.iter double_add (msb_first p []);
    String.concat "" (List.rev_map string_of_int !digits)
  end

let string_of_z (x : Model.z) : string =
  match x with Model.Z0 -> "0" | Model.Zpos p -> string_of_pos p | Model.Zneg p -> "-" ^ string_of_pos p

(* inputs are native-range integers (the harness keeps generated numbers
   below 2^62); anything else aborts the run rather than being truncated *)
let z_of_string (s : string) : Model.z = z_of_int (int_of_string s)

let () =
  let buf = Buffer.create 65536 in
  try
    while true do
      let line = input_line stdin in
      let parts = List.filter (fun s -> s <> "") (String.split_on_char ' ' line) in
      match parts with
      | [] -> print_newline ()
      | fn :: rest ->
        let out = Model.dispatch (z_of_string fn) (List.map z_of_string rest) in
        Buffer.clear buf;
        List.iter (fun x -> Buffer.add_string buf (string_of_z x); Buffer.add_char buf ' ') out;
        print_string (Buffer.contents buf); print_newline ()
    done
  with End_of_file -> ()
