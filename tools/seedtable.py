#!/usr/bin/env python3
"""Markdown table of the seeded changes under /verif/seeded (which check caught what)."""
import os, json, re, glob
ROOT = os.path.dirname(os.path.dirname(os.path.abspath(__file__)))
rows = []
for d in sorted(glob.glob(os.path.join(ROOT, "seeded", "*"))):
    mp = os.path.join(d, "meta.json")
    if not os.path.exists(mp):
        continue
    m = json.load(open(mp))
    name = m.get("name")
    prop = m.get("property")
    res = (m.get("checks") or {}).get(prop) or {}
    fps = []
    for l in res.get("violations", []):
        g = re.match(r"\s+\(([^)]*)\)", l)
        if g and g.group(1) not in fps:
            fps.append(g.group(1))
    summ = (m.get("summary") or "").replace("|", "/").replace("\n", " ")
    summ = summ[:230] + ("..." if len(summ) > 230 else "")
    kind = m.get("kind", "breaks " + str(prop))
    caught = "yes" if m.get("detected_by_own_check") else "**no**"
    if m.get("kind") == "harmless":
        caught = "no alarm" if not m.get("alarms") else "**ALARM** " + ", ".join(m["alarms"])
    rows.append("| %s | %s | %s | %s | %s |" % (name, ", ".join(m.get("files") or []), summ, caught, "; ".join(fps[:4])))
print("| seed | files | change | caught by its property's check | fingerprints reported |")
print("|---|---|---|---|---|")
print("\n".join(rows))
