#!/venv/bin/python
"""Coordinator helper: make the given coq targets under the build lock."""
import sys, os
sys.path.insert(0, os.path.join(os.path.dirname(os.path.abspath(__file__))))
from checklib import build
with build.Lock():
    ok, log = build.make(sys.argv[1:] or ["all"], keep_going=True)
print(log[-3000:] if not ok else "ok")
sys.exit(0 if ok else 1)
