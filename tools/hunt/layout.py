"""C16 hunter: an independent, line-based checker of the layout contract on the
text returned by mappyfile.dumps.  Knows nothing of pprint.py or of the Coq
model; block words come from tokens.py (COMPLEX_TYPES, "types that require an
END").

check_layout(text, opts) -> list of (fingerprint, message)
"""

KV_BLOCKS = ("METADATA", "VALIDATION", "VALUES", "CONNECTIONOPTIONS")
PAIR_BLOCKS = ("POINTS", "PATTERN")
BLANK = " \t"


def block_words():
    from mappyfile.tokens import COMPLEX_TYPES
    return {w.upper() for w in COMPLEX_TYPES}


def first_token(body, quotes="\"'"):
    """(token, end index) of the first token of a keyword line: a quoted string or a bare word."""
    if body and body[0] in quotes:
        q = body[0]
        i = 1
        while i < len(body):
            if body[i] == "\\" and i + 1 < len(body):
                i += 2
                continue
            if body[i] == q:
                return body[:i + 1], i + 1
            i += 1
        return body, len(body)
    i = 0
    while i < len(body) and body[i] not in BLANK:
        i += 1
    return body[:i], i


def opens_c_comment(body):
    """True when an unquoted /* is left open at the end of the line."""
    i = 0
    q = None
    in_c = False
    while i < len(body):
        ch = body[i]
        if in_c:
            if body.startswith("*/", i):
                in_c = False
                i += 2
                continue
        elif q:
            if ch == "\\":
                i += 2
                continue
            if ch == q:
                q = None
        elif ch in "\"'":
            q = ch
        elif ch == "#":
            return False
        elif body.startswith("/*", i):
            in_c = True
            i += 2
            continue
        i += 1
    return in_c


def check_layout(text, o):
    issues = []
    nl = o["newlinechar"]
    unit = o["spacer"] * o["indent"]
    if nl == " ":
        if "\n" in text or "\r" in text:
            issues.append(("break:stray", "a line break appears although newlinechar is a space"))
        return issues
    lines = text.split(nl) if text else []
    words = block_words()
    step = max(1, o["indent"])
    stack = []          # [name, kind, keyword lines [(key, body)]]
    base = ""           # indentation of the current root block (reported once when it is not empty)
    in_c = False
    for n, ln in enumerate(lines, 1):
        if "\n" in ln or "\r" in ln:
            issues.append(("break:stray", "line %d contains a line break that is not newlinechar: %r" % (n, ln[:60])))
            continue
        body = ln.lstrip(BLANK)
        if in_c:
            if "*/" in body:
                in_c = False
            continue
        if body.startswith("#") or body.startswith("/*"):
            if body.startswith("/*") and "*/" not in body:
                in_c = True
            continue            # comment lines are outside the contract
        if body == "":
            issues.append(("indent:empty-line", "line %d is empty" % n))
            continue
        is_end = body == "END" or body.startswith("END #") or body.startswith("END ")
        kind = stack[-1][1] if stack else "root"
        if is_end:
            if not stack:
                issues.append(("end:unmatched", "line %d: END without an open block" % n))
                continue
            name, k, kws = stack.pop()
            depth = len(stack)
            if ln != base + unit * depth + body:
                issues.append(("indent:end", "line %d: END of %s is not at its opener's indentation (depth %d): %r" % (n, name, depth, ln)))
            want = "END # " + name if o["end_comment"] else "END"
            if body != want:
                issues.append(("endcomment:%s" % ("missing" if o["end_comment"] else "unexpected"),
                               "line %d: END of %s reads %r, expected %r" % (n, name, body, want)))
            if o["align_values"] and k in ("object", "kv"):
                issues += check_alignment(name, k, kws, step, n)
            continue
        depth = len(stack)
        if depth == 0:
            base = ""
            if ln != body and body in words:
                # a root block that does not start at the margin: reported once, the rest of the
                # block is checked relative to it
                base = ln[:len(ln) - len(body)]
                issues.append(("indent:root-opener%s" % (":keyvalue" if body in KV_BLOCKS else ""),
                               "line %d: root block %s is indented by %r although its nesting depth is 0" % (n, body, base)))
        if ln != base + unit * depth + body:
            what = "opener" if (kind in ("object", "root") and body in words) else "line"
            issues.append(("indent:%s" % what,
                           "line %d (%s at depth %d) is indented by %r, expected %r: %r" % (n, what, depth, ln[:len(ln) - len(body)], base + unit * depth, ln)))
        if opens_c_comment(body):
            in_c = True
        if kind in ("object", "root") and body in words:
            bk = "kv" if body in KV_BLOCKS else "proj" if body == "PROJECTION" else "pairs" if body in PAIR_BLOCKS else "object"
            stack.append([body, bk, []])
            continue
        if kind == "root":
            issues.append(("root:line", "line %d: a line outside any block: %r" % (n, ln)))
            continue
        if kind in ("object", "kv"):
            key, end = first_token(body)
            if not (kind == "object" and key == "CONFIG"):
                stack[-1][2].append((key, body))
    if stack:
        issues.append(("end:missing", "blocks left open at the end of the text: %s" % [s[0] for s in stack]))
    return issues


def check_alignment(name, kind, kws, step, n):
    if not kws:
        return []
    L = max(len(k) for k, _ in kws)
    col = (L // step + 1) * step
    out = []
    for key, body in kws:
        rest = body[len(key):]
        if rest.strip(BLANK) == "":
            continue            # empty value
        pad = len(rest) - len(rest.lstrip(" "))
        if len(key) + pad != col:
            slot = "keyvalue" if kind == "kv" else "keyword"
            from mappyfile.tokens import COMPLEX_TYPES
            longest = max(kws, key=lambda kb: len(kb[0]))[0].strip("\"'").lower()
            if kind == "kv" and (longest in COMPLEX_TYPES or longest == "config"):
                slot += ":blockword-key"
            out.append(("align:%s" % slot,
                        "block %s ending at line %d: value of %s starts at column %d, expected %d (longest keyword %d, step %d)"
                        % (name, n, key, len(key) + pad, col, L, step)))
    return out
