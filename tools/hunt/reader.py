"""C03 hunter: an independent reader of printed Mapfiles (Python port of
coq/Spec/Reader.v) and the oracle "what the dictionary says".

The reader knows nothing of mappyfile's grammar, parser or printer: it splits
the text into tokens (outside quotes on blanks; # and /* */ comments dropped)
and classifies each token:

  Q  quoted string (either quote), content = text between the quotes
  QI quoted string immediately followed by i ('...'i, case-insensitive match)
  W  bare word          N  number          B  [binding]
  P  balanced ( ... )   L  { ... }         R  /re/ or /re/i

The oracle expected_tokens(d, quote) walks the dictionary (objects, keywords
and values in order) and gives each value the lexical class the property text
requires, using only the JSON schema alternatives of the slot:
free strings quoted; enumerated words, numbers and booleans bare; bindings,
parenthesised expressions, regular expressions and list expressions unquoted
where the schema offers that alternative.
"""
import re

BLANK = " \t\r\n\f\v"
NUM = re.compile(r"^[-+]?(\d+\.?\d*([eE][-+]?\d+)?|\.\d+([eE][-+]?\d+)?)$")


class ReadError(Exception):
    pass


def tokenize(text):
    toks = []
    i, n = 0, len(text)
    while i < n:
        ch = text[i]
        if ch in BLANK:
            i += 1
        elif ch == "#":
            while i < n and text[i] not in "\r\n":
                i += 1
        elif text.startswith("/*", i):
            j = text.find("*/", i + 2)
            if j < 0:
                raise ReadError("unterminated /* comment at %d" % i)
            i = j + 2
        elif ch in "\"'":
            j = i + 1
            while j < n and text[j] != ch:
                if text[j] == "\\" and j + 1 < n and text[j + 1] == ch:
                    j += 1
                j += 1
            if j >= n:
                raise ReadError("unterminated string at %d: %r" % (i, text[i:i + 30]))
            content = text[i + 1:j].replace("\\" + ch, ch)
            j += 1
            if j < n and text[j] == "i" and (j + 1 == n or text[j + 1] in BLANK):
                toks.append(("QI", content))
                j += 1
            else:
                toks.append(("Q", content))
            i = j
        elif ch == "[":
            j = text.find("]", i)
            if j < 0:
                raise ReadError("unterminated [ at %d" % i)
            toks.append(("B", text[i:j + 1]))
            i = j + 1
        elif ch == "(":
            depth, j, q = 0, i, None
            while j < n:
                c = text[j]
                if q:
                    if c == q:
                        q = None
                elif c in "\"'":
                    q = c
                elif c == "(":
                    depth += 1
                elif c == ")":
                    depth -= 1
                    if depth == 0:
                        break
                j += 1
            if j >= n:
                raise ReadError("unbalanced ( at %d" % i)
            toks.append(("P", text[i:j + 1]))
            i = j + 1
        elif ch == "{":
            j = text.find("}", i)
            if j < 0:
                raise ReadError("unterminated { at %d" % i)
            toks.append(("L", text[i:j + 1]))
            i = j + 1
        elif ch == "/":
            j = i + 1
            while j < n and text[j] != "/" and text[j] not in "\r\n":
                if text[j] == "\\":
                    j += 1
                j += 1
            if j >= n or text[j] != "/":
                raise ReadError("unterminated /regex/ at %d" % i)
            j += 1
            if j < n and text[j] == "i":
                j += 1
            toks.append(("R", text[i:j]))
            i = j
        else:
            j = i
            while j < n and text[j] not in BLANK and text[j] not in "\"'":
                j += 1
            w = text[i:j]
            toks.append(("N" if NUM.match(w) else "W", w))
            i = j
    return toks


# ---------------------------------------------------------------- the oracle
KEYDICTS = ("metadata", "validation", "values", "connectionoptions")


class NoForm(Exception):
    """The dictionary holds a value that has no Mapfile representation."""


def _alts(p, depth=0):
    if depth > 6 or not hasattr(p, "keys"):
        return []
    out, comb = [], False
    for k in ("oneOf", "anyOf", "allOf"):
        if k in p:
            comb = True
            for a in p[k]:
                out += _alts(a, depth + 1)
    if not comb:
        out.append(p)
    return out


def _hidden(k):
    return k.startswith("__") and k.endswith("__")


def _num(v):
    return ("N", v)


def _tag(toks, where):
    return [(t[0], t[1], where) for t in toks]


def required_value(key, props, v, where):
    """Tokens the value must be written as, by the schema alternatives of its slot."""
    alts = _alts(props) or [{}]
    if isinstance(v, bool):
        return [("W", "TRUE" if v else "FALSE")]
    if isinstance(v, (int, float)):
        if any(a.get("type") in ("number", "integer") or any(isinstance(e, (int, float)) for e in a.get("enum", [])) for a in alts):
            return [_num(v)]
        if any(a.get("type") == "string" for a in alts):
            return [("Q", str(v))]
        return [_num(v)]
    if isinstance(v, str):
        s = v.strip()
        words = [e for a in alts for e in a.get("enum", []) if isinstance(e, str)]
        pats = [a.get("pattern", "") for a in alts if a.get("type") == "string"]
        free = any(a.get("type") == "string" and "pattern" not in a for a in alts)
        expr_alt = any(p.startswith("^\\(") for p in pats)
        if v.lower() in words:
            if key == "compop" or v.lower() == "end":
                return [("Q", v)]           # MapServer reads these as strings (COMPOP "multiply", GEOMTRANSFORM "end")
            return [("W", v.upper())]
        if s.startswith("[") and s.endswith("]") and any(p.startswith("^\\[") for p in pats):
            return [("B", s)]
        if s.startswith("[") and s.endswith("]") and len(alts) >= 2 and key != "text":
            # keywords with several alternatives (SYMBOL, SIZE, ...) take bindings in MapServer even where the
            # schema does not list the pattern: either form is accepted here
            return [("B?", s)]
        if s.startswith("(") and s.endswith(")") and expr_alt:
            return [("P", s)]
        if s.startswith("NOT ") and s[4:].strip().startswith("(") and s.endswith(")") and expr_alt:
            return [("W", "NOT"), ("P", s[4:].strip())]
        if len(s) >= 2 and s.startswith("/") and (s.endswith("/") or s.endswith("/i")) and any(p.startswith("^/") for p in pats):
            return [("R", s)]
        if s.startswith("{") and s.endswith("}") and key == "expression":
            return [("L", s)]
        if len(v) >= 3 and v[0] in "\"'" and v.endswith(v[0] + "i") and (expr_alt or any(p.startswith("^/") for p in pats)):
            return [("QI", v[1:-2])]
        if free or pats:
            return [("Q", v)]
        raise NoForm("%s: string %r under a keyword whose schema offers no string alternative" % (where, v))
    if isinstance(v, (list, tuple)):
        out = []
        item_alts = []
        for a in alts:
            if a.get("type") == "array":
                its = a.get("items", {})
                for it in (its if isinstance(its, list) else [its]):
                    item_alts += _alts(it)
        binding_items = any(a.get("pattern", "").startswith("^\\[") for a in item_alts)
        for x in v:
            if isinstance(x, bool) or x is None or isinstance(x, (dict, list, tuple)):
                raise NoForm("%s: list element %r" % (where, x))
            if isinstance(x, (int, float)):
                out.append(_num(x))
            elif x.startswith("[") and x.endswith("]") and binding_items:
                out.append(("B", x))
            else:
                out.append(("Q", x))
        return out
    raise NoForm("%s: value %r has no Mapfile representation" % (where, v))


def expected_tokens(d, schema_props):
    """Flat token sequence the printed text must contain.  schema_props(type, key) -> slot schema or None."""
    from mappyfile.tokens import OBJECT_LIST_KEYS, REPEATED_KEYS
    out = []
    roots = d if isinstance(d, list) else [d]
    for r in roots:
        _object(r, out, schema_props, OBJECT_LIST_KEYS, REPEATED_KEYS, "")
    return out


def _kv_block(name, d, out, where):
    out.append(("W", name.upper()))
    for k, v in d.items():
        if _hidden(k):
            continue
        if isinstance(v, (dict, list, tuple)) or v is None:
            raise NoForm("%s.%s: %r in a key-value block" % (where, k, v))
        out.append(("Q", k))
        out.append(("Q", str(v)))
    out.append(("W", "END"))


def _object(d, out, schema_props, OLK, RK, where):
    if not isinstance(d, dict) or not isinstance(d.get("__type__"), str):
        raise NoForm("%s: object without __type__" % where)
    t = d["__type__"]
    where = where + "/" + t
    if t in KEYDICTS:
        return _kv_block(t, d, out, where)
    out.append(("W", t.upper()))
    for k, v in d.items():
        if _hidden(k):
            continue
        w = "%s.%s" % (where, k)
        if k in OLK and isinstance(v, list):
            for c in v:
                _object(c, out, schema_props, OLK, RK, where)
        elif k in KEYDICTS:
            if not isinstance(v, dict):
                raise NoForm("%s: %r" % (w, v))
            _kv_block(k, v, out, where)
        elif k in ("pattern", "points"):
            parts = v
            if not isinstance(v, (list, tuple)) or not v:
                raise NoForm("%s: %r" % (w, v))
            if not isinstance(v[0][0], (list, tuple)):
                parts = [v]
            for part in parts:
                out.append(("W", k.upper()))
                for p in part:
                    out += [_num(p[0]), _num(p[1])]
                out.append(("W", "END"))
        elif k == "projection":
            out.append(("W", "PROJECTION"))
            if isinstance(v, str):
                out.append(("Q", v))
            elif isinstance(v, list) and len(v) == 1 and isinstance(v[0], str) and v[0].upper() == "AUTO":
                out.append(("W", "AUTO"))
            elif isinstance(v, list):
                out += [("Q", x) for x in v]
            else:
                raise NoForm("%s: %r" % (w, v))
            out.append(("W", "END"))
        elif k in RK:
            if not isinstance(v, list):
                raise NoForm("%s: %r" % (w, v))
            for x in v:
                out += [("W", k.upper()), ("Q", str(x))]
        elif k == "config":
            if not isinstance(v, dict):
                raise NoForm("%s: %r" % (w, v))
            for ck, cv in v.items():
                if _hidden(ck):
                    continue
                out += [("W", "CONFIG"), ("Q", ck.upper()), ("Q", str(cv))]
        elif isinstance(v, dict) and "__type__" in v:
            _object(v, out, schema_props, OLK, RK, where)
        else:
            if isinstance(v, dict) or v is None:
                raise NoForm("%s: %r has no Mapfile representation" % (w, v))
            props = schema_props(t, k)
            if props is None:
                raise NoForm("%s: keyword unknown to the schema" % w)
            out.append(("W", k.upper(), w))
            out += _tag(required_value(k, props, v, w), w)
    out.append(("W", "END"))


def same_token(a, b):
    """Expected token a (from the dictionary) against read token b."""
    a, b = a[:2], b[:2]
    if a[0] == "N":
        if b[0] != "N":
            return False
        try:
            return float(b[1]) == float(a[1])
        except ValueError:
            return False
    if a[0] == "B?":
        return b[0] in ("B", "Q") and b[1].strip() == a[1].strip()
    if a[0] in ("P", "B", "R", "L"):
        return b[0] == a[0] and b[1].strip() == a[1].strip()
    return a == b


def first_mismatch(exp, got):
    for i, (a, b) in enumerate(zip(exp, got)):
        if not same_token(a, b):
            return i
    if len(exp) != len(got):
        return min(len(exp), len(got))
    return None
