"""Run cases through an extracted model component (ocaml/<component>/driver)."""
import os, subprocess

ROOT = os.path.dirname(os.path.dirname(os.path.dirname(os.path.abspath(__file__))))


def run_model(component, cases, timeout=600):
    """cases: list of (fn, [ints]) -> list of [ints] (one per case)."""
    drv = os.path.join(ROOT, "ocaml", component, "driver")
    inp = "\n".join(" ".join(map(str, [fn] + list(t))) for fn, t in cases) + "\n"
    p = subprocess.run([drv], input=inp.encode(), stdout=subprocess.PIPE, stderr=subprocess.PIPE, timeout=timeout)
    if p.returncode != 0:
        raise RuntimeError("model driver %s failed: %s" % (component, p.stderr.decode()[-2000:]))
    lines = p.stdout.decode().split("\n")
    out = [[int(x) for x in ln.split()] for ln in lines[:len(cases)]]
    if len(out) != len(cases):
        raise RuntimeError("model driver %s returned %d lines for %d cases" % (component, len(out), len(cases)))
    return out
