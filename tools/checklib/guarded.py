"""A worker process that runs the real mappyfile.loads under a deadline.

CPython's `re` holds the GIL while it matches, so a pathological pattern cannot
be interrupted from inside the process.  C11 ("promptly") therefore sends every
input to a child process and waits for the answer with a timeout; a child that
does not answer is killed and the input that stalled it is the replay."""
import os, sys, json, subprocess, select, time

WORKER = r'''
import sys, json, time
import lark
from mappyfile.parser import Parser
from mappyfile.transformer import MapfileToDict
import mappyfile
p = Parser(expand_includes=False)
m = MapfileToDict()
out = sys.stdout
MODULE_API = len(sys.argv) > 1 and sys.argv[1] == "module"
for line in sys.stdin:
    text = json.loads(line)
    t0 = time.perf_counter()
    try:
        if MODULE_API:
            mappyfile.loads(text, expand_includes=False)
        else:
            m.transform(p.parse(text))
        r = ["ok"]
    except Exception as ex:
        if isinstance(ex, lark.exceptions.UnexpectedInput):
            r = ["lark", type(ex).__name__, getattr(ex, "line", None), getattr(ex, "column", None)]
        elif isinstance(ex, lark.exceptions.LarkError):
            r = ["lark", type(ex).__name__, None, None]
        else:
            r = ["other", type(ex).__name__]
    out.write(json.dumps({"r": r, "s": time.perf_counter() - t0}) + "\n")
    out.flush()
'''


class Guarded:
    def __init__(self, repo, module_api=False):
        """module_api: call mappyfile.loads (a new Parser per call on the pinned tree) instead of one reused Parser"""
        self.repo = repo
        self.module_api = module_api
        self.p = None

    def _start(self):
        env = dict(os.environ, PYTHONPATH=self.repo, PYTHONHASHSEED="0", PYTHONDONTWRITEBYTECODE="1")
        self.p = subprocess.Popen(["/venv/bin/python", "-c", WORKER] + (["module"] if self.module_api else []), stdin=subprocess.PIPE, stdout=subprocess.PIPE,
                                  stderr=subprocess.DEVNULL, env=env, cwd="/")

    def classify(self, text, timeout):
        """-> (outcome tuple, seconds) ; outcome ('timeout', seconds_waited) when the deadline passes,
        ('died',) when the worker exits (e.g. a fatal interpreter error)"""
        if self.p is None or self.p.poll() is not None:
            self._start()
        try:
            self.p.stdin.write((json.dumps(text) + "\n").encode())
            self.p.stdin.flush()
        except BrokenPipeError:
            self.close()
            return ("died",), 0.0
        t0 = time.time()
        fd = self.p.stdout.fileno()
        buf = b""
        while True:
            left = timeout - (time.time() - t0)
            if left <= 0:
                self.close()
                return ("timeout", round(time.time() - t0, 1)), time.time() - t0
            r, _, _ = select.select([fd], [], [], min(left, 1.0))
            if r:
                chunk = os.read(fd, 65536)
                if not chunk:
                    self.close()
                    return ("died",), time.time() - t0
                buf += chunk
                if b"\n" in buf:
                    d = json.loads(buf.split(b"\n", 1)[0])
                    return tuple(d["r"]), d["s"]

    def close(self):
        if self.p is not None:
            try:
                self.p.kill()
                self.p.wait(timeout=5)
            except Exception:  # noqa
                pass
            self.p = None
