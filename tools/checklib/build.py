"""Regenerate coq/Gen from /repo, build Coq targets, extraction and OCaml drivers."""
import os, subprocess, sys, glob, fcntl, time, re

ROOT = os.path.dirname(os.path.dirname(os.path.dirname(os.path.abspath(__file__))))
COQ = os.path.join(ROOT, "coq")
REPO = os.environ.get("VERIF_REPO", "/repo")
PY = "/venv/bin/python"
JOBS = str(os.cpu_count() or 8)

ALLOWED_AXIOMS = set()  # the development is meant to be closed; standard-library axioms would be named here

TRANSLATORS = ["gen_tokens.py", "gen_unicode.py", "gen_schemas.py", "gen_grammar.py", "gen_slotdocs.py", "gen_shared.py"]


def env():
    e = dict(os.environ)
    e["PYTHONPATH"] = REPO + os.pathsep + os.path.join(ROOT, "tools")
    e["PYTHONHASHSEED"] = "0"
    e["MAPPYFILE_USE_CYTHON"] = "False"
    e["PYTHONDONTWRITEBYTECODE"] = "1"
    return e


class Lock:
    def __enter__(self):
        self.f = open(os.path.join(ROOT, "build.lock"), "w")
        fcntl.flock(self.f, fcntl.LOCK_EX)
        return self

    def __exit__(self, *a):
        fcntl.flock(self.f, fcntl.LOCK_UN)
        self.f.close()


def regen(only=None):
    """Run every translator. Returns {name: 'changed'|'unchanged'|'FAILED: ...'}."""
    res = {}
    tdir = os.path.join(ROOT, "tools", "translate")
    for t in TRANSLATORS:
        if only and t not in only:
            continue
        path = os.path.join(tdir, t)
        if not os.path.exists(path):
            continue
        p = subprocess.run([PY, path], cwd=tdir, env=env(), stdout=subprocess.PIPE, stderr=subprocess.STDOUT, timeout=600)
        out = p.stdout.decode(errors="replace").strip()
        res[t] = out.splitlines()[-1] if p.returncode == 0 and out else ("FAILED: " + out[-1500:])
    return res


def coq_project():
    files = []
    for d in ("Lib", "Gen", "Model", "Spec", "Proofs", "Props", "Extract"):
        files += sorted(glob.glob(os.path.join(COQ, d, "*.v")))
    txt = "-R . MF\n-arg -no-glob\n-arg -w -arg -notation-overridden,-deprecated-hint-without-locality,-deprecated-instance-without-locality\n" + "\n".join(os.path.relpath(f, COQ) for f in files) + "\n"
    p = os.path.join(COQ, "_CoqProject")
    old = open(p).read() if os.path.exists(p) else None
    if old != txt or not os.path.exists(os.path.join(COQ, "Makefile")):
        open(p, "w").write(txt)
        subprocess.run(["coq_makefile", "-f", "_CoqProject", "-o", "Makefile"], cwd=COQ, check=True,
                       stdout=subprocess.DEVNULL, stderr=subprocess.DEVNULL)


def make(targets, timeout=3000, keep_going=False):
    """Full .vo build of the given targets (never -vos). Returns (ok, log)."""
    coq_project()
    # the extraction files write ../ocaml/<component>/model.ml: the directories hold generated files only
    # and are therefore absent from a fresh clone
    for f in glob.glob(os.path.join(COQ, "Extract", "*.v")):
        os.makedirs(os.path.join(ROOT, "ocaml", os.path.basename(f)[:-2].lower()), exist_ok=True)
    cmd = ["timeout", str(timeout), "make", "-j", JOBS] + (["-k"] if keep_going else []) + list(targets)
    p = subprocess.run(cmd, cwd=COQ, stdout=subprocess.PIPE, stderr=subprocess.STDOUT)
    return p.returncode == 0, p.stdout.decode(errors="replace")


def first_error(log):
    m = re.search(r'File "([^"]+)", line (\d+)[^\n]*\n((?:.*\n){0,12})', log)
    if not m:
        return log[-1500:]
    return "%s:%s\n%s" % (m.group(1), m.group(2), m.group(3))


def props_assumptions(pid, timeout=900):
    """Re-check Props/<pid>.v and parse the Print Assumptions output.
    Returns (ok, n_theorems, axioms:list[str], log)."""
    out_vo = os.path.join(ROOT, "build", "props", "%s.vo" % pid)
    os.makedirs(os.path.dirname(out_vo), exist_ok=True)
    p = subprocess.run(["timeout", str(timeout), "coqc", "-R", ".", "MF", "Props/%s.v" % pid, "-o", out_vo],
                       cwd=COQ, stdout=subprocess.PIPE, stderr=subprocess.STDOUT)
    log = p.stdout.decode(errors="replace")
    closed = log.count("Closed under the global context")
    axioms = []
    for blk in re.findall(r"Axioms:\n((?:.+\n?)+?)(?:\n|\Z)", log):
        for ln in blk.splitlines():
            m = re.match(r"^([A-Za-z_][\w.']*)\s*:", ln)
            if m:
                axioms.append(m.group(1))
    src = open(os.path.join(COQ, "Props", "%s.v" % pid)).read()
    n_thm = len(re.findall(r"^\s*Print Assumptions", src, re.M))
    return p.returncode == 0, n_thm, closed, sorted(set(axioms)), log


FORBIDDEN = re.compile(r"\b(Admitted|admit|Axiom|Axioms|Parameter|Parameters|Conjecture|Admit Obligations|bypass_check|Unset Guard Checking|Unset Positivity Checking|Unset Universe Checking|type-in-type|impredicative-set)\b")


def forbidden_scan():
    """Names of files containing a forbidden vernacular (comments stripped crudely)."""
    bad = []
    for f in glob.glob(os.path.join(COQ, "*", "*.v")):
        if os.sep + "Gen" + os.sep in f:
            continue
        src = open(f, encoding="utf-8").read()
        src = re.sub(r"\(\*.*?\*\)", "", src, flags=re.S)
        m = FORBIDDEN.search(src)
        if m:
            bad.append("%s: %s" % (os.path.relpath(f, COQ), m.group(0)))
    return bad


def ocaml_build(component):
    """Make sure ocaml/<component>/driver is newer than the extraction."""
    d = os.path.join(ROOT, "ocaml", component)
    ml = os.path.join(d, "model.ml")
    vo = os.path.join(COQ, "Extract", component.capitalize() + ".vo")
    os.makedirs(d, exist_ok=True)
    if not os.path.exists(ml) or (os.path.exists(vo) and os.path.getmtime(ml) + 1 < os.path.getmtime(vo)):
        if os.path.exists(vo):
            os.remove(vo)
    ok, log = make(["Extract/%s.vo" % component.capitalize()])
    if not ok:
        return False, log
    drv = os.path.join(d, "driver")
    src = os.path.join(ROOT, "ocaml", "driver.ml")
    if (not os.path.exists(drv)) or os.path.getmtime(drv) < max(os.path.getmtime(ml), os.path.getmtime(src)):
        p = subprocess.run(["ocamlfind", "ocamlopt", "-w", "-a", "-I", ".", "model.mli", "model.ml", src, "-o", "driver"],
                           cwd=d, stdout=subprocess.PIPE, stderr=subprocess.STDOUT, timeout=900)
        if p.returncode != 0:
            return False, p.stdout.decode(errors="replace")
    return True, ""
