"""Wire format shared with coq/Lib/Codec.v: flat integer lists."""
from collections import OrderedDict
from decimal import Decimal


def enc_str(s):
    return [len(s)] + [ord(c) for c in s]


def float_me(f):
    """float -> canonical decimal (m, e) with f == m * 10**e and m without trailing zeros."""
    d = Decimal(repr(f))
    sign, digits, exp = d.as_tuple()
    if not isinstance(exp, int):
        raise ValueError("non-finite float %r" % f)
    m = int("".join(map(str, digits)))
    while m != 0 and m % 10 == 0:
        m //= 10
        exp += 1
    if m == 0:
        exp = 0
    return (-m if sign else m), exp


def cls_code(d):
    from mappyfile.ordereddict import CaseInsensitiveOrderedDict, DefaultOrderedDict
    if isinstance(d, CaseInsensitiveOrderedDict):
        return 4 if d.default_factory is not None else 3
    if isinstance(d, DefaultOrderedDict):
        return 2 if d.default_factory is not None else 1
    return 0


def enc_value(v):
    if v is None:
        return [0]
    if isinstance(v, bool):
        return [1, 1 if v else 0]
    if isinstance(v, int):
        return [2, v]
    if isinstance(v, float):
        m, e = float_me(v)
        return [3, m, e]
    if isinstance(v, str):
        return [4] + enc_str(v)
    if isinstance(v, (list, tuple)):
        out = [5, len(v)]
        for x in v:
            out += enc_value(x)
        return out
    if isinstance(v, dict):
        out = [6, cls_code(v), len(v)]
        for k, x in v.items():
            out += enc_str(k) + enc_value(x)
        return out
    raise TypeError("cannot encode %r" % (v,))


def enc_items(pairs):
    out = [len(pairs)]
    for k, v in pairs:
        out += enc_str(k) + enc_value(v)
    return out


class Reader:
    def __init__(self, toks):
        self.t = toks
        self.i = 0

    def z(self):
        v = self.t[self.i]
        self.i += 1
        return v

    def done(self):
        return self.i >= len(self.t)

    def str(self):
        n = self.z()
        s = "".join(chr(c) for c in self.t[self.i:self.i + n])
        self.i += n
        return s

    def value(self):
        tag = self.z()
        if tag == 0:
            return None
        if tag == 1:
            return self.z() != 0
        if tag == 2:
            return self.z()
        if tag == 3:
            m = self.z(); e = self.z()
            return ("float", m, e)
        if tag == 4:
            return self.str()
        if tag == 5:
            n = self.z()
            return [self.value() for _ in range(n)]
        if tag == 6:
            c = self.z(); n = self.z()
            items = []
            for _ in range(n):
                k = self.str(); v = self.value()
                items.append((k, v))
            return ("dict", c, items)
        raise ValueError("bad tag %r at %d" % (tag, self.i - 1))

    def items(self):
        n = self.z()
        return [(self.str(), self.value()) for _ in range(n)]


def canon(v):
    """Python value -> the same canonical shape Reader.value() produces."""
    if isinstance(v, float):
        m, e = float_me(v)
        return ("float", m, e)
    if isinstance(v, (list, tuple)):
        return [canon(x) for x in v]
    if isinstance(v, dict):
        return ("dict", cls_code(v), [(k, canon(x)) for k, x in v.items()])
    return v
