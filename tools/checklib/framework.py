"""Check context: violations, known findings, evidence, replay files."""
import os, json, time, hashlib, random, sys

ROOT = os.path.dirname(os.path.dirname(os.path.dirname(os.path.abspath(__file__))))


def load_findings():
    p = os.path.join(ROOT, "known_findings.json")
    if not os.path.exists(p):
        return []
    return json.load(open(p))["findings"]


class Ctx:
    def __init__(self, pid, tier, seed):
        self.pid = pid
        self.tier = tier
        self.seed = seed
        self.rng = random.Random(seed)
        self.t0 = time.time()
        self.violations = []       # (fingerprint, what, replay_path, no_input)
        self.known_hits = {}       # finding id -> description
        self.obligations = []      # (name, discharged: bool, detail)
        self.coverage = {}
        self.samples = []
        self.assumptions = []
        self.evaluations = 0
        self.nontrivial = set()
        self.findings = [f for f in load_findings() if f["property"] == pid]
        self.model_ok = True
        self.escalate = False      # set when a proof / translator / correspondence broke

    # ------------------------------------------------------------------
    def quick(self):
        return self.tier == "quick" and not self.escalate

    def budget(self, quick, thorough):
        return thorough if (self.tier == "thorough" or self.escalate) else quick

    def obligation(self, name, ok, detail=""):
        self.obligations.append((name, bool(ok), detail))

    def count(self, key, n=1):
        self.coverage[key] = self.coverage.get(key, 0) + n

    def note_case(self, case_key, nontrivial=True):
        self.evaluations += 1
        if nontrivial:
            self.nontrivial.add(case_key if isinstance(case_key, (str, int)) else hashlib.sha1(repr(case_key).encode()).hexdigest())

    def sample(self, s, limit=6):
        if len(self.samples) < limit:
            self.samples.append(s)

    # ------------------------------------------------------------------
    def match_known(self, fingerprint):
        for f in self.findings:
            if f.get("status") == "open" and f["fingerprint"] == fingerprint:
                return f
        return None

    def violation(self, fingerprint, what, replay, no_input=False):
        """Report a violation of self.pid.  `fingerprint` identifies the failing
        call site / slot / minimal input; open known findings with the same
        fingerprint are reported as KNOWN-FINDING instead."""
        k = self.match_known(fingerprint)
        if k is not None and not no_input:
            if k["id"] not in self.known_hits:
                self.known_hits[k["id"]] = k["what"]
            return False
        for v in self.violations:
            if v[0] == fingerprint:
                return True
        os.makedirs(os.path.join(ROOT, "replays"), exist_ok=True)
        h = hashlib.sha1((self.pid + fingerprint).encode()).hexdigest()[:12]
        path = os.path.join(ROOT, "replays", "%s-%s.json" % (self.pid, h))
        body = {"property": self.pid, "fingerprint": fingerprint, "what": what,
                "no_failing_input_found": bool(no_input), "seed": self.seed, "tier": self.tier,
                "replay": replay, "rerun": "./check %s --replay %s" % (self.pid, path)}
        with open(path, "w") as f:
            json.dump(body, f, indent=1, default=str)
        self.violations.append((fingerprint, what, path, no_input))
        return True

    # ------------------------------------------------------------------
    def finish(self, level="proof", checker_cmd="", trusted_base=None, rule="", explanation=""):
        for fid, what in sorted(self.known_hits.items()):
            print("KNOWN-FINDING: property=%s %s [%s]" % (self.pid, what, fid))
        for fp, what, path, no_input in self.violations:
            print("VIOLATION property=%s replay=%s%s" % (self.pid, path, " no-failing-input-found" if no_input else ""))
            print("  (%s) %s" % (fp, what[:300]))
        n_ob = len(self.obligations)
        n_ok = sum(1 for o in self.obligations if o[1])
        cov = dict(self.coverage)
        cov.update({
            "obligations": n_ob, "discharged": n_ok,
            "obligation_list": [{"name": n, "discharged": ok, "detail": d} for n, ok, d in self.obligations],
            "checker_cmd": checker_cmd, "trusted_base": trusted_base or [],
            "evaluations": self.evaluations, "distinct_nontrivial": len(self.nontrivial),
            "rule": rule, "samples": self.samples or ["(no samples)"],
            "known_findings_hit": sorted(self.known_hits),
            "explanation": explanation,
        })
        ev = {"property_id": self.pid, "tier": self.tier, "seed": self.seed, "level": level,
              "coverage": cov, "assumptions": self.assumptions,
              "wall_s": round(time.time() - self.t0, 2), "violations": len(self.violations)}
        os.makedirs(os.path.join(ROOT, "evidence"), exist_ok=True)
        with open(os.path.join(ROOT, "evidence", "%s.json" % self.pid), "w") as f:
            json.dump(ev, f, indent=1, default=str)
        return 1 if self.violations else 0
