"""Observation of the real parser (token stream fed to the LR driver, parse
tree with meta) and decoding of the model's obs_parse output."""
import json, os, threading
from checklib import codec

ROOT = os.path.dirname(os.path.dirname(os.path.dirname(os.path.abspath(__file__))))
_names = None


def names():
    global _names
    if _names is None:
        _names = json.load(open(os.path.join(ROOT, "coq", "Gen", "grammar_names.json")))
    return _names


_rec = threading.local()


def _install_recorder():
    from lark.parsers import lalr_parser_state as lps
    if getattr(lps.ParserState, "_verif_patched", False):
        return
    orig = lps.ParserState.feed_token

    def feed_token(self, token, is_end=False):
        buf = getattr(_rec, "buf", None)
        if buf is not None and not is_end:
            buf.append((token.type, str(token), token.line, token.column, token.end_line, token.end_column))
        return orig(self, token, is_end)
    lps.ParserState.feed_token = feed_token
    lps.ParserState._verif_patched = True


def canon_tree(t):
    from lark import Tree
    if isinstance(t, Tree):
        m = t.meta
        return ("node", t.data if isinstance(t.data, str) else str(t.data), [canon_tree(c) for c in t.children],
                (bool(m.empty), getattr(m, "line", None), getattr(m, "end_line", None)))
    return ("tok", t.type, str(t), t.line, t.column, t.end_line, t.end_column)


def exn_canon(ex):
    import lark
    if isinstance(ex, lark.exceptions.UnexpectedCharacters):
        return ("exn", 1, ex.line, ex.column)
    if isinstance(ex, lark.exceptions.UnexpectedToken):
        return ("exn", 2, ex.token.line, ex.token.column)
    code = {"IndexError": 4, "KeyError": 5, "AttributeError": 6, "TypeError": 7, "ValueError": 8,
            "AssertionError": 9, "OSError": 10, "FileNotFoundError": 10, "RecursionError": 13}.get(type(ex).__name__, 98)
    if isinstance(ex, lark.exceptions.VisitError):
        code = 3
    return ("exn", code, 0, 0)


_parsers = {}


def _cached_parser(with_comments):
    from mappyfile.parser import Parser
    if with_comments not in _parsers:
        _parsers[with_comments] = Parser(expand_includes=False, include_comments=with_comments)
    return _parsers[with_comments]


def impl_parse(text, with_comments=False, parser=None):
    """Real Parser.parse on include-free text -> (tokens fed, tree | exn, comment tokens)."""
    from mappyfile.parser import Parser
    _install_recorder()
    p = parser or _cached_parser(with_comments)
    _rec.buf = []
    try:
        tree = p.parse(text)
        res = canon_tree(tree)
    except Exception as ex:  # noqa
        res = exn_canon(ex)
    toks = _rec.buf
    _rec.buf = None
    comments = ([(c.type, str(c), c.line, c.column, c.end_line, c.end_column) for c in p._comments]
                if with_comments and res[0] != "exn" else [])
    return toks, res, comments


def enc_parse_case(text, with_comments=False):
    return [1 if with_comments else 0] + codec.enc_str(text)


def _tok(rd, tn):
    ty = rd.z(); v = rd.str(); line = rd.z(); col = rd.z(); el = rd.z(); ec = rd.z()
    return (tn[ty], v, line, col, el, ec)


def _opt(rd):
    return rd.z() if rd.z() else None


def _tree(rd, nm):
    tag = rd.z()
    if tag == 0:
        return ("tok",) + _tok(rd, nm["terms"])
    d = rd.z(); n = rd.z()
    cs = [_tree(rd, nm) for _ in range(n)]
    empty = rd.z() != 0
    line = _opt(rd); el = _opt(rd)
    return ("node", nm["callbacks"][d], cs, (empty, line, el))


def dec_parse_out(toks):
    nm = names()
    rd = codec.Reader(toks)
    n = rd.z()
    stream = [_tok(rd, nm["terms"]) for _ in range(n)]
    st = rd.z()
    if st == 0:
        tree = _tree(rd, nm)
        k = rd.z()
        comments = [_tok(rd, nm["terms"]) for _ in range(k)]
        return stream, tree, comments
    code = rd.z(); l = rd.z(); c = rd.z()
    return stream, ("exn", code, l, c), []
