"""Greedy delta-debugging on sequences."""


def shrink_list(seq, fails, max_rounds=200):
    """Smallest sub-sequence (by greedy chunk removal) on which fails(seq) is still true."""
    seq = list(seq)
    n = 2
    rounds = 0
    while len(seq) >= 1 and rounds < max_rounds:
        rounds += 1
        chunk = max(1, len(seq) // n)
        removed = False
        i = 0
        while i < len(seq):
            cand = seq[:i] + seq[i + chunk:]
            try:
                bad = fails(cand)
            except Exception:
                bad = False
            if bad:
                seq = cand
                removed = True
            else:
                i += chunk
        if not removed:
            if chunk == 1:
                break
            n = min(len(seq), n * 2)
    return seq
