#!/bin/sh
# independent verification of one seed in a scratch worktree: demo on pristine (0), patched (!=0), test suite
p=$1; sd=/tmp/seed_$p/_seed; sc=/tmp/seedverify_$p
git -C /repo worktree remove --force $sc >/dev/null 2>&1
git -C /repo worktree add -q $sc HEAD || exit 9
cd $sc
mkdir -p $sc/_seedcopy && cp $sd/demo.py $sc/_seedcopy/demo.py
r0=$(PYTHONPATH=$sc PYTHONDONTWRITEBYTECODE=1 timeout 900 /venv/bin/python $sc/_seedcopy/demo.py >/dev/null 2>&1; echo $?)
git apply $sd/patch.diff; ra=$?
r1=$(PYTHONPATH=$sc PYTHONDONTWRITEBYTECODE=1 timeout 900 /venv/bin/python $sc/_seedcopy/demo.py >/dev/null 2>&1; echo $?)
t=$(timeout 1500 /venv/bin/python -m pytest -q -p no:cacheprovider --timeout=900 --deselect tests/test_map_collection.py::test_maps 2>&1 | tail -1)
cd /; git -C /repo worktree remove --force $sc
echo "$p pristine=$r0 apply=$ra patched=$r1 tests: $t"
