"""Round-trip helpers shared by C01 / C04 / C06 / C14: the allowed-difference
relation of C01, a structural diff that names the differing keyword, the
documented exclusions."""
import re
from gens import docs

EXPR_KEYS = ("expression", "filter", "text", "geomtransform", "group", "size", "priority", "labelrequires", "requires",
             "filteritem", "classitem", "angle", "color", "outlinecolor", "width", "offset", "position")


def plain_all(v):
    """loads() result -> plain nested lists/dicts; hidden keys except __type__ dropped"""
    return docs.plain(v)


def approx(a, b):
    """C01: b (re-loaded) may differ from a only by upper-casing a bare enumerated word or by
    turning a number into the string that spells it"""
    if isinstance(a, dict) and isinstance(b, dict):
        return list(a.keys()) == list(b.keys()) and all(approx(a[k], b[k]) for k in a)
    if isinstance(a, (list, tuple)) and isinstance(b, (list, tuple)):
        return len(a) == len(b) and all(approx(x, y) for x, y in zip(a, b))
    if isinstance(a, bool) or isinstance(b, bool):
        return a is b
    if isinstance(a, str) and isinstance(b, str):
        return a == b or a.upper() == b
    if isinstance(a, (int, float)) and isinstance(b, (int, float)):
        return a == b
    if isinstance(a, (int, float)) and isinstance(b, str):
        return str(a) == b
    return a == b and type(a) is type(b)


def first_diff(a, b, path=(), typ=None):
    """-> (enclosing object type, key path tuple, a-value, b-value) of the first difference"""
    if isinstance(a, dict) and isinstance(b, dict):
        t = a.get("__type__", typ)
        if list(a.keys()) != list(b.keys()):
            return (t, path, list(a.keys()), list(b.keys()))
        for k in a:
            r = first_diff(a[k], b[k], path + (k,), t)
            if r:
                return r
        return None
    if isinstance(a, (list, tuple)) and isinstance(b, (list, tuple)) and len(a) == len(b):
        for i, (x, y) in enumerate(zip(a, b)):
            r = first_diff(x, y, path + (i,), typ)
            if r:
                return r
        return None
    return None if approx(a, b) else (typ, path, a, b)


def strings(v):
    if isinstance(v, dict):
        for k, x in v.items():
            if not (k.startswith("__") and k.endswith("__")):
                yield from ((k, s) for _, s in strings(x))
    elif isinstance(v, (list, tuple)):
        for x in v:
            yield from strings(x)
    elif isinstance(v, str):
        yield (None, v)


LOOKS_SPECIAL = re.compile(r"^\s*(\(.*\)|\[.*\]|\{.*\}|/.*/i?|NOT\s*\(.*\)|.*['\"]i)\s*$", re.S)


def printed_bare(s):
    """values the printer writes without quotes: parenthesised expressions, NOT (...), bindings, regexes, lists"""
    t = s.strip()
    return bool((t.startswith("(") and t.endswith(")")) or (t.startswith("NOT ") and t[4:].strip().startswith("("))
                or (t.startswith("[") and t.endswith("]")) or (t.startswith("{") and t.endswith("}"))
                or (t.startswith("/") and (t.endswith("/") or t.endswith("/i"))) or t.endswith("'i") or t.endswith('"i'))


def excluded(d, quote='"'):
    """documented exclusion of C01/C03/C06: a string value (one that is written quoted) containing an
    UNESCAPED occurrence of the output quote"""
    pat = re.compile(r"(?<!\\)" + re.escape(quote))
    for k, s in strings(d):
        if printed_bare(s):
            continue
        if pat.search(s):
            return "string contains the unescaped output quote"
    return None


def keyword_schema(typ, key):
    s = docs.raw().get((typ or "") + ".json") or {}
    return (s.get("properties") or {}).get(key)


def symptom(typ, path, a, b):
    """fingerprint of a round-trip difference: call-site oriented"""
    key = next((p for p in reversed(path) if isinstance(p, str)), None)
    sch = keyword_schema(typ, key) if key else None
    if isinstance(sch, dict) and "allOf" in sch:
        kind = "string-unquoted" if isinstance(a, str) and not a.startswith("[") else "binding-quoted" if isinstance(a, (str, list)) else "other"
        if isinstance(a, str) and re.match(r"^#[0-9a-fA-F]{3,8}$", a):
            kind = "hexcolor-unquoted"
        return "allOf-wrapped-slot:" + kind
    return "%s.%s" % (typ, key)


def shrink_dict(d, fails, max_steps=400):
    """greedy minimisation of a loaded dictionary: drop keys / list items while fails(d) holds"""
    import copy
    d = copy.deepcopy(d)
    steps = [0]

    def paths(node, pre=()):
        if isinstance(node, dict):
            for k in list(node.keys()):
                if k == "__type__":
                    continue
                yield pre + (k,)
                yield from paths(node[k], pre + (k,))
        elif isinstance(node, list) and node and all(isinstance(x, dict) for x in node):
            # only lists of objects are thinned; value lists (OFFSET 2 2, POINTS ...) stay whole
            for i in range(len(node)):
                if len(node) > 1:
                    yield pre + (i,)       # the last item goes away with its key, never leaving an empty list
                yield from paths(node[i], pre + (i,))

    def delete(root, path):
        node = root
        for p in path[:-1]:
            node = node[p]
        del node[path[-1]]

    changed = True
    while changed and steps[0] < max_steps:
        changed = False
        for pth in list(paths(d)):
            steps[0] += 1
            if steps[0] >= max_steps:
                break
            cand = copy.deepcopy(d)
            try:
                delete(cand, pth)
            except Exception:
                continue
            try:
                bad = fails(cand)
            except Exception:
                bad = False
            if bad:
                d = cand
                changed = True
                break
    return d


def roundtrip_failure(d, loads, dumps):
    """None if d survives dumps -> loads, else ('rejected'|'changed'|'dumps-raises', detail)"""
    if not d:
        return None
    if isinstance(d, list) and len(d) == 1:
        d = d[0]            # a one-element root list loads back as the single dictionary
    try:
        t2 = dumps(d)
    except Exception as ex:
        return ("dumps-raises", type(ex).__name__, None)
    try:
        d2 = loads(t2)
    except Exception as ex:
        return ("rejected", type(ex).__name__, t2)
    diff = first_diff(plain_all(d), plain_all(d2))
    if diff:
        return ("changed", diff, t2)
    return None


def allof_symptom(d, typ=None):
    """the known defect class wherever it sits in the (shrunk) dictionary: a keyword whose schema is wrapped in
    allOf carrying a string - written unquoted, and for a hex colour the '#...' then reads as a comment, so that the
    visible damage lands on whatever follows"""
    found = None
    if isinstance(d, list):
        for x in d:
            found = found or allof_symptom(x, typ)
        return found
    if not isinstance(d, dict):
        return None
    typ = d.get("__type__", typ)
    for k, v in d.items():
        if k.startswith("__") and k.endswith("__"):
            continue
        if isinstance(v, (dict, list)) and not (isinstance(v, list) and (not v or not isinstance(v[0], (dict, list)))):
            r = allof_symptom(v, typ)
            if r and (found is None or r.endswith("hexcolor-unquoted")):
                found = r
            continue
        sch = keyword_schema(typ, k)
        if isinstance(sch, dict) and "allOf" in sch and isinstance(v, str):
            if re.match(r"^#[0-9a-fA-F]{3,8}$", v):
                return "allOf-wrapped-slot:hexcolor-unquoted"
            if not v.startswith("["):
                found = found or "allOf-wrapped-slot:string-unquoted"
    return found


def slot_symptom(d):
    """after shrinking: the single remaining keyword names the call site"""
    a = allof_symptom(d)
    if a and a.endswith("hexcolor-unquoted"):
        return a
    node, typ, key, val = (d[0] if isinstance(d, list) and d else d), None, None, None
    while True:
        if isinstance(node, dict):
            typ = node.get("__type__", typ)
            ks = [k for k in node.keys() if not (k.startswith("__") and k.endswith("__"))]
            if not ks:
                break
            key = ks[0]
            val = node[key]
            if isinstance(val, dict) and "__type__" in val or isinstance(val, list) and val and isinstance(val[0], dict):
                node = val[0] if isinstance(val, list) else val
                continue
            break
        break
    sch = keyword_schema(typ, key) if key else None
    if isinstance(sch, dict) and "allOf" in sch:
        if isinstance(val, str) and re.match(r"^#[0-9a-fA-F]{3,8}$", val):
            kind = "hexcolor-unquoted"
        elif isinstance(val, str):
            kind = "string-unquoted"
        else:
            kind = "list-quoted"
        return "allOf-wrapped-slot:" + kind
    return "%s.%s" % (typ, key)
