"""Schema-generated Mapfile documents with an independent renderer.

A document is a tree of Block / Item objects built from the RAW schema files
(never through mappyfile): every item knows the source tokens it is written
with ("the way MapServer writes it") and the value the documented text->dict
contract says it must have (`intended`).  `render` turns a document into text
under explicit surface choices (keyword case, separators, quote style, bare
words) and records where every keyword token starts (1-based line/column),
computed while writing, independently of any lexer."""
import json, os, glob, re
from collections import OrderedDict

REPO = os.environ.get("VERIF_REPO", "/repo")


def load_raw():
    out = {}
    for f in sorted(glob.glob(os.path.join(REPO, "mappyfile", "schemas", "*.json"))):
        out[os.path.basename(f)] = json.load(open(f, encoding="utf-8"), object_pairs_hook=OrderedDict)
    return out


RAW = None


def raw():
    global RAW
    if RAW is None:
        RAW = load_raw()
    return RAW


def res(s):
    n = 0
    while isinstance(s, dict) and isinstance(s.get("$ref"), str):
        s = raw()[s["$ref"]]
        n += 1
        assert n < 50
    return s


KV_BLOCKS = ("metadata", "validation", "values", "connectionoptions")
REPEATED = ("processing", "formatoption", "compfilter")      # INCLUDE is handled by the C15 machinery


# ---------------------------------------------------------------------------- tokens
class T:
    """source token: kind in kw (keyword, case free), enum (bare enumerated word), qstr (quoted
    string, text = content), num, raw (verbatim)"""
    __slots__ = ("kind", "text", "is_key")

    def __init__(self, kind, text, is_key=False):
        self.kind = kind
        self.text = text
        self.is_key = is_key

    def __repr__(self):
        return "T(%s,%r)" % (self.kind, self.text)


class Item:
    """one keyword line (or KEY ... END group) of a block"""

    def __init__(self, key, tokens, intended, shape, repeated=False, kind="attr"):
        self.key = key              # lower-case dict key
        self.tokens = tokens        # first token is the keyword
        self.intended = intended
        self.shape = shape          # name of the value alternative
        self.repeated = repeated
        self.kind = kind            # attr | kv | points | pattern | projection | config


class Block:
    def __init__(self, type_, items, singleton):
        self.type = type_
        self.items = items          # Item or Block, in source order
        self.singleton = singleton


def plural(s):
    return s + "es" if s.endswith("s") else s + "s"


# ---------------------------------------------------------------------------- value alternatives
def num_samples(s, integer):
    lo, hi = s.get("minimum"), s.get("maximum")
    vals = []
    if integer:
        base = 3 if lo is None else int(lo) + 1
        if hi is not None and base > hi:
            base = int(hi)
        vals = [base]
        if lo is not None:
            vals.append(int(lo))
        if hi is not None:
            vals.append(int(hi))
    else:
        base = 2.5 if lo is None else float(lo) + 0.5
        if hi is not None and base > hi:
            base = float(hi)
        vals = [base, int(base) if lo is None or int(base) >= lo else int(lo) + 1]
        if lo is not None:
            vals.append(lo)
        if hi is not None:
            vals.append(hi)
    return vals


def numtok(v):
    return T("num", repr(v) if isinstance(v, float) else str(v))


def flatten_alts(s, key):
    """schema of one keyword -> list of (shape name, tokens-without-keyword, intended)."""
    s = res(s)
    out = []
    if not isinstance(s, dict):
        return out
    for comb in ("oneOf", "anyOf", "allOf"):
        if comb in s:
            for sub in s[comb]:
                out += flatten_alts(sub, key)
            return out
    if "enum" in s:
        for e in s["enum"]:
            if isinstance(e, str) and e.lower() == "end":
                out.append(("enum:end", [T("qstr", e)], e))        # END is the block terminator: written quoted
            elif isinstance(e, str):
                out.append(("enum:" + e, [T("enum", e.upper())], e.upper()))
            elif isinstance(e, bool):
                out.append(("enum:" + str(e), [T("kw", "TRUE" if e else "FALSE")], e))
            else:
                out.append(("enum:" + str(e), [numtok(e)], e))
        return out
    t = s.get("type")
    if t == "string":
        pat = s.get("pattern")
        if pat == "^\\[(.*?)\\]$":
            out.append(("attribute", [T("raw", "[attr_1]")], "[attr_1]"))
        elif pat == "^\\((.*?)\\)$":
            out.append(("expression", [T("raw", '([a] = 1)')], "( [a] = 1 )"))
            out.append(("expression-and", [T("raw", "([a] >= 2 AND [b] < 3)")], "( ( [a] >= 2 ) AND ( [b] < 3 ) )"))
            out.append(("expression-str", [T("raw", '([name] = "foo)" OR [name] = \'(x\')')], '( ( [name] = "foo)" ) OR ( [name] = \'(x\' ) )'))
            out.append(("expression-str2", [T("raw", '([name] = "foo)")')], '( [name] = "foo)" )'))
        elif pat == "^/(.*?)/$":
            out.append(("regex", [T("raw", "/^ab c$/")], "/^ab c$/"))
        elif pat and "a-fA-F0-9" in pat:
            out.append(("hexcolor", [T("raw", '"#FF00aa"')], "#ff00aa"))
            out.append(("hexcolor-alpha", [T("raw", '"#FF00aa80"')], "#ff00aa80"))
        elif pat == "^&#[0-9]+;$":
            out.append(("character-ref", [T("qstr", "&#65;")], "&#65;"))
        elif pat in ("^ellipse$", "^rectangle$"):
            w = pat.strip("^$")
            out.append(("pattern:" + w, [T("qstr", w)], w))
        elif pat:
            out.append(("string-pattern?", None, None))     # unknown pattern: reported by C19
        elif s.get("maxLength"):
            w = ("w_%s value" % key)[:s["maxLength"]]
            out.append(("string", [T("qstr", w)], w))
        else:
            out.append(("string", [T("qstr", "w_%s value" % key)], "w_%s value" % key))
            out.append(("string-bare", [T("qstr", "w_%s" % key)], "w_%s" % key))
        return out
    if t in ("number", "integer"):
        for v in num_samples(s, t == "integer"):
            out.append(("%s:%r" % (t, v), [numtok(v)], v))
        return out
    if t == "boolean":
        out.append(("bool:true", [T("kw", "TRUE")], True))
        out.append(("bool:false", [T("kw", "FALSE")], False))
        return out
    if t == "array":
        it = s.get("items")
        if isinstance(it, list):            # tuple typing
            toks, vals = [], []
            for sub in it:
                a = flatten_alts(sub, key)
                if not a or a[0][1] is None:
                    return [("tuple?", None, None)]
                toks += a[0][1]
                vals.append(a[0][2])
            # a declared tuple of fewer items than the keyword takes is completed with the last one
            n = max(len(it), s.get("minItems") or 0, 2 if key in ("anchorpoint", "shadowsize") else 0)
            while len(vals) < n:
                toks += a[0][1]
                vals.append(a[0][2])
            out.append(("tuple%d" % n, toks, vals))
            return out
        it = res(it) if it else {}
        n = s.get("minItems") or s.get("maxItems")
        if it.get("type") == "object" or "properties" in it:
            return [("objects", "OBJECTS", None)]
        if it.get("type") == "array" or (isinstance(it, dict) and res(it).get("type") == "array"):
            return [("pairs", "PAIRS", None)]
        if n is None:
            if it.get("type") == "string":
                return [("strings", "STRINGS", None)]
            n = 2
        if it.get("minimum") == -1 and it.get("maximum") == 255 and n == 3:
            return [("rgb", [numtok(255), numtok(0), numtok(128)], [255, 0, 128]),
                    ("rgb-none", [numtok(-1), numtok(-1), numtok(-1)], [-1, -1, -1])]
        if key == "colorrange" and it.get("type") == "string":
            return [("hexcolorrange", [T("raw", '"#0000FF"'), T("raw", '"#ff0000"')], ["#0000ff", "#ff0000"])]
        subs = flatten_alts(it, key)
        subs = [a for a in subs if a[1] is not None]
        if not subs:
            return [("array?", None, None)]
        for a in subs[:2]:
            toks, vals = [], []
            for i in range(n):
                toks += [T(x.kind, x.text) for x in a[1]]
                vals.append(a[2])
            out.append(("array%d:%s" % (n, a[0]), toks, vals))
        if len(subs) > 1 and n == 2:
            out.append(("array2:mixed", [T(x.kind, x.text) for x in subs[0][1]] + [T(x.kind, x.text) for x in subs[1][1]],
                        [subs[0][2], subs[1][2]]))
        return out
    if t == "object" or "properties" in s:
        return [("object", "OBJECT", None)]
    return [("unknown?", None, None)]


def kw(text, is_key=True):
    return T("kw", text.upper(), is_key)


def make_items(objtype, key, schema, rng=None, pick=None):
    """all ways to write keyword `key` of object type `objtype`: list of Item (simple values only)."""
    items = []
    if key.startswith("__") or key == "include":
        return items
    s = res(schema)
    if key in KV_BLOCKS:
        toks = [kw(key), T("qstr", "k_one"), T("qstr", "v 1"), T("qstr", "K_Two"), T("qstr", "v2"), kw("END", False)]
        items.append(Item(key, toks, ("kv", [("k_one", "v 1"), ("k_two", "v2")]), "kv", kind="kv"))
        return items
    if key == "projection":
        items.append(Item(key, [kw(key), T("qstr", "init=epsg:4326"), kw("END", False)], ["init=epsg:4326"], "projection-1", kind="projection"))
        items.append(Item(key, [kw(key), T("qstr", "proj=utm"), T("qstr", "zone=15"), T("qstr", "datum=WGS84"), kw("END", False)],
                          ["proj=utm", "zone=15", "datum=WGS84"], "projection-3", kind="projection"))
        items.append(Item(key, [kw(key), T("enum", "AUTO"), kw("END", False)], ["AUTO"], "projection-auto", kind="projection"))
        return items
    if key == "config":
        items.append(Item(key, [kw(key), T("qstr", "MS_ERRORFILE"), T("qstr", "stderr")], ("config", [("ms_errorfile", "stderr")]), "config", kind="config"))
        return items
    if key == "points":
        items.append(Item(key, [kw(key), numtok(1), numtok(2), numtok(3.5), numtok(4), numtok(5), numtok(6), kw("END", False)],
                          [[1, 2], [3.5, 4], [5, 6]], "points-3", kind="points"))
        return items
    if key == "pattern":
        items.append(Item(key, [kw(key), numtok(5), numtok(5), numtok(2.5), numtok(1), kw("END", False)], [[5, 5], [2.5, 1]], "pattern-2", kind="pattern"))
        return items
    for shape, toks, val in flatten_alts(s, key):
        if toks is None:
            items.append(Item(key, None, None, shape))
        elif toks == "STRINGS":
            if key in REPEATED:
                it = Item(key, [kw(key), T("qstr", "A=1")], ["A=1"], "repeated-1", repeated=True)
                items.append(it)
                it2 = Item(key, [kw(key), T("qstr", "A=1"), kw(key), T("qstr", "B=2 x")], ["A=1", "B=2 x"], "repeated-2", repeated=True)
                items.append(it2)
        elif toks in ("OBJECTS", "OBJECT", "PAIRS"):
            continue
        else:
            items.append(Item(key, [kw(key)] + toks, val, shape))
    return items


def children_of(objtype):
    """(key, child type, singleton?) for block-valued properties of objtype."""
    s = raw().get(objtype + ".json")
    out = []
    if not s:
        return out
    for k, v in s.get("properties", {}).items():
        if k.startswith("__") or k in KV_BLOCKS:
            continue
        r = res(v)
        cands = [r]
        for comb in ("oneOf", "anyOf", "allOf"):
            if comb in r:
                cands = [res(x) for x in r[comb]]
        for c in cands:
            if not isinstance(c, dict):
                continue
            if c.get("type") == "array" and isinstance(c.get("items"), dict):
                it = res(c["items"])
                ty = (it.get("properties", {}).get("__type__", {}).get("enum") or [None])[0]
                if ty:
                    out.append((k, ty, False))
            elif "properties" in c and "__type__" in c["properties"]:
                ty = (c["properties"]["__type__"].get("enum") or [None])[0]
                if ty and ty not in KV_BLOCKS:
                    out.append((k, ty, True))
    return out


def object_types():
    return sorted(n[:-5] for n, s in raw().items()
                  if isinstance(s, dict) and "properties" in s and "__type__" in s["properties"] and n[:-5] not in KV_BLOCKS)


# ---------------------------------------------------------------------------- intended value
def intended_block(b):
    d = OrderedDict()
    d["__type__"] = b.type
    for it in b.items:
        if isinstance(it, Block):
            if it.singleton:
                d[it.type] = intended_block(it)
            else:
                d.setdefault(plural(it.type), []).append(intended_block(it))
        elif it.kind == "kv":
            kv = OrderedDict()
            for k, v in it.intended[1]:
                kv[k] = v
            kv["__type__"] = it.key
            d[it.key] = kv
        elif it.kind == "config":
            cfg = d.get("config") or OrderedDict()
            for k, v in it.intended[1]:
                cfg[k] = v
            d["config"] = cfg
        elif it.kind == "points":
            if "points" not in d:
                d["points"] = it.intended
            else:
                cur = d["points"]
                if cur and not isinstance(cur[0][0], list):
                    cur = [cur]
                d["points"] = cur + [it.intended]
        elif it.repeated:
            d[it.key] = d.get(it.key, []) + list(it.intended)
        else:
            d[it.key] = it.intended
    return d


def plain(v):
    """real loads() result -> plain nested lists/dicts (tuples -> lists), hidden keys except __type__ dropped"""
    if isinstance(v, dict):
        return OrderedDict((k, plain(x)) for k, x in v.items() if not (k.startswith("__") and k != "__type__"))
    if isinstance(v, (list, tuple)):
        return [plain(x) for x in v]
    return v


# ---------------------------------------------------------------------------- renderer
class Layout:
    """surface choices; every random decision comes from rng"""

    def __init__(self, rng=None, case="upper", sep="space", quote='"', one_per_line=True, indent=2,
                 newline="\n", comments=False, bare_words=False, alt_quote_prob=0.0):
        self.rng = rng
        self.case = case            # upper | lower | mixed
        self.sep = sep              # space | wild
        self.quote = quote
        self.one_per_line = one_per_line
        self.indent = indent
        self.newline = newline
        self.comments = comments
        self.bare_words = bare_words
        self.alt_quote_prob = alt_quote_prob


# comment bodies: the plain form most of the time, plus bodies holding the characters that delimit other tokens
HASH_COMMENTS = ["# c%d"] * 6 + ["#c%d", "## c%d ##", "# \"q\" 'x' c%d", "# END LAYER c%d", "# /* c%d */", "#\tc%d /", "# c%d * 2"]
C_COMMENTS = ["/* cc%d */"] * 6 + ["/*cc%d*/", "/** cc%d **/", "/* a * b cc%d */", "/* # cc%d */", "/* \"q\" cc%d */", "/* 1/2 cc%d */",
                                  "/*** cc%d ***/", "/* END cc%d */"]

BARE_OK = re.compile(r"^w_[a-z0-9_]+$")


class Writer:
    def __init__(self, lay):
        self.lay = lay
        self.out = []
        self.line = 1
        self.col = 1
        self.key_positions = []     # (keyword text upper, line, col) in source order
        self.comments = []          # (line, text) of comments written

    def emit(self, s):
        self.out.append(s)
        for ch in s:
            if ch == "\n":
                self.line += 1
                self.col = 1
            else:
                self.col += 1

    def cased(self, text):
        lay = self.lay
        if lay.case == "upper":
            return text.upper()
        if lay.case == "lower":
            return text.lower()
        return "".join(c.upper() if lay.rng.random() < 0.5 else c.lower() for c in text)

    def sep(self, newline_wanted):
        lay = self.lay
        if lay.sep == "space" or lay.rng is None:
            self.emit(lay.newline if newline_wanted else " ")
            return
        r = lay.rng
        n = r.randrange(1, 4)
        for _ in range(n):
            k = r.randrange(0, 10)
            if k < 4:
                self.emit(" ")
            elif k == 4:
                self.emit("\t")
            elif k == 5:
                self.emit("\x0c")
            elif k == 6:
                self.emit("\r\n" if r.random() < 0.5 else "\n")
            elif k == 7 and lay.comments:
                txt = r.choice(HASH_COMMENTS) % len(self.comments)
                self.emit(" ")
                self.comments.append((self.line, txt))
                self.emit(txt + "\n")
            elif k == 8 and lay.comments:
                txt = r.choice(C_COMMENTS) % len(self.comments)
                self.emit(" ")
                self.comments.append((self.line, txt))
                self.emit(txt + " ")
            else:
                self.emit(" ")
        if newline_wanted and not self.out[-1].endswith("\n"):
            self.emit(lay.newline)

    def token(self, t, item=None):
        lay = self.lay
        if item is not None:
            if t.is_key:
                item.key_pos.append((self.line, self.col))
            else:
                item.val_pos.append((t.kind, self.line, self.col))
        if t.kind == "kw":
            if t.is_key:
                self.key_positions.append((t.text.upper(), self.line, self.col))
            self.emit(self.cased(t.text))
        elif t.kind == "enum":
            self.emit(t.text)
        elif t.kind == "qstr":
            # (a bare word after a SYMBOL keyword not written in upper case is C05's known finding: kept out of
            # the other checks' documents, exercised by C05 itself)
            after_symbol = item is not None and item.key == "symbol" and lay.case != "upper" and not getattr(lay, "allow_symbol_case", False)
            if lay.bare_words and BARE_OK.match(t.text) and not after_symbol:
                self.emit(t.text)
            else:
                q = lay.quote
                if lay.rng is not None and lay.alt_quote_prob and lay.rng.random() < lay.alt_quote_prob:
                    q = "'" if q == '"' else '"'
                if q in t.text:
                    q = "'" if q == '"' else '"'
                self.emit(q + t.text + q)
        else:
            self.emit(t.text)


def render_block(w, b, depth):
    lay = w.lay
    ind = " " * (lay.indent * depth)
    if lay.one_per_line:
        w.emit(ind)
    w.key_positions.append((b.type.upper(), w.line, w.col))
    b.pos = (w.line, w.col)
    w.emit(w.cased(b.type))
    w.sep(lay.one_per_line)
    for it in b.items:
        if isinstance(it, Block):
            render_block(w, it, depth + 1)
        else:
            if lay.one_per_line:
                w.emit(" " * (lay.indent * (depth + 1)))
            it.key_pos = []
            it.val_pos = []
            for i, t in enumerate(it.tokens):
                w.token(t, it)
                last = i == len(it.tokens) - 1
                w.sep(last and lay.one_per_line)
    if lay.one_per_line:
        w.emit(ind)
    w.emit(w.cased("END"))
    w.sep(lay.one_per_line)


def render(doc, lay):
    """doc: Block or list of Blocks -> (text, key positions, comments)"""
    w = Writer(lay)
    for b in (doc if isinstance(doc, list) else [doc]):
        render_block(w, b, 0)
    return "".join(w.out), w.key_positions, w.comments


# ---------------------------------------------------------------------------- document generation
_SLOT_CACHE = {}


def slot_items(objtype):
    """every Item of every simple keyword of objtype (cached)"""
    if objtype not in _SLOT_CACHE:
        s = raw()[objtype + ".json"]
        items = []
        for k, v in s.get("properties", {}).items():
            items += [it for it in make_items(objtype, k, v) if it.tokens is not None]
        _SLOT_CACHE[objtype] = items
    return _SLOT_CACHE[objtype]


def mini_doc(objtype, item, position="only", filler=None):
    """a one-block document of objtype carrying `item` first / in the middle / last"""
    fill = filler or []
    if position == "first":
        items = [item] + fill
    elif position == "last":
        items = fill + [item]
    elif position == "middle":
        items = fill[:1] + [item] + fill[1:]
    else:
        items = [item]
    return Block(objtype, items, False)


def gen_doc(rng, usable, root="map", depth=0, max_depth=4, width=6, child_ok=None):
    """random document: `usable` maps objtype -> list of Items known to parse (from the C19 sweep)"""
    pool = usable.get(root, [])
    seen = set()
    items = []
    for it in rng.sample(pool, min(len(pool), rng.randrange(1, width + 1))):
        if it.key in seen:
            continue
        seen.add(it.key)
        items.append(it)
    if depth < max_depth:
        kids = [c for c in children_of(root) if c[1] in usable and (child_ok is None or (root, c[1]) in child_ok)]
        rng.shuffle(kids)
        for key, ty, singleton in kids[:rng.randrange(0, 4)]:
            if ty == root and depth > 1:
                continue
            n = 1 if singleton else rng.randrange(1, 3)
            for _ in range(n):
                child = gen_doc(rng, usable, ty, depth + 1, max_depth, width, child_ok)
                child.singleton = singleton
                items.insert(rng.randrange(0, len(items) + 1), child)
    return Block(root, items, False)
