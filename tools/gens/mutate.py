"""Malformed-input stream: token-level mutations, token soups, unterminated
constructs, long repetitive inputs (every choice from the given rng)."""
import re

TOKEN_RE = re.compile(r'"(?:\\"|[^"])*"|\'(?:\\\'|[^\'])*\'|#[^\n]*|/\*.*?\*/|[A-Za-z0-9_\-:.]+|\s+|.', re.S)

VOCAB = ["MAP", "LAYER", "CLASS", "STYLE", "LABEL", "END", "NAME", "TYPE", "POLYGON", "STATUS", "ON", "OFF", "COLOR", "EXPRESSION",
         "FILTER", "METADATA", "PROJECTION", "POINTS", "PATTERN", "SYMBOL", "GRID", "CONFIG", "VALIDATION", "FEATURE", "WEB", "AUTO",
         "TRUE", "FALSE", "NOT", "AND", "OR", "IN", "EQ", "(", ")", "[", "]", "{", "}", ",", "=", "==", "!=", "<", ">", "<=", ">=", "~", "~*",
         "+", "-", "*", "/", "^", "%", "!", "&&", "||", "1", "2.5", "-3", "1e3", '"str"', "'str'", '"#ff0000"', "[attr]", "/re/", "`x`",
         "foo", "a_b", "x-y", "a:b", "./p/a.th", "%var%", "\n", "\t", " ", "\r\n", "# c\n", "/* c */"]


def tokens(text):
    return TOKEN_RE.findall(text)


def no_include(text):
    """C11's quantifier leaves INCLUDE handling to C15: neutralise lines that start with 'include'"""
    return "\n".join(("x" + l) if l.strip().lower().startswith("include") else l for l in text.split("\n"))


def mutate(rng, text, other=None):
    toks = tokens(text)
    if not toks:
        return text
    k = rng.randrange(0, 7)
    i = rng.randrange(len(toks))
    if k == 0:
        del toks[i]
    elif k == 1:
        toks.insert(i, toks[i])
    elif k == 2 and len(toks) > 1:
        j = min(i + 1, len(toks) - 1)
        toks[i], toks[j] = toks[j], toks[i]
    elif k == 3:
        toks = toks[:i]
    elif k == 4 and other:
        o = tokens(other)
        a = rng.randrange(len(o)) if o else 0
        toks[i:i] = o[a:a + rng.randrange(1, 8)]
    elif k == 5:
        toks[i] = rng.choice(VOCAB)
    else:
        toks.insert(i, rng.choice(['"', "'", "/", "/*", "`", "(", ")", "[", "{", "END", "\\", "%"]))
    return no_include("".join(toks))


def soup(rng, n):
    return no_include(" ".join(rng.choice(VOCAB) for _ in range(n)))


def unterminated(rng):
    body = rng.choice(["abc def", "a\nb", "", "x " * 20])
    return rng.choice(['MAP NAME "%s END', "MAP NAME '%s END", "CLASS EXPRESSION /%s END", "MAP /* %s END", "CLASS EXPRESSION (%s END",
                       "LAYER DATA `%s END", "CLASS EXPRESSION {%s END", "STYLE SIZE [%s END", "MAP CONFIG %s", "LAYER FILTER (%s"]) % body


VALID_UNITS = ["LAYER NAME 'x' TYPE POINT END\n", "LAYER CLASS STYLE COLOR 1 2 3 END END END\n", "NAME 'abc'\n", "# comment line\n",
               "  \t \n", "CONFIG 'A' 'B'\n", "SYMBOL POINTS 1 2 3 4 END END\n", "/* c */ ", "STATUS ON ", "LAYER FILTER ([a] = 1 AND [b] > 2) END\n"]


def repetitive(rng, n_chars, unit=None, valid=True):
    """a long MAP made of one repeated unit; valid documents parse completely, the invalid
    variant fails only at its very end"""
    unit = unit or rng.choice(VALID_UNITS)
    body = unit * max(1, n_chars // len(unit))
    return "MAP\n" + body + ("END\n" if valid else "END END")


def nested(rng, depth):
    k = rng.randrange(0, 4)
    if k == 0:
        return "CLASS EXPRESSION " + "(" * depth + "[a] = 1" + ")" * depth + " END"
    if k == 1:
        return "CLASS EXPRESSION (" + " AND ".join("[a%d] = %d" % (i, i) for i in range(depth)) + ") END"
    if k == 2:
        return "CLASS EXPRESSION ([a] = " + " + ".join(str(i) for i in range(depth)) + ") END"
    return "MAP " + "LAYER CLASS STYLE " * (depth // 3) + "END END END " * (depth // 3) + "END"
