"""Shared pieces of the parser-side checks: document cases, model/implementation
loads, comparison of canonical values."""
import copy, os, glob
from decimal import Decimal
from checklib import codec, parsing
from checklib.model import run_model
from gens import docs, sweep

REPO = os.environ.get("VERIF_REPO", "/repo")


def corpus_files():
    fs = sorted(glob.glob(os.path.join(REPO, "tests", "**", "*.map"), recursive=True)
                + glob.glob(os.path.join(REPO, "docs", "**", "*.map"), recursive=True))
    out = []
    for f in fs:
        try:
            out.append((f, open(f, encoding="utf-8").read()))
        except Exception:
            pass
    return out


def same_canon(a, b):
    """equality of codec.canon values; floats compared as doubles (the model's
    decimals are exact, CPython rounds to the nearest double)"""
    if isinstance(a, tuple) and isinstance(b, tuple) and a and b and a[0] == "float" and b[0] == "float":
        return a == b or float(Decimal(a[1]).scaleb(a[2])) == float(Decimal(b[1]).scaleb(b[2]))
    if isinstance(a, (list, tuple)) and isinstance(b, (list, tuple)):
        return type(a) is type(b) and len(a) == len(b) and all(same_canon(x, y) for x, y in zip(a, b))
    return a == b and type(a) is type(b)


def impl_loads(text, ip=False, ic=False, fast=True):
    """real loads -> canonical value or exception tuple"""
    try:
        if fast:
            d = sweep.fast_loads(text, ip, ic)
        else:
            import mappyfile
            d = mappyfile.loads(text, expand_includes=False, include_position=ip, include_comments=ic)
        return codec.canon(d)
    except Exception as ex:  # noqa
        return parsing.exn_canon(ex)


def model_loads(cases):
    """cases: [(text, ip, ic)] -> canonical values / exception tuples from the extracted model"""
    outs = run_model("parser", [(2, [int(ip), int(ic)] + codec.enc_str(t)) for t, ip, ic in cases])
    res = []
    for o in outs:
        rd = codec.Reader(o)
        st = rd.z()
        res.append(rd.value() if st == 0 else ("exn", rd.z(), rd.z(), rd.z()))
    return res


def clone_doc(b):
    nb = docs.Block(b.type, [], b.singleton)
    for it in b.items:
        nb.items.append(clone_doc(it) if isinstance(it, docs.Block) else copy.copy(it))
    return nb


def random_layout(rng, comments=True):
    return docs.Layout(rng=rng, case=rng.choice(["upper", "lower", "mixed"]), sep=rng.choice(["space", "wild", "wild"]),
                       quote=rng.choice(['"', "'"]), one_per_line=rng.random() < 0.5, indent=rng.randrange(0, 5),
                       newline=rng.choice(["\n", "\r\n"]), comments=comments and rng.random() < 0.6,
                       bare_words=rng.random() < 0.3, alt_quote_prob=0.3)


STRING_POOL = [" padded ", "tab\tinside", "a#b", "\u00fcn\u00efc\u00f6de \u4e2d\u6587", "with 'apos'", 'with "dq"', "multi\nline", "  ", "semi;colon", "100% sure",
               "back\\slash mid", "UPPER lower", "trailing space ", " leading", "\U0001F600 astral", "a/b/c.shp", "x=1 y=2", "END", "end of story", "#notcomment"]


def vary_strings(b, rng, prob=0.3):
    """replace some free-string values by awkward ones (intended value = the same text)"""
    for it in b.items:
        if isinstance(it, docs.Block):
            vary_strings(it, rng, prob)
        elif it.shape == "string" and it.kind == "attr" and not it.repeated and len(it.tokens) == 2 and rng.random() < prob:
            w = rng.choice(STRING_POOL)
            it.tokens = [it.tokens[0], docs.T("qstr", w)]
            it.intended = w


def gen_documents(rng, n, max_depth=3, roots=None, vary=True):
    usable = sweep.usable_slots()
    child_ok = sweep.usable_children()
    roots = roots or ["map", "map", "layer", "class", "style", "label", "web", "legend", "scalebar", "symbol", "outputformat"]
    out = []
    for _ in range(n):
        root = rng.choice(roots)
        if rng.random() < 0.15:
            k = rng.randrange(2, 4)
            d = [clone_doc(docs.gen_doc(rng, usable, root, 0, max_depth, 6, child_ok)) for _ in range(k)]
        else:
            d = clone_doc(docs.gen_doc(rng, usable, root, 0, max_depth, 6, child_ok))
        if vary:
            for b in (d if isinstance(d, list) else [d]):
                vary_strings(b, rng)
        out.append(d)
    return out
