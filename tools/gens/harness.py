"""Shared pieces of the parser-side checks: document cases, model/implementation
loads, comparison of canonical values."""
import copy, os, glob
from decimal import Decimal
from checklib import codec, parsing
from checklib.model import run_model
from gens import docs, sweep

REPO = os.environ.get("VERIF_REPO", "/repo")


def corpus_files():
    fs = sorted(glob.glob(os.path.join(REPO, "tests", "**", "*.map"), recursive=True)
                + glob.glob(os.path.join(REPO, "docs", "**", "*.map"), recursive=True))
    out = []
    for f in fs:
        try:
            out.append((f, open(f, encoding="utf-8").read()))
        except Exception:
            pass
    return out


def same_canon(a, b):
    """equality of codec.canon values; floats compared as doubles (the model's
    decimals are exact, CPython rounds to the nearest double)"""
    if isinstance(a, tuple) and isinstance(b, tuple) and a and b and a[0] == "float" and b[0] == "float":
        return a == b or float(Decimal(a[1]).scaleb(a[2])) == float(Decimal(b[1]).scaleb(b[2]))
    if isinstance(a, (list, tuple)) and isinstance(b, (list, tuple)):
        return type(a) is type(b) and len(a) == len(b) and all(same_canon(x, y) for x, y in zip(a, b))
    return a == b and type(a) is type(b)


def impl_loads(text, ip=False, ic=False, fast=True):
    """real loads -> canonical value or exception tuple"""
    try:
        if fast:
            d = sweep.fast_loads(text, ip, ic)
        else:
            import mappyfile
            d = mappyfile.loads(text, expand_includes=False, include_position=ip, include_comments=ic)
        return codec.canon(d)
    except Exception as ex:  # noqa
        return parsing.exn_canon(ex)


def model_loads(cases):
    """cases: [(text, ip, ic)] -> canonical values / exception tuples from the extracted model"""
    outs = run_model("parser", [(2, [int(ip), int(ic)] + codec.enc_str(t)) for t, ip, ic in cases])
    res = []
    for o in outs:
        rd = codec.Reader(o)
        st = rd.z()
        res.append(rd.value() if st == 0 else ("exn", rd.z(), rd.z(), rd.z()))
    return res


def clone_doc(b):
    nb = docs.Block(b.type, [], b.singleton)
    for it in b.items:
        nb.items.append(clone_doc(it) if isinstance(it, docs.Block) else copy.copy(it))
    return nb


def random_layout(rng, comments=True):
    return docs.Layout(rng=rng, case=rng.choice(["upper", "lower", "mixed"]), sep=rng.choice(["space", "wild", "wild"]),
                       quote=rng.choice(['"', "'"]), one_per_line=rng.random() < 0.5, indent=rng.randrange(0, 5),
                       newline=rng.choice(["\n", "\r\n"]), comments=comments and rng.random() < 0.6,
                       bare_words=rng.random() < 0.3, alt_quote_prob=0.3)


STRING_POOL = [" padded ", "tab\tinside", "a#b", "\u00fcn\u00efc\u00f6de \u4e2d\u6587", "with 'apos'", 'with "dq"', "multi\nline", "  ", "semi;colon", "100% sure",
               "back\\slash mid", "UPPER lower", "trailing space ", " leading", "\U0001F600 astral", "a/b/c.shp", "x=1 y=2", "END", "end of story", "#notcomment",
               'Say \\"hello\\"', 'a \\"q\\" b', "it\\'s", 'ends with quote\\"', "(not an expression", "50% [approx]",
               # strings that look like numbers (the same keyword may also carry the number itself), strings wrapped in the
               # other quote character
               "2", "10", "2.5", "007", "1e3", "'single wrapped'", "'x'",
               # line separators other than LF inside a value
               "cr\r\nlf", "ls\u2028sep", "ff\x0cfeed", "nel\x85x"]
# values for key-value blocks, CONFIG, repeated string keywords and PROJECTION lines (no line breaks: PROJECTION
# strings and CONFIG values are single-line by nature)
KV_POOL = ["plain", " padded ", "a#b", "with 'apos'", "'single wrapped'", "'x'", "2", "2.0", "10", "UPPER lower", "x=1 y=2", "\u00fcn\u00efc\u00f6de \u4e2d\u6587",
           "semi;colon", "a/b/c.shp", "100% sure", "END", "#notcomment", "[br]acket", "(paren"]


def vary_strings(b, rng, prob=0.3):
    """replace some free-string values by awkward ones (intended value = the same text)"""
    for it in b.items:
        if isinstance(it, docs.Block):
            vary_strings(it, rng, prob)
        elif it.shape == "string" and it.kind == "attr" and not it.repeated and len(it.tokens) == 2 and rng.random() < prob:
            w = rng.choice(STRING_POOL)
            it.tokens = [it.tokens[0], docs.T("qstr", w)]
            it.intended = w
        elif it.kind == "kv" and it.shape == "kv" and rng.random() < prob:
            # METADATA / VALIDATION / VALUES / CONNECTIONOPTIONS: awkward values (keys stay plain: they are lower-cased)
            pairs = [(k, rng.choice(KV_POOL)) for k, _ in it.intended[1]]
            toks = [it.tokens[0]]
            for k, v in pairs:
                toks += [docs.T("qstr", k), docs.T("qstr", v)]
            it.tokens = toks + [it.tokens[-1]]
            it.intended = ("kv", pairs)
        elif it.kind == "attr" and it.repeated and it.shape in ("repeated-1", "repeated-2") and rng.random() < prob:
            vals = [rng.choice(KV_POOL) for _ in it.intended]
            toks = []
            for v in vals:
                toks += [it.tokens[0], docs.T("qstr", v)]
            it.tokens = toks
            it.intended = vals


def vary_numbers(b, rng, prob=0.25):
    """spell some integral numbers of float-capable slots as floats (2 -> 2.0; the intended value becomes the float):
    one document then carries equal numbers of both types"""
    for it in b.items:
        if isinstance(it, docs.Block):
            vary_numbers(it, rng, prob)
        elif it.kind == "attr" and not it.repeated and it.shape.startswith("number") and len(it.tokens) == 2 \
                and it.tokens[1].kind == "num" and isinstance(it.intended, int) and not isinstance(it.intended, bool) and rng.random() < prob:
            if rng.random() < 0.35:
                # large / small magnitudes and exponent spellings (repr writes them back as 1e+16, 1e-05)
                sp = rng.choice(["1e16", "2.5e20", "1E-5", "1.5e+3", "25000000000000000.0", "-3e17"])
                it.tokens = [it.tokens[0], docs.T("num", sp)]
                it.intended = float(sp)
            else:
                it.tokens = [it.tokens[0], docs.T("num", "%d.0" % it.intended)]
                it.intended = float(it.intended)


def add_contract_cases(doc, rng):
    """inject the contract's special cases into a generated block"""
    usable = sweep.usable_slots()
    pool = usable.get(doc.type, [])
    simple = [it for it in doc.items if isinstance(it, docs.Item) and it.kind in ("attr", "pattern", "projection", "kv") and not it.repeated]
    if simple and rng.random() < 0.6:
        it = rng.choice(simple)
        alts = [a for a in pool if a.key == it.key and a.kind == it.kind and (a.shape != it.shape or it.kind in ("pattern", "kv"))]
        if alts:
            dup = copy.copy(rng.choice(alts))
            if dup.kind == "pattern":                              # a second PATTERN with other pairs: the last one wins, flat
                dup.tokens = [docs.kw("pattern"), docs.numtok(9), docs.numtok(8), docs.kw("END", False)]
                dup.intended = [[9, 8]]
            doc.items.append(dup)                                  # duplicate keyword / block: last value wins
    if doc.type == "feature" and rng.random() < 0.7:
        pts = [it for it in pool if it.kind == "points"]
        if pts:
            doc.items.append(copy.copy(pts[0]))
            doc.items.append(copy.copy(pts[0]))                    # POINTS repeated: one level deeper
    if doc.type in ("map", "layer", "class", "web") and rng.random() < 0.4:
        toks = [docs.kw("metadata"), docs.T("qstr", "Dup"), docs.T("qstr", "1"), docs.T("qstr", "dup"), docs.T("qstr", "2"),
                docs.T("qstr", "w_other"), docs.T("qstr", "v"), docs.kw("END", False)]
        doc.items.append(docs.Item("metadata", toks, ("kv", [("dup", "2"), ("w_other", "v")]), "kv-dup", kind="kv"))
    if doc.type == "map" and rng.random() < 0.4:
        for k, v in (("MS_ERRORFILE", "stderr"), ("PROJ_LIB", "/p"), ("ms_errorfile", "last")):
            doc.items.append(docs.Item("config", [docs.kw("config"), docs.T("qstr", k), docs.T("qstr", v)], ("config", [(k.lower(), v)]), "config", kind="config"))
    for it in doc.items:
        if isinstance(it, docs.Block):
            add_contract_cases(it, rng)



def gen_documents(rng, n, max_depth=3, roots=None, vary=True, contract=False, pool="usable"):
    usable = sweep.usable_slots() if pool == "usable" else sweep.parseable_slots()
    child_ok = sweep.usable_children()
    roots = roots or ["map", "map", "layer", "class", "style", "label", "web", "legend", "scalebar", "symbol", "outputformat"]
    out = []
    for _ in range(n):
        root = rng.choice(roots)
        if rng.random() < 0.15:
            k = rng.randrange(2, 4)
            d = [clone_doc(docs.gen_doc(rng, usable, root, 0, max_depth, 6, child_ok)) for _ in range(k)]
        else:
            d = clone_doc(docs.gen_doc(rng, usable, root, 0, max_depth, 6, child_ok))
        if vary:
            for b in (d if isinstance(d, list) else [d]):
                vary_strings(b, rng)
                vary_numbers(b, rng)
        if contract:
            for b in (d if isinstance(d, list) else [d]):
                add_contract_cases(b, rng)
        out.append(d)
    return out
