"""Slot sweep through the REAL public API: which (object type, keyword, value
alternative) mini-documents load to their intended structure, print, re-load and
validate.  Used by C19 (as its hunter) and by every generator (to stay inside
the vocabulary that works, so that one slot defect is reported once, by C19)."""
from collections import OrderedDict
from gens import docs


_workers = {}


def fast_loads(text, include_position=False, include_comments=False):
    """loads through cached worker objects (mappyfile.loads builds a new Lark parser per
    call, ~0.15 s); worker reuse itself is what C12 checks, and every check also runs a
    share of its cases through the plain module-level API"""
    from mappyfile.parser import Parser
    from mappyfile.transformer import MapfileToDict
    key = (include_position, include_comments)
    if key not in _workers:
        _workers[key] = (Parser(expand_includes=False, include_comments=include_comments),
                         MapfileToDict(include_position=include_position, include_comments=include_comments))
    p, m = _workers[key]
    return m.transform(p.parse(text))


def loads_plain(text):
    return docs.plain(fast_loads(text))


def same(a, b):
    """structural equality, ints and floats compared numerically"""
    if isinstance(a, dict) and isinstance(b, dict):
        return list(a.keys()) == list(b.keys()) and all(same(a[k], b[k]) for k in a)
    if isinstance(a, list) and isinstance(b, list):
        return len(a) == len(b) and all(same(x, y) for x, y in zip(a, b))
    if isinstance(a, bool) or isinstance(b, bool):
        return a is b
    if isinstance(a, (int, float)) and isinstance(b, (int, float)):
        return a == b
    return type(a) is type(b) and a == b


def check_slot(objtype, item, position="only", filler=None):
    """-> (ok, stage, detail)"""
    import mappyfile
    doc = docs.mini_doc(objtype, item, position, filler)
    text, _, _ = docs.render(doc, docs.Layout())
    want = docs.intended_block(doc)
    try:
        got = loads_plain(text)
    except Exception as ex:
        return False, "parse", "%s: %s" % (type(ex).__name__, str(ex).splitlines()[0][:80] if str(ex) else "")
    if not same(got, want):
        return False, "structure", "got %r want %r" % (got.get(item.key, got), want.get(item.key))
    return True, "ok", ""


_usable = None


def usable_slots():
    """objtype -> Items that parse to their intended structure alone and in first/last position"""
    global _usable
    if _usable is None:
        _usable = {}
        for ot in docs.object_types():
            good = []
            for it in docs.slot_items(ot):
                if check_slot(ot, it)[0]:
                    good.append(it)
            _usable[ot] = good
    return _usable
