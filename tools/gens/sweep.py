"""Slot sweep through the REAL public API: which (object type, keyword, value
alternative) mini-documents load to their intended structure at the root and
nested in a parent block, in first / middle / last position.  C19 reports the
slots that fail; every other generator stays inside the vocabulary that works,
so that one slot defect is reported once, by C19."""
import os, json, hashlib, glob
from collections import OrderedDict
from gens import docs

ROOT = os.path.dirname(os.path.dirname(os.path.dirname(os.path.abspath(__file__))))
_workers = {}
_calls = 0
MODULE_API_EVERY = int(os.environ.get("VERIF_MODULE_API_EVERY", "25"))


def fast_loads(text, include_position=False, include_comments=False):
    """loads through cached worker objects (mappyfile.loads builds a new Lark parser per
    call, ~0.15 s); worker reuse itself is what C12 checks, and every check also runs a
    share of its cases through the plain module-level API"""
    from mappyfile.parser import Parser
    from mappyfile.transformer import MapfileToDict
    global _calls
    _calls += 1
    if _calls % MODULE_API_EVERY == 0:
        # a share of all calls goes through the public module-level entry point (whatever it caches or shares)
        import mappyfile, re
        if not re.search(r"(?im)^\s*include", text):
            # no INCLUDE line: the default call (include expansion on) must give the same result
            return mappyfile.loads(text, include_position=include_position, include_comments=include_comments)
        return mappyfile.loads(text, expand_includes=False, include_position=include_position, include_comments=include_comments)
    key = (include_position, include_comments)
    if key not in _workers:
        _workers[key] = (Parser(expand_includes=False, include_comments=include_comments),
                         MapfileToDict(include_position=include_position, include_comments=include_comments))
    p, m = _workers[key]
    return m.transform(p.parse(text))


def loads_plain(text):
    return docs.plain(fast_loads(text))


def same(a, b):
    """structural equality; ints and floats are different values"""
    if isinstance(a, dict) and isinstance(b, dict):
        return list(a.keys()) == list(b.keys()) and all(same(a[k], b[k]) for k in a)
    if isinstance(a, list) and isinstance(b, list):
        return len(a) == len(b) and all(same(x, y) for x, y in zip(a, b))
    if isinstance(a, bool) or isinstance(b, bool):
        return a is b
    # numbers keep the type their spelling has (2 is an int, 2.0 a float): the contract says nothing is retyped
    return type(a) is type(b) and a == b


_parents = None


def parent_chain(objtype):
    """[(type, singleton)] from the root MAP down to objtype (shortest), or None"""
    global _parents
    if _parents is None:
        _parents = {"map": None}
        queue = ["map"]
        while queue:
            p = queue.pop(0)
            for key, ty, singleton in docs.children_of(p):
                if ty not in _parents:
                    _parents[ty] = (p, singleton)
                    queue.append(ty)
    if objtype not in _parents:
        return None
    chain = []
    cur = objtype
    single = False
    while cur is not None:
        nxt = _parents[cur]
        chain.append((cur, nxt[1] if nxt else False))
        cur = nxt[0] if nxt else None
    return list(reversed(chain))


def nest(objtype, inner_block):
    """wrap inner_block (of type objtype) in its parent chain; returns the root block"""
    chain = parent_chain(objtype)
    if not chain or len(chain) == 1:
        return inner_block
    inner_block.singleton = chain[-1][1]
    cur = inner_block
    for ty, singleton in reversed(chain[:-1]):
        cur = docs.Block(ty, [cur], singleton)
    return cur


def fillers(objtype, avoid_key):
    out = []
    for pref in (lambda it: it.shape in ("string", "integer:3", "number:2.5"),
                 lambda it: it.kind == "attr" and not it.repeated and it.shape not in ("enum:end", "enum:feature")):
        for it in docs.slot_items(objtype):
            if it.key != avoid_key and pref(it) and it.key not in [f.key for f in out]:
                out.append(it)
            if len(out) == 2:
                return out
    return out


def try_doc(doc):
    text, _, _ = docs.render(doc, docs.Layout())
    want = docs.intended_block(doc)
    try:
        got = loads_plain(text)
    except Exception as ex:
        return False, "parse", "%s: %s" % (type(ex).__name__, (str(ex).splitlines() or [""])[0][:100]), text
    if not same(got, want):
        return False, "structure", "loaded structure differs from the intended one", text
    return True, "ok", "", text


def slot_contexts(objtype, item):
    """the mini documents a slot must survive: (context name, document)"""
    out = [("root/only", docs.Block(objtype, [item], False))]
    fl = fillers(objtype, item.key)
    if parent_chain(objtype) and len(parent_chain(objtype)) > 1:
        out.append(("nested/only", nest(objtype, docs.Block(objtype, [item], False))))
        if fl:
            out.append(("nested/first", nest(objtype, docs.Block(objtype, [item] + fl, False))))
            out.append(("nested/last", nest(objtype, docs.Block(objtype, fl + [item], False))))
            out.append(("nested/middle", nest(objtype, docs.Block(objtype, fl[:1] + [item] + fl[1:], False))))
    elif fl:
        out.append(("root/first", docs.Block(objtype, [item] + fl, False)))
        out.append(("root/last", docs.Block(objtype, fl + [item], False)))
        out.append(("root/middle", docs.Block(objtype, fl[:1] + [item] + fl[1:], False)))
    return out


def check_slot(objtype, item):
    """-> list of (context, stage, detail, text) failures"""
    bad = []
    for name, doc in slot_contexts(objtype, item):
        ok, stage, det, text = try_doc(doc)
        if not ok:
            bad.append((name, stage, det, text))
    return bad


def source_fingerprint():
    repo = os.environ.get("VERIF_REPO", "/repo")
    h = hashlib.sha1()
    for f in sorted(glob.glob(os.path.join(repo, "mappyfile", "*.py")) + glob.glob(os.path.join(repo, "mappyfile", "*.lark"))
                    + glob.glob(os.path.join(repo, "mappyfile", "schemas", "*.json")) + [__file__, docs.__file__]):
        h.update(open(f, "rb").read())
    return h.hexdigest()[:16]


_usable = None
_child_ok = None


def usable_slots():
    """objtype -> Items that load to their intended structure in every context (cached per source state)"""
    global _usable, _child_ok
    if _usable is not None:
        return _usable
    cache = os.path.join(ROOT, "build", "usable_%s.json" % source_fingerprint())
    data = None
    if os.path.exists(cache):
        try:
            data = json.load(open(cache))
        except Exception:
            data = None
    if data is None:
        data = {"slots": [], "children": [], "parseable": []}
        for ot in docs.object_types():
            for it in docs.slot_items(ot):
                bad = check_slot(ot, it)
                if not bad:
                    data["slots"].append([ot, it.key, it.shape])
                if not any(stage == "parse" for _, stage, _, _ in bad):
                    data["parseable"].append([ot, it.key, it.shape])
            for key, ty, singleton in docs.children_of(ot):
                child = docs.Block(ty, [], singleton)
                doc = nest(ot, docs.Block(ot, [child], False)) if ot != "map" else docs.Block(ot, [child], False)
                if try_doc(doc)[0]:
                    data["children"].append([ot, ty])
        os.makedirs(os.path.dirname(cache), exist_ok=True)
        json.dump(data, open(cache, "w"))
    good = set(tuple(x) for x in data["slots"])
    _usable = {}
    for ot in docs.object_types():
        _usable[ot] = [it for it in docs.slot_items(ot) if (ot, it.key, it.shape) in good]
    _child_ok = set(tuple(x) for x in data["children"])
    par = set(tuple(x) for x in data.get("parseable", data["slots"]))
    global _parseable
    _parseable = {ot: [it for it in docs.slot_items(ot) if (ot, it.key, it.shape) in par] for ot in docs.object_types()}
    return _usable


_parseable = None


def parseable_slots():
    """objtype -> Items whose documents are accepted by loads in every context (whatever they load to):
    the pool for properties that do not need the intended structure (round trip, idempotence, options)"""
    usable_slots()
    return _parseable


def usable_children():
    usable_slots()
    return _child_ok
