#!/usr/bin/env python3
"""Regenerate /verif/MANIFEST.json from the table below (kept next to the checks)."""
import json, os
ROOT = os.path.dirname(os.path.dirname(os.path.abspath(__file__)))
IDS = [json.loads(l)["id"] for l in open(os.path.join(ROOT, "properties.jsonl"))]

NOTE_COMMON = ("Trusted: Coq 8.16.1 kernel + vm_compute; the data translators (tools/translate); extraction with ExtrOcamlBasic + ocaml/driver.ml; "
               "the Python correspondence harness. Modelled, not verified: CPython builtins and third-party libraries named in DESIGN.md section 8. "
               "Every Print Assumptions is required to report 'Closed under the global context'.")

import sys, glob, importlib
sys.path.insert(0, os.path.join(ROOT, "tools"))
CLAIMED = {}
REASONS = {}
for f in sorted(glob.glob(os.path.join(ROOT, "tools", "checks", "C[0-9]*.py"))):
    pid = os.path.splitext(os.path.basename(f))[0]
    m = importlib.import_module("checks." + pid)
    if getattr(m, "MANIFEST", None):
        c = dict(m.MANIFEST)
        c["note"] = NOTE_COMMON + " " + c.get("note", "")
        CLAIMED[pid] = c
    elif getattr(m, "NOT_APPLICABLE", None):
        REASONS[pid] = m.NOT_APPLICABLE

REASON_PENDING = "check not built yet (work in progress, see DESIGN.md section 9)"

def main():
    checks = []
    for pid in IDS:
        if pid in CLAIMED:
            c = CLAIMED[pid]
            checks.append({
                "property_id": pid,
                "quick_cmd": "./check %s --tier quick" % pid,
                "thorough_cmd": "./check %s --tier thorough" % pid,
                "evidence_file": "/verif/evidence/%s.json" % pid,
                "replay_cmd_template": "./check %s --replay {path}" % pid,
                "engine": "coq-model+correspondence",
                "level_claimed": {"category": "proof", "text": c["text"], "design_ref": c["design_ref"]},
                "level_note": c["note"],
                "technique": c["technique"],
            })
    m = {"version": 1, "setup_cmd": "./setup.sh",
         "hooks": {"guard": "MAPPYFILE_VERIF",
                   "enable": "no hooks are needed: every observation uses public API or objects reachable from it (guard name reserved)",
                   "baseline_off_cmd": "cd /repo && /venv/bin/python -m pytest -ra -q -p no:cacheprovider --timeout=900 --continue-on-collection-errors",
                   "source_commits": [], "add_only": True},
         "engines": [{"name": "coq-model+correspondence", "path": "/verif/check",
                      "serves_properties": sorted(CLAIMED),
                      "kind_free_text": "Coq 8.16 development under coq/ (generated data in coq/Gen, hand model in coq/Model, theorems in coq/Props) + OCaml-extracted model run against the real code by tools/checks"}],
         "checks": checks,
         "notes": "see DESIGN.md; known genuine defects are listed in known_findings.json",
         "not_applicable": [{"property_id": i, "reason": REASONS.get(i, REASON_PENDING)} for i in IDS if i not in CLAIMED]}
    json.dump(m, open(os.path.join(ROOT, "MANIFEST.json"), "w"), indent=1)

if __name__ == "__main__":
    main()
