#!/usr/bin/env python3
"""Regenerate /verif/MANIFEST.json from the table below (kept next to the checks)."""
import json, os
ROOT = os.path.dirname(os.path.dirname(os.path.abspath(__file__)))
IDS = [json.loads(l)["id"] for l in open(os.path.join(ROOT, "properties.jsonl"))]

NOTE_COMMON = ("Trusted: Coq 8.16.1 kernel + vm_compute; the data translators (tools/translate); extraction with ExtrOcamlBasic + ocaml/driver.ml; "
               "the Python correspondence harness. Modelled, not verified: CPython builtins and third-party libraries named in DESIGN.md section 8. "
               "Every Print Assumptions is required to report 'Closed under the global context'.")

CLAIMED = {
    "C17": dict(
        technique="Coq refinement proof (induction over operation sequences) + extracted-model correspondence",
        text=("Coq theorems (Props/C17.v): for every operation sequence, from every dictionary satisfying the representation invariant and both factory settings, "
              "the method-by-method model of CaseInsensitiveOrderedDict yields the outputs and items() of a plain ordered dict keyed by str.lower-ed keys "
              "(refinement by induction over the op list; lower-idempotence discharged by reflection over the generated Unicode table); invariants keys-lower/no-duplicates; "
              "construction, missing-list-key, copy/deepcopy/pickle clauses. The model is tied to ordereddict.py by running the extracted model and the real class "
              "on all op sequences up to length 2 (3 in thorough) over a 6-key mixed-case alphabet plus random histories, comparing every output and items() after every step. "
              "Deepcopy aliasing is only exercised by the hunter (value-level model)."),
        design_ref="DESIGN.md 7/C17",
        note=NOTE_COMMON + " C17: collections.OrderedDict and pickle/copy protocols are modelled (Lib/PyDict.v, Model/OrderedDict.v); U+03A3 final-sigma excluded from str.lower's model."),
}

REASON_PENDING = "check not built yet (work in progress, see DESIGN.md section 9)"

def main():
    checks = []
    for pid in IDS:
        if pid in CLAIMED:
            c = CLAIMED[pid]
            checks.append({
                "property_id": pid,
                "quick_cmd": "./check %s --tier quick" % pid,
                "thorough_cmd": "./check %s --tier thorough" % pid,
                "evidence_file": "/verif/evidence/%s.json" % pid,
                "replay_cmd_template": "./check %s --replay {path}" % pid,
                "engine": "coq-model+correspondence",
                "level_claimed": {"category": "proof", "text": c["text"], "design_ref": c["design_ref"]},
                "level_note": c["note"],
                "technique": c["technique"],
            })
    m = {"version": 1, "setup_cmd": "./setup.sh",
         "hooks": {"guard": "MAPPYFILE_VERIF",
                   "enable": "no hooks are needed: every observation uses public API or objects reachable from it (guard name reserved)",
                   "baseline_off_cmd": "cd /repo && /venv/bin/python -m pytest -ra -q -p no:cacheprovider --timeout=900 --continue-on-collection-errors",
                   "source_commits": [], "add_only": True},
         "engines": [{"name": "coq-model+correspondence", "path": "/verif/check",
                      "serves_properties": sorted(CLAIMED),
                      "kind_free_text": "Coq 8.16 development under coq/ (generated data in coq/Gen, hand model in coq/Model, theorems in coq/Props) + OCaml-extracted model run against the real code by tools/checks"}],
         "checks": checks,
         "notes": "see DESIGN.md; known genuine defects are listed in known_findings.json",
         "not_applicable": [{"property_id": i, "reason": REASON_PENDING} for i in IDS if i not in CLAIMED]}
    json.dump(m, open(os.path.join(ROOT, "MANIFEST.json"), "w"), indent=1)

if __name__ == "__main__":
    main()
