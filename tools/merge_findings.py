#!/usr/bin/env python3
"""known_findings.d/*.json -> known_findings.json (deterministic merge)."""
import json, glob, os
ROOT = os.path.dirname(os.path.dirname(os.path.abspath(__file__)))
allf = []
for f in sorted(glob.glob(os.path.join(ROOT, "known_findings.d", "*.json"))):
    allf += json.load(open(f))["findings"]
ids = [x["id"] for x in allf]
assert len(ids) == len(set(ids)), "duplicate finding ids"
for x in allf:
    assert x["status"] in ("open", "fixed") and x["property"] and x["fingerprint"] and x["what"]
json.dump({"_comment": "Genuine defects of the pinned mappyfile tree. 'open' entries suppress exactly their fingerprint; 'fixed' entries suppress nothing. Never written at run time.",
           "findings": allf}, open(os.path.join(ROOT, "known_findings.json"), "w"), indent=1)
print(len(allf), "findings")
